#!/usr/bin/env python3
"""Generates /verif/MANIFEST.json from the tables below (kept in one place so
that the claimed / not-applicable split, commands and texts stay consistent)."""
import json, subprocess

TECH = "deterministic simulation with fault injection: seeded plans executed against the real code in a synctest bubble (fake clock, tick clock overlay), "

CLAIMED = {
 "C03": dict(engine="volsim", design="§6 C03, §3.5",
   technique=TECH + "crash-point injection by prefix truncation of .dat/.idx (exhaustive for short histories, sampled otherwise), reference map oracle, ddmin-minimised replay files",
   text="Seeded search over (history, crash point) pairs on the real Volume/Store code: every byte-level crash point of short histories and sampled points of longer ones, torn records included, a second crash during recovery, memory and LevelDB needle maps with lost/stale/fresh LevelDB directories. Oracle: reopen succeeds, completed operations read back exactly, the in-flight key shows before or after, nothing foreign, new writes accepted and still readable after another clean reopen. Evidence, not proof: the space is sampled.",
   note="Trusted: the prefix crash model (files keep a write-order-respecting prefix; no reordered write-back, no bit rot), real file system semantics of tmpfs/ext4 for the scratch directory, the reference map. Process-killing SUT panics are detected through a worker journal and confirmed in a fresh process."),
}

VOLNOTE = "Trusted: the reference map, tmpfs/ext4 semantics of the scratch directory, the harness's knowledge of the needle record layout where bytes are flipped. Interleavings are explored at the granularity of H2 yield points and operation boundaries, not at instruction level. Known findings (specific inputs) are listed in known_findings.json and printed as KNOWN-FINDING."
CLAIMED.update({
 "C01": dict(engine="volsim", design="§6 C01",
   technique=TECH + "write-fault injection (EIO, ENOSPC, short write, failed sync/truncate) through the Volume.DataBackend seam, clean restarts, reference map oracle relaxed per faulted operation only",
   text="Seeded histories of uploads (incl. identical rewrites, empty payloads, batched fsync path), deletes, reads, read-only toggles and clean restarts on the real Store/Volume, checked operation by operation against a reference map (data, name, mime, pairs, last-modified, compression, TTL). Separate fault-free and fault-injecting configurations; after a faulted operation the key may hold the old or the new value, never a third. The cookie clause is decided where the code implements it: uploads with another cookie go to the Store and must be refused leaving the blob untouched; GET and DELETE presenting another cookie go through the real volume-server HTTP handler and must return no data / remove nothing.",
   note=VOLNOTE),
 "C02": dict(engine="volsim", design="§6 C02",
   technique=TECH + "silent-corruption injection (single bit flips in stored data bytes) and record-by-record scans checked against the append log",
   text="Partial claim: the encode/decode equality is a pure function and is only sampled (boundary lengths x name/mime lengths x flags, needle versions 2 and 3). Simulation decides the fault part: a flipped stored data byte must surface as an error, never as altered data; a scan visits exactly the appended records in order at 8-byte aligned offsets.",
   note=VOLNOTE),
 "C04": dict(engine="volsim", design="§6 C04, §3.3",
   technique=TECH + "scheduler-chosen interleaving of uploads/deletes/clock moves with Compact/Compact2/CommitCompact parked at yield points; twin-volume refinement oracle",
   text="The real compaction code runs in its own goroutine and is parked by the scheduler after the index snapshot, at each visited needle and before the commit lock while the plan releases writes, deletes and clock advances; a twin volume receives the same operations and is never compacted. Immediately after each commit every key must read identically on both (same fake instant). TTL and non-TTL volumes, client timestamps, empty blobs, both algorithms, both needle-map kinds.",
   note=VOLNOTE),
 "C05": dict(engine="volsim", design="§6 C05",
   technique=TECH + "clean-restart injection between index operations; reference map + counter-equality oracle; default and 5BytesOffset builds",
   text="Index operations are driven through the real Volume over adversarial key orders; lookups are compared with a reference map and FileCount/DeletedCount/ContentSize/DeletedSize/MaxFileKey before each clean restart with the values after reload, for the in-memory and LevelDB maps (LevelDB directory judged fresh or stale by plan), built with 4-byte and 5-byte offsets. Offsets above 32 bits and the sorted-file map (read-only volumes) are not reached by this check.",
   note=VOLNOTE),
 "C09": dict(engine="volsim", design="§6 C09, §3.2",
   technique=TECH + "fake-clock jumps placed around expiry instants, compaction and heartbeat-driven volume expiry at chosen instants; reference model readable iff now < append + TTL",
   text="Volume-level part of the property: blobs with TTLs of every unit, volume TTL equal/different/absent, client timestamps; the fake clock jumps to just before/after expiry; reads, both compaction algorithms and the store's heartbeat (which deletes expired TTL volumes) run at chosen instants. The filer clause (volume TTL >= entry TTL) is not decided here.",
   note=VOLNOTE),
})

TOPONOTE = "Trusted: the reference recomputed from the registered state (last report of each connected server), the RaftStub (single leader), the in-memory heartbeat stream standing in for gRPC transport. Volume servers are modelled message sources; the master handler and topology are the real code."
CLAIMED.update({
 "C11": dict(engine="cluster", design="§6 C11",
   technique=TECH + "modelled volume servers driving the real master SendHeartbeat handler over in-memory streams with duplicated, stale and reordered heartbeats, disconnects and a reconnect overtaking the unregister; invariant checked after every delivered message",
   text="Seeded heartbeat histories (full/incremental, lagging the servers' actual state, read-only flips, sizes around the limit, disconnect/reconnect) from 2-5 modelled volume servers against the real master handler and topology. After every message: every volume offered for writes has all registered replicas writable, the right replica count (or more with replication-as-minimum) and — after the master's own sweep had four pulses of fake time — a size below the limit; layout locations and Topology.Lookup equal the registered servers.",
   note=TOPONOTE),
 "C12": dict(engine="cluster", design="§6 C12",
   technique=TECH + "same message-level fault injection as C11 plus EC-shard full/incremental heartbeats and max-volume changes; recount invariant checked after every delivered message",
   text="After every delivered heartbeat the volume, remote-volume, EC-shard and max-volume counters of every disk, server, rack, data center and the cluster equal the recount from the registered state beneath, and the per-server listings equal what is registered. Three genuine accounting defects found this way were repaired (see known_findings.json 'fixed').",
   note=TOPONOTE),
})
CLAIMED["C13"] = dict(engine="cluster", design="§6 C13",
   technique=TECH + "scheduler-ordered NextFileId/SetMax/Assign/heartbeat/leader-change histories against the real sequencers and master handlers, etcd fault injection (errors, CAS conflicts, restarts) through an in-memory KeysAPI; history oracle (disjoint ranges, nothing at or below keys in use, unique volume ids)",
   text="Every sequencer type is driven for real: memory, snowflake, and etcd over an in-memory compare-and-swap store shared by one or two instances with injected errors and restarts; in system mode one or two real masters (raft stub group) serve Assign with any counts while modelled volume servers report the largest key in use, clients write assigned keys, and leadership moves with assignments not yet written. Over the recorded history no two assignments of a volume overlap, no assignment contains a key reported in use or already written, and NextVolumeId never repeats.",
   note=TOPONOTE + " etcd and raft are stubs: real raft safety and real etcd semantics beyond compare-and-swap are out of scope. Interleaving granularity is one handler / sequencer call.")
CLAIMED["C38"] = dict(engine="volsim", design="§6 C38, §3.3",
   technique=TECH + "scheduler-chosen operation order and async-batch composition (worker parked at an H2 yield while requests queue), slow-disk stalls inside the critical sections with a second operation issued meanwhile, failing batch sync; recorded invoke/return history checked for linearizability with porcupine against a per-key register",
   text="2-4 simulated clients issue uploads (immediate and batched fsync path), deletes and reads on the real Store/Volume; the scheduler decides who runs next and how many requests pile up before the async worker processes a batch; a slow-disk fault parks an operation (or the batch worker) inside the data file while another is issued; histories (<= ~30 operations, unique values, deletes reporting whether they removed something, final reads included) are checked with porcupine per key, strictly up to the key's first write in a failed batch. Reads apply the volume server handler's cookie rule. The race-detector clause of the statement is not decided by this technique.",
   note=VOLNOTE + " Return events are stamped when the scheduler observes completion (never earlier than the real return), which can only weaken real-time constraints, never invent them.")
CLUSTERNOTE = "Trusted: the simulated network (in-memory gRPC connections with gated client interceptors, in-process HTTP round trips), the RaftStub, the single bubble clock (no per-node skew). Real master and volume server objects run unmodified; TCP, kernel and real raft are not simulated. Partitions are per destination."
CLAIMED["C14"] = dict(engine="cluster", design="§6 C14, §3.4",
   technique=TECH + "real master and volume servers on a simulated network; every vacuum RPC parked and released per plan with per-(replica, phase) verdicts ok / request dropped / response lost / delayed past the time-out and a chosen completion order; invariants at the wire and end-state comparison of replicas",
   text="The master's own Topology.Vacuum runs against 1-3 real volume servers holding a replicated volume with garbage; each check/compact/commit/cleanup RPC is parked on the simulated network and released with a plan-chosen verdict and order (fake clock lets the 1- and 3-minute phase time-outs fire); client uploads happen during and after the round. Checked: no commit to a replica whose compaction was not acknowledged in the round; every key reads identically from every replica and live blobs are intact; the volume is writable three heartbeats after the round exactly if it was before.",
   note=CLUSTERNOTE)
CLAIMED["C22"] = dict(engine="logsim", design="§6 C22, §5.5",
   technique=TECH + "scheduler-stepped appenders, two-phase flush function, fake-clock interval flusher and 1-4 subscribers (real LoopProcessLogData parked in its callbacks) over the real LogBuffer; exactly-once / ordering / bounded-delivery oracle over each subscriber's delivered sequence",
   text="Appends with caller, buffer-assigned, racing and client timestamps, rotations by size, by time and by the interval flusher, flushes whose completion lags by a plan-chosen number of generations, and subscribers starting at drawn timestamps (zero, exact event timestamps, +-1 ns around buffer and flush boundaries, future) are interleaved step by step; each subscriber must receive exactly the events later than its start, once, in increasing timestamp order, whether served from the current buffer, sealed buffers or the captured flushed segments, and everything must have arrived after appends stop, flushes complete and fake time passes. The data-race clause is not decided.",
   note="Trusted: the subscriber loop is a line-by-line copy of SubscribeLocalMetadata around the real LoopProcessLogData; the disk is in memory with the file naming / selection of filer_notify.go mirrored; interleaving granularity is whole LogBuffer calls and subscriber callbacks. The aggregated (multi-filer) path is not modelled.")
CLAIMED["C40"] = dict(engine="cluster", design="§6 C40, §3.4",
   technique=TECH + "real master and volume servers on a simulated network; every upload/delete HTTP request parked and released per plan with drop / lost response / delay per replica message and a chosen completion order (client-library retries on the fake clock); replica-equality oracle after every operation reported successful",
   text="Uploads with names and mime types that do and do not trigger client-side compression, pairs, TTL, client timestamps and the manifest flag, overwrites and deletes are sent to the primary of a volume replicated on 2-3 real volume servers; replica requests fail, lose their response or are delayed per plan. After every operation the client saw succeed, every replica is queried over HTTP (status, headers incl. name/mime/pairs/last-modified, decoded body) and gRPC (cookie, stored last-modified, TTL) and all must agree. Stored checksum/compression may differ (the statement compares decoded content). Nothing is demanded for operations reported failed.",
   note=CLUSTERNOTE)
CLAIMED["C34"] = dict(engine="cluster", design="§6 C34",
   technique=TECH + "real master issuing tokens and a real volume server checking them on one fake clock; token use placed by the plan around the expiry instant; accept/reject oracle plus stored-state comparison around every rejected or accepted request",
   text="Partial claim: enumeration of token shapes is input generation and only sampled (other key, alg=none, garbage, other file, sub-file suffix, missing). Simulation decides the time-dependent part in the running system: the master's Assign token (and fresh tokens) are used for uploads, deletes and reads after fake delays straddling expires_after_seconds; a request is accepted iff the token is unexpired at the server's check, signed with the configured key and names the target file (suffix ignored); rejected requests leave the stored blob untouched, accepted ones take effect.",
   note=CLUSTERNOTE + " The expiry second itself may go either way (second-granular claims). Clock skew between master and volume server is not emulated.")
ECNOTE = "Trusted: shard loss = file absence, torn shard = truncated file, crash states built from file contents before/after the in-flight call in the real write order; the 4-byte in-place mark is assumed atomic. Peer-served degraded reads (gRPC) are not driven here."
CLAIMED["C06"] = dict(engine="ecsim", design="§6 C06",
   technique=TECH + "shard-loss and torn-shard injection on real EC files (every subset of <=4 lost shards in the thorough tier), rebuild, decode and interval reads compared byte for byte with the original volume",
   text="Partial claim: the interval arithmetic over sizes and offsets is sampled by the generator (sizes on and around every row boundary with 0-3 large rows, scaled block sizes; the production constants every 8th run on volumes below two small rows). Simulation decides the fault part: any <=4 lost shards are regenerated byte-identically, more than 4 is an error, torn shards are rejected or rebuilt correctly, decode reproduces the data file and index, and every record read through shard-size-derived intervals (also after rebuild, also through a Store with missing local shards) equals the original bytes.",
   note=ECNOTE)
CLAIMED["C07"] = dict(engine="ecsim", design="§6 C07",
   technique=TECH + "crash injection between the in-place mark and the journal append (and inside the journal append), reopen and index rebuilds; byte-level model of the sorted index; default and 5BytesOffset builds",
   text="Deletes of present, absent and already deleted keys through EcVolume and through the sorted-file needle map of read-only volumes, lookups, reopen, RebuildEcxFile and WriteIdxFileFromEcIndex; crashes before the mark, between mark and journal, inside the journal append and after it. Exactly the target entry's size becomes a tombstone, every other entry keeps offset and size, the journal holds every acknowledged delete, rebuilt indexes give the model's live set, and after a crash the in-flight delete is applied or not and nothing else changed. Both offset widths.",
   note=ECNOTE)
CLAIMED["C30"] = dict(engine="mountsim", design="§6 C30, §5.6",
   technique=TECH + "asynchronous chunk uploads parked in an injected saver and completed (or failed) in a plan-chosen order while writes, truncates, reads and flushes continue; POSIX byte-array model; flushed chunks resolved with the real filer chunk logic",
   text="On one open mount file handle, for both dirty-page buffers, chunk limits from 8 bytes to 4 KiB and writer limits 0-8: generated writes (overlapping, out of order, beyond EOF, larger than the chunk limit), truncates, reads and flushes run against the real FileHandle/dirty-page code while every chunk upload parks in the injected saver and the plan decides when it completes and whether it fails. Every read equals a POSIX byte model, after a successful flush the collected and compacted chunks resolve to the model, and a flush fails exactly when an upload failed.",
   note="Trusted: the chunk saver (filer AssignVolume + HTTP upload) is the one stubbed component: weed/filesys/wfs_write.go is replaced at build time by a version that delegates to the harness; volume reads are answered in-process; the filer RPC leg of flush, reopen and chunk manifests are not exercised; uploads complete at quiescent points, one at a time.")
CLAIMED["C31"] = dict(engine="mountsim", design="§6 C31",
   technique=TECH + "clean and dirty (torn cache files) restarts injected between chunk stores and lookups on the real tiered cache with tiny sizes that force rotation and eviction; same-file-id oracle",
   text="Store / lookup / slice-lookup sequences with file ids that share or differ in volume id, key and cookie, sizes around the tier limits (shrunk through the unit size), rotation of all three on-disk layers and memory eviction, clean shutdown + reopen and reopen on a copy with a cache volume's data or index file cut to a prefix. A lookup returns nothing or bytes stored under that same file id at the requested offset and length.",
   note="Trusted: single sequential caller; an id re-stored with different data may be answered with any of its stored values; file times are set from operation order.")
CLAIMED["C35"] = dict(engine="cluster", design="§6 C35",
   technique=TECH + "scheduler-interleaved notification and lookup steps on the real client location cache, with each reader's lookup split into obtain/consume steps; reference-set oracle and handed-out-list integrity check",
   text="Add/remove notifications for a few volumes and servers are applied to the real wdclient vidMap in plan order while reader actors look volumes up; a lookup returns exactly the currently added locations (each once, same-data-center first) or not-found, and a list a reader obtained is still intact when it consumes it after later updates (no duplicated, lost or torn entries). Interleaving is at call granularity; the race-detector clause and the reconnecting stream against a real master are not part of this check.",
   note="Trusted: notifications are applied through thin wrappers around addLocation/deleteLocation exactly as tryConnectToMaster does; a reader holds the slice the API returned.")
CLAIMED["C10"] = dict(engine="cluster", design="§6 C10",
   technique=TECH + "seeded RNG draws of the real volume growth and heartbeat-driven capacity changes between growth requests; AllocateVolume RPCs recorded at modelled volume servers on the simulated network; placement-rule oracle plus brute-force existence check",
   text="Partial claim: the rule check over arbitrary topologies is a function of (topology, RNG draws); the simulator owns the RNG and the interleaving with heartbeats that change free slots. For generated topologies and every replication string 000..222, with and without preferences, the set of servers the master really sends AllocateVolume to for one new volume id is 1+x+y+z distinct servers with a free slot of the requested disk type, z+1 in one rack, y in other racks of that data center, x in other data centers, preferences honoured; when no valid set exists nothing is allocated. That growth succeeds whenever a valid set exists is not claimed.",
   note=TOPONOTE + " Allocation RPCs always succeed here (their failure is outside the statement).")
CLAIMED["C37"] = dict(engine="cluster", design="§6 C37",
   technique=TECH + "source operations (uploads, deletes, compactions) scheduled against backup runs whose VolumeIncrementalCopy stream is gated on the simulated network, so writes are released while the stream is open; convergence oracle after every quiet backup run",
   text="A source volume on a real volume server is written, deleted from and compacted while backup runs following command/backup.go (sync status, local compaction when the source revision moved, discard when longer, IncrementalBackup) pull through the real copy stream over the simulated network; the plan releases source writes while the stream is open. After every backup run during which the source was quiet, every key read from the backup volume equals the source's live content (missing, stale and undeleted blobs are violations).",
   note=CLUSTERNOTE + " The backup command's steps are reproduced by the harness (runBackup reads process flags); stream faults are not injected.")
CLAIMED["C25"] = dict(engine="cluster", design="§6 C25",
   technique=TECH + "real master, volume server and filer on a simulated network; request bodies that fail after k bytes, dropped Assign RPCs and dropped / response-lost chunk uploads released per plan (client-library retries on the fake clock); byte-equality oracle through the filer's own read handler",
   text="PUT, multipart POST and append requests with bodies around the inline limit and the 1 MB chunk boundary go through the real filer handlers, which assign and upload chunks to a real volume server; a GET through the filer follows every request. Success means the stored bytes equal the body (append: old followed by new); a request whose body failed is never reported successful; after a reported failure the file is unchanged or absent (or, without a body failure, completely written), never truncated.",
   note=CLUSTERNOTE + " Chunk sizes are whole megabytes in this version; one volume server, replication 000.")

PLANNED = {}


FILERNOTE = "Trusted: one real Filer + FilerServer handler methods inside the bubble on real leveldb/leveldb2/leveldb3 files; requests are built by the harness the way the mount builds them; a pass-through FilerStore wrapper (existing interface seam) injects failures of mutating store calls only; no transactions are assumed. Remote stores (mysql, redis, cassandra ...) are not run."
CLAIMED["C18"] = dict(engine="filersim", design="§6 C18; Part II §A",
   technique=TECH + "operation histories with clean restarts and injected failures of the n-th mutating store call on a real Filer over real embedded stores, compared with a reference tree after every step",
   text="Creates (with implicit parents, o_excl), updates, recursive and non-recursive deletes, renames (onto existing entries, into new parents, into the own subtree) and restarts over a small path universe; after EVERY step the whole namespace (recursive listing plus lookup of every path ever written) must equal the reference tree and satisfy the structural invariant (parents exist and are directories, no file<->directory replacement, non-recursive delete of a non-empty directory refused unchanged, recursive delete removes the subtree, rename moves it without loss or duplication, rename into the own subtree refused). An operation reported failed after an injected store failure may stop half-way (no transactions) but must keep the invariant.",
   note=FILERNOTE)
CLAIMED["C19"] = dict(engine="filersim", design="§6 C19; Part II §A",
   technique=TECH + "paginated enumerations interleaved with fake-clock TTL expiry and restarts on a real Filer, on leveldb/leveldb2/leveldb3 and on a store that forces the generic prefix-filter path; every page compared with the page the statement defines over the model",
   text="Partial claim: request shapes (start, inclusive, limit, prefix / pattern / exclusion) are sampled, not enumerated. Simulation decides the time- and store-dependent part: entries expire on the fake clock between pages while still physically stored, the filer restarts between pages, and the listing runs through each embedded store's native prefixed listing or through FilerStoreWrapper's generic filter; each page must be exactly the matching live children in order, without duplicates, at most limit, not shortened by expired entries, and following the last name enumerates every match once; an enumeration that does not terminate is a violation.",
   note=FILERNOTE + " Expiry during one page call is not reachable (no yield point inside a listing).")
CLAIMED["C20"] = dict(engine="filersim", design="§6 C20; Part II §A, §G",
   technique=TECH + "namespace histories with shared chunks, manifests and hard links on a real Filer; chunk deletions observed at the deletion queue and as BatchDelete gRPC requests (real client over bufconn) at a stub volume server, incl. the filer's own deletion loop on the fake clock; reference-count oracle over what is actually stored",
   text="Component variant: no data chunks exist, file ids are opaque; what is decided is which file ids the filer hands to deletion. After every create, overwrite, update, append, hard link, rename, delete and recursive delete (with clean restarts and injected store failures) no chunk reachable from a live entry (directly, via a manifest, via a hard-link record) has been queued or named in a BatchDelete, and every chunk dropped by an operation that deletes data has been.",
   note=FILERNOTE + " That the volume server really deletes what BatchDelete names is the cluster engine's business (C40).")
CLAIMED["C21"] = dict(engine="filersim", design="§6 C21; Part II §A",
   technique=TECH + "link/unlink/write/rename/overwrite/recursive-delete histories over names sharing 1-2 link identities on a real Filer with restarts and injected KV/store failures; model of link groups compared after every step",
   text="After every step every name is read by lookup and by listing: all names of one link identity show the same attributes and chunks, the counter equals the number of live names, the shared record exists exactly while a name is left. Link and unlink are the request pairs the mount sends.",
   note=FILERNOTE + " The link counter is maintained by the client (as in the mount); after a FAILED faulted two-request sequence the counter may be off by the half-done step (recorded as a probe).")
CLAIMED["C24"] = dict(engine="filersim", design="§6 C24; Part II §A",
   technique=TECH + "entries with drawn attributes, 0-70 chunks, extended attributes, inline content and hard-link fields written to real leveldb/leveldb2/leveldb3 stores and read back by lookup and listing across clean restarts",
   text="Partial claim: codec equality over entry shapes is input generation and only sampled. Simulation adds the durable-store part: what was acknowledged is read back equal, field by field (chunk file ids in canonical form), by lookup and by listing, immediately and after a restart of the store, including entries over the compression threshold, gzip-looking content, and chunks sent with both id forms (a stale struct beside the string id, as an entry read back and edited by a client carries; the string must come back).",
   note=FILERNOTE + " Remote-storage info and mime application/octet-stream (deliberately normalised) are not generated.")
CLAIMED["C36"] = dict(engine="filersim", design="§6 C36; Part II §A",
   technique=TECH + "the real filer's change stream consumed by the real Replicator and by the real filer.sync / filer.backup event function (through the real SubscribeLocalMetadata handler) into recording sinks and the real local sink, with drawn catch-up points and redelivery; projection oracle",
   text="Creates, updates, deletes and renames inside, into, out of and outside the watched directory (incl. siblings whose names extend it), half of the runs with changes carrying the target cluster's signature; subscribers catch up at drawn points and get the last 1-6 events redelivered (resume from an earlier offset). After every catch-up each sink holds exactly the projection of the source's watched subtree under the target directory: nothing outside it, nothing missing, nothing from the target's own changes re-applied.",
   note=FILERNOTE + " One filer only: a change 'from the target cluster' is a request carrying its signature; incremental (dated) sinks and restarts of the source filer are not exercised.")

NA = {
 "C08": "pure codec: encode/decode of super blocks, replica placements, TTLs, file ids and index entries are functions of their argument; no schedule, clock, fault or I/O for a simulator to own",
 "C15": "volume.balance / evacuate / fix.replication in dry-run mode are pure functions from a topology snapshot to a plan; nothing in the statement depends on a schedule, clock or fault",
 "C16": "ec.balance in dry-run mode is a pure function of a cluster snapshot",
 "C17": "the visible-interval overlay and manifest conversion are pure functions of the chunk list; the statement has no fault, clock or interleaving in it",
 "C23": "path-rule resolution is a pure function of (rule set, path)",
 "C26": "a reference-monitor statement over request inputs (route x auth style x identity); driving request matrices through a simulator would be input generation in simulator vocabulary",
 "C27": "listing pages are a function of (bucket contents, request); sequential, no fault or clock in the statement",
 "C28": "single PUT / copy / multipart / delete are sequential request-response behaviours over a fixed backend; nothing in the statement depends on a fault, crash or interleaving",
 "C29": "containment of keys is a pure path-mapping property of each request",
 "C32": "range handling is a pure function of (blob, headers)",
 "C33": "compression/encryption round-trip and decompressor robustness are pure (the latter is fuzzing, a different family)",
 "C39": "the mount node cache is an in-memory tree exercised sequentially; no concurrency, time or I/O in the statement",
}

def main():
    ids = [json.loads(l)["id"] for l in open("/verif/properties.jsonl")]
    hooks = subprocess.run(["git","-C","/repo","log","--format=%H %s","--grep=^verif hook"],capture_output=True,text=True).stdout.strip().splitlines()
    checks = []
    na = []
    for i in ids:
        if i in CLAIMED:
            c = CLAIMED[i]
            checks.append({
              "property_id": i,
              "quick_cmd": f"/verif/check.sh {i} quick",
              "thorough_cmd": f"/verif/check.sh {i} thorough",
              "evidence_file": f"/verif/evidence/{i}.json",
              "replay_cmd_template": "/verif/bin/verif replay {path}",
              "engine": c["engine"],
              "level_claimed": {"category": "exploration", "text": c["text"], "design_ref": c["design"]},
              "level_note": c["note"],
              "technique": c["technique"],
            })
        elif i in NA:
            na.append({"property_id": i, "reason": "not applicable to deterministic simulation: " + NA[i]})
        else:
            na.append({"property_id": i, "reason": "not claimed (yet): " + PLANNED.get(i, "simulation target per DESIGN.md §6; its engine is not built at this commit, so no claim is made")})
    engines = {}
    for i, c in CLAIMED.items():
        engines.setdefault(c["engine"], []).append(i)
    m = {
      "version": 1,
      "setup_cmd": "/verif/setup.sh",
      "hooks": {
        "guard": "verif (Go build tag)",
        "enable": "go1.26.8 test -c -tags verif -overlay <generated clock overlay> ./engines/<engine> inside /verif/sim, whose go.mod replaces github.com/chrislusf/seaweedfs with /repo (current working tree); the time.Now()->verif.Now() rewrite, the deterministic-map GOROOT files and the export shims under /verif/sim/overlay_add are build-time overlays, not edits to /repo; one overlay file REPLACES a repo file: weed/filesys/wfs_write.go (the mount's chunk saver, stubbed for C30)",
        "baseline_off_cmd": "for m in $(cat /w/out/gomods.txt); do MF=$(cd /repo/$m && . /w/out/goenv.sh && gomodflag); (cd /repo/$m && go test $MF -json -vet=off -count=1 -timeout 25m ./...); done",
        "source_commits": [h.split()[0] for h in hooks],
        "add_only": True,
      },
      "engines": [{"name": e, "path": f"/verif/sim/engines/{e}", "serves_properties": sorted(p), "kind_free_text": "deterministic simulation worker (Go test binary driven by /verif/bin/verif)"} for e, p in sorted(engines.items())],
      "checks": checks,
      "not_applicable": na,
      "notes": "One technique family: deterministic simulation with fault injection. Driver: /verif/bin/verif (built by setup.sh from /verif/sim/cmd/verif). Exit 0 held / 1 VIOLATION / 2 harness trouble. Known findings and fixed defects: /verif/known_findings.json. See DESIGN.md.",
    }
    json.dump(m, open("/verif/MANIFEST.json","w"), indent=1)
    print("claimed", len(checks), "not_applicable", len(na))

main()
