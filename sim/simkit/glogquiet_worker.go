//go:build verifworker

package simkit

import "github.com/chrislusf/seaweedfs/weed/glog"

// Worker binaries are built with the overlay (which adds glog.VerifConfigure)
// and the verifworker tag; the driver is built without either.
func init() {
	configureGlog = func(verbosity int) { glog.VerifConfigure(true, int32(verbosity)) }
}
