package simkit

import (
	"sync"
	"testing/synctest"

	"github.com/chrislusf/seaweedfs/weed/verif"
)

// Wait blocks until every other goroutine in the bubble is durably blocked
// (quiescence). The root goroutine calls it after starting or releasing
// anything, before drawing the next choice.
func Wait() { synctest.Wait() }

// Gates parks goroutines at armed verif.Yield points until the root
// goroutine releases them. Points are lock-free places in the SUT (hook H2).
type Gates struct {
	mu     sync.Mutex
	armed  map[string]bool
	parked []*parkedG
	r      *Run
	ord    int
}

type parkedG struct {
	name string
	ch   chan struct{}
	ord  int
}

func NewGates(r *Run) *Gates {
	g := &Gates{armed: map[string]bool{}, r: r}
	verif.YieldFunc = g.yield
	return g
}

func (g *Gates) Arm(names ...string) {
	g.mu.Lock()
	for _, n := range names {
		g.armed[n] = true
	}
	g.mu.Unlock()
}

func (g *Gates) Disarm(names ...string) {
	g.mu.Lock()
	if len(names) == 0 {
		g.armed = map[string]bool{}
	}
	for _, n := range names {
		delete(g.armed, n)
	}
	g.mu.Unlock()
}

func (g *Gates) yield(name string) {
	g.mu.Lock()
	if !g.armed[name] {
		g.mu.Unlock()
		return
	}
	g.ord++
	p := &parkedG{name: name, ch: make(chan struct{}), ord: g.ord}
	g.parked = append(g.parked, p)
	g.mu.Unlock()
	<-p.ch
}

// Parked lists the names of the points at which goroutines are parked now
// (call after Wait).
func (g *Gates) Parked() []string {
	g.mu.Lock()
	defer g.mu.Unlock()
	var out []string
	for _, p := range g.parked {
		out = append(out, p.name)
	}
	return out
}

// Release lets the first goroutine parked at name (any point if name is "")
// continue; it reports whether there was one. The caller follows with Wait.
func (g *Gates) Release(name string) bool {
	g.mu.Lock()
	for i, p := range g.parked {
		if name == "" || p.name == name {
			g.parked = append(g.parked[:i], g.parked[i+1:]...)
			g.mu.Unlock()
			if g.r != nil {
				g.r.Yielded(p.name)
			}
			close(p.ch)
			return true
		}
	}
	g.mu.Unlock()
	return false
}

// ReleaseAll disarms everything and releases every parked goroutine.
func (g *Gates) ReleaseAll() {
	g.Disarm()
	for g.Release("") {
	}
}
