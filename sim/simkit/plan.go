package simkit

import (
	"crypto/sha256"
	"encoding/hex"
	"encoding/json"
	"os"
)

// Step is one planned action: an operation, a fault, a crash, a restart, a
// clock move or a scheduling hint. Choices that depend on run-time state are
// drawn from a stream seeded by Seed, so deleting other steps does not
// perturb this one.
type Step struct {
	Kind string            `json:"k"`
	A    map[string]int64  `json:"a,omitempty"`
	S    map[string]string `json:"s,omitempty"`
	Seed uint64            `json:"seed,omitempty"`
}

func (s *Step) Int(name string) int64  { return s.A[name] }
func (s *Step) Str(name string) string { return s.S[name] }
func (s *Step) Has(name string) bool {
	_, ok := s.A[name]
	return ok
}

// St builds a step; args alternate name, value (int, int64, bool or string).
func St(kind string, seed uint64, args ...interface{}) Step {
	st := Step{Kind: kind, Seed: seed}
	for i := 0; i+1 < len(args); i += 2 {
		name := args[i].(string)
		switch v := args[i+1].(type) {
		case int:
			st.setA(name, int64(v))
		case int64:
			st.setA(name, v)
		case uint64:
			st.setA(name, int64(v))
		case uint32:
			st.setA(name, int64(v))
		case bool:
			if v {
				st.setA(name, 1)
			} else {
				st.setA(name, 0)
			}
		case string:
			if st.S == nil {
				st.S = map[string]string{}
			}
			st.S[name] = v
		default:
			panic("simkit.St: unsupported arg type for " + name)
		}
	}
	return st
}

func (s *Step) setA(name string, v int64) {
	if s.A == nil {
		s.A = map[string]int64{}
	}
	s.A[name] = v
}

// Plan is a complete, replayable description of one simulated execution.
type Plan struct {
	Property string            `json:"property"`
	Engine   string            `json:"engine"`
	Tier     string            `json:"tier,omitempty"`
	Seed     uint64            `json:"seed"`
	Index    int               `json:"index"`
	Cfg      map[string]int64  `json:"cfg,omitempty"`
	CfgS     map[string]string `json:"cfgs,omitempty"`
	Steps    []Step            `json:"steps"`
}

func (p *Plan) C(name string) int64   { return p.Cfg[name] }
func (p *Plan) CS(name string) string { return p.CfgS[name] }
func (p *Plan) SetC(name string, v int64) {
	if p.Cfg == nil {
		p.Cfg = map[string]int64{}
	}
	p.Cfg[name] = v
}
func (p *Plan) SetCS(name, v string) {
	if p.CfgS == nil {
		p.CfgS = map[string]string{}
	}
	p.CfgS[name] = v
}
func (p *Plan) Add(s Step) { p.Steps = append(p.Steps, s) }

func (p *Plan) Clone() *Plan {
	b, _ := json.Marshal(p)
	q := &Plan{}
	_ = json.Unmarshal(b, q)
	return q
}

func (p *Plan) Hash() string {
	b, _ := json.Marshal(p) // maps marshal with sorted keys: canonical
	h := sha256.Sum256(b)
	return hex.EncodeToString(h[:8])
}

// Replay is the file written for a violation: the minimised plan plus what
// executing it must reproduce.
type Replay struct {
	Plan          *Plan      `json:"plan"`
	Violation     *Violation `json:"violation"`
	LogHash       string     `json:"log_hash"`
	OriginalSteps int        `json:"original_steps"`
	OriginalSeed  uint64     `json:"original_seed"`
	BuildTags     string     `json:"build_tags,omitempty"`
	EventLog      []string   `json:"event_log,omitempty"`
}

func ReadReplay(path string) (*Replay, error) {
	b, err := os.ReadFile(path)
	if err != nil {
		return nil, err
	}
	rp := &Replay{}
	if err := json.Unmarshal(b, rp); err != nil {
		return nil, err
	}
	return rp, nil
}

func WriteJSON(path string, v interface{}) error {
	b, err := json.MarshalIndent(v, "", " ")
	if err != nil {
		return err
	}
	return os.WriteFile(path, append(b, '\n'), 0644)
}
