package simkit

import (
	"crypto/sha256"
	"encoding/hex"
	"fmt"
	"hash"
	"os"
	"testing"
	"time"
)

// Violation is what an oracle reports. (Class, Key) identifies the specific
// failing input / call site / history shape; it is what known findings and
// the minimiser match on.
type Violation struct {
	Class string `json:"class"`
	Key   string `json:"key"`
	Msg   string `json:"msg"`
}

func (v *Violation) Same(o *Violation) bool {
	return v != nil && o != nil && v.Class == o.Class && v.Key == o.Key
}

// Result is what one execution of a plan produced.
type Result struct {
	Property     string           `json:"property"`
	Seed         uint64           `json:"seed"`
	Index        int              `json:"index"`
	PlanHash     string           `json:"plan_hash"`
	Steps        int              `json:"steps"`
	Violation    *Violation       `json:"violation,omitempty"`
	LogHash      string           `json:"log_hash"`
	AbstractHash string           `json:"abs_hash"`
	NonTrivial   bool             `json:"nontrivial"`
	FaultConfig  bool             `json:"fault_config"`
	Faults       map[string]int   `json:"faults,omitempty"`
	Probes       map[string]int   `json:"probes,omitempty"`
	Yields       map[string]int   `json:"yields,omitempty"`
	Counters     map[string]int   `json:"counters,omitempty"`
	SimNs        int64            `json:"sim_ns"`
	Events       int              `json:"events"`
	Inconclusive string           `json:"inconclusive,omitempty"`
	HarnessError string           `json:"harness_error,omitempty"`
	Plan         *Plan            `json:"plan,omitempty"`
	ReplayFile   string           `json:"replay_file,omitempty"`
	MinSteps     int              `json:"min_steps,omitempty"`
	Hint         map[string]int64 `json:"hint,omitempty"`
	EventLog     []string         `json:"-"`
	LogDump      []string         `json:"event_log,omitempty"` // only with VERIF_KEEPLOG
}

// Run is the context handed to an engine for one execution.
type Run struct {
	Plan    *Plan
	T       *testing.T
	Dir     string // scratch directory of this run (removed afterwards)
	Res     Result
	seq     uint64
	logH    hash.Hash
	absH    hash.Hash
	lines   []string
	start   time.Time
	KeepLog bool
	// Data carries engine state from Exec (inside the bubble) to Teardown (outside it),
	// e.g. a recorded history to be checked with real-time bounded tools.
	Data interface{}
}

const maxKeptLines = 4000

func newRun(p *Plan, t *testing.T, dir string) *Run {
	r := &Run{Plan: p, T: t, Dir: dir, logH: sha256.New(), absH: sha256.New()}
	r.Res = Result{Property: p.Property, Seed: p.Seed, Index: p.Index, PlanHash: p.Hash(), Steps: len(p.Steps),
		Faults: map[string]int{}, Probes: map[string]int{}, Yields: map[string]int{}, Counters: map[string]int{}}
	return r
}

// Log appends one event-log line. Only the simulator's root goroutine, or a
// goroutine currently released by it, may call this.
func (r *Run) Log(format string, a ...interface{}) {
	r.seq++
	line := fmt.Sprintf("%d %s", r.seq, fmt.Sprintf(format, a...))
	r.logH.Write([]byte(line))
	r.logH.Write([]byte{'\n'})
	if len(r.lines) < maxKeptLines {
		r.lines = append(r.lines, line)
	}
}

// Seq is the global event sequence number (stamps invoke/return events).
func (r *Run) Seq() uint64 { r.seq++; return r.seq }

// Abs appends a token to the abstract trace (payloads erased): it is what
// "distinct interleavings/states reached" is counted over.
func (r *Run) Abs(tok string) { r.absH.Write([]byte(tok)); r.absH.Write([]byte{';'}) }

func (r *Run) Fault(kind string)   { r.Res.Faults[kind]++; r.Res.NonTrivial = true }
func (r *Run) Probe(name string)   { r.Res.Probes[name]++ }
func (r *Run) Yielded(name string) { r.Res.Yields[name]++; r.Res.NonTrivial = true }
func (r *Run) Count(name string)   { r.Res.Counters[name]++ }
func (r *Run) NonTrivial()         { r.Res.NonTrivial = true }

// Violate records the first violation of the run.
func (r *Run) Violate(class, key, format string, a ...interface{}) {
	msg := fmt.Sprintf(format, a...)
	r.Log("VIOLATION class=%s key=%s %s", class, key, msg)
	if r.Res.Violation == nil {
		r.Res.Violation = &Violation{Class: class, Key: key, Msg: msg}
	}
}

// Hint records engine-specific details of a violation that Refine can use.
func (r *Run) Hint(name string, v int64) {
	if r.Res.Hint == nil {
		r.Res.Hint = map[string]int64{}
	}
	r.Res.Hint[name] = v
}

func (r *Run) Violated() bool { return r.Res.Violation != nil }

// Inconclusive marks the run as undecided (never reported as a violation).
func (r *Run) Inconclusive(format string, a ...interface{}) {
	if r.Res.Inconclusive == "" {
		r.Res.Inconclusive = fmt.Sprintf(format, a...)
	}
}

// HarnessError marks an internal failure of the machinery (exit 2).
func (r *Run) HarnessError(format string, a ...interface{}) {
	if r.Res.HarnessError == "" {
		r.Res.HarnessError = fmt.Sprintf(format, a...)
	}
	r.Log("HARNESS-ERROR %s", r.Res.HarnessError)
}

func (r *Run) finish() {
	r.Res.LogHash = hex.EncodeToString(r.logH.Sum(nil)[:12])
	r.Res.AbstractHash = hex.EncodeToString(r.absH.Sum(nil)[:8])
	r.Res.Events = int(r.seq)
	r.Res.EventLog = r.lines
	if os.Getenv("VERIF_KEEPLOG") != "" {
		r.Res.LogDump = r.lines
	}
}

// StepRand returns the choice stream owned by a step.
func StepRand(s *Step, labels ...uint64) *Rand { return NewRand(Mix(s.Seed, labels...)) }
