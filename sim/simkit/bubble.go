package simkit

import (
	"fmt"
	"math/rand"
	"os"
	"runtime/debug"
	"strings"
	"testing"
	"testing/synctest"
	"time"

	"github.com/chrislusf/seaweedfs/weed/verif"
)

// Prop is one property's generator and executor inside an engine.
type Prop struct {
	ID   string
	Gen  func(tier string, seed uint64, idx int) *Plan // nil plan = enumerated space exhausted
	Exec func(r *Run)
	// Shrink proposes simpler variants of one step (argument shrinking).
	Shrink func(s Step) []Step
	// Refine rewrites a failing plan into a more specific one before
	// minimisation (e.g. "every crash point" -> the one that failed).
	Refine func(p *Plan, res *Result) *Plan
	// Setup/Teardown run outside the bubble, before/after each execution.
	Setup    func(r *Run)
	Teardown func(r *Run)
}

var registry = map[string]*Prop{}

func Register(p *Prop) { registry[p.ID] = p }

// BubbleEpoch is the fake instant at which every bubble starts.
var BubbleEpoch = time.Date(2000, 1, 1, 0, 0, 0, 0, time.UTC)

var runCounter int

// WorkRoot is the directory under which per-run scratch directories live.
func WorkRoot() string {
	if w := os.Getenv("VERIF_WORK"); w != "" {
		return w
	}
	return "/verif/.work"
}

// ExecPlan executes one plan in a fresh synctest bubble and returns its result.
func ExecPlan(t *testing.T, prop *Prop, plan *Plan) *Result {
	runCounter++
	dir := fmt.Sprintf("%s/run/%d/%d", WorkRoot(), os.Getpid(), runCounter)
	_ = os.RemoveAll(dir)
	if err := os.MkdirAll(dir, 0755); err != nil {
		panic(err)
	}
	defer os.RemoveAll(dir)
	r := newRun(plan, t, dir)
	if prop.Setup != nil {
		prop.Setup(r)
	}
	var simNs int64
	outer := runBubble(t, func() {
		defer func() {
			if p := recover(); p != nil {
				classifyPanic(r, p, string(debug.Stack()))
			}
			simNs = int64(time.Since(BubbleEpoch))
		}()
		verif.SetTicking(true)
		verif.YieldFunc = nil
		verif.ProbeFunc = func(name string) { /* replaced by engines that arm probes */ }
		rand.Seed(int64(plan.Seed))
		prop.Exec(r)
	})
	verif.YieldFunc = nil
	verif.ProbeFunc = nil
	if outer != "" {
		r.HarnessError("bubble: %s", outer)
	}
	if prop.Teardown != nil {
		prop.Teardown(r)
	}
	r.Res.SimNs = simNs
	r.finish()
	return &r.Res
}

// runBubble runs f in a synctest bubble. The normal end of a run leaves SUT
// background goroutines blocked (disk-space checker, volume workers); the
// resulting end-of-bubble deadlock panic is expected and swallowed.
func runBubble(t *testing.T, f func()) (problem string) {
	defer func() {
		if p := recover(); p != nil {
			msg := fmt.Sprint(p)
			if strings.Contains(msg, "main bubble goroutine has exited but blocked goroutines remain") {
				return
			}
			problem = msg
		}
	}()
	synctest.Test(t, func(*testing.T) { f() })
	return ""
}

func classifyPanic(r *Run, p interface{}, stack string) {
	msg := fmt.Sprint(p)
	if h, ok := p.(harnessAbort); ok {
		_ = h
		return
	}
	// first frame that is not runtime / testing: whose code blew up? Decided by the SOURCE FILE of
	// that frame (function names of inlined closures carry the caller's package)
	top, file := TopFrame(stack)
	fn := top
	if i := strings.Index(fn, "("); i > 0 {
		fn = fn[:i]
	}
	if IsSUTFile(file) {
		key := SUTFrameKey(top, file)
		r.Violate("sut-panic", key, "panic in SUT code (%s): %s", file, msg)
		r.Log("STACK %s", firstLines(stack, 30))
		return
	}
	r.HarnessError("panic in harness at %s: %s\n%s", fn, msg, firstLines(stack, 40))
}

func firstLines(s string, n int) string {
	parts := strings.SplitN(s, "\n", n+1)
	if len(parts) > n {
		parts = parts[:n]
	}
	return strings.Join(parts, "\n")
}

// Reclassify is for engines that recover panics themselves: it attributes the panic from the stack
// taken INSIDE the recovering deferred function (which still shows the panicking frames) and ends the run.
func Reclassify(r *Run, p interface{}, stack string) {
	classifyPanic(r, p, stack)
	Abort()
}

// TopFrame returns the function line and the file line of the first frame of a Go stack trace that
// belongs neither to the runtime, the testing package nor this kit's own recovery code.
func TopFrame(stack string) (fn, file string) {
	lines := strings.Split(stack, "\n")
	for i := 0; i < len(lines); i++ {
		l := strings.TrimSpace(lines[i])
		if l == "" || strings.HasPrefix(l, "/") || strings.HasPrefix(l, "goroutine ") || strings.HasPrefix(l, "[") || strings.HasPrefix(l, "created by ") {
			continue
		}
		if strings.HasPrefix(l, "runtime") || strings.HasPrefix(l, "panic(") || strings.HasPrefix(l, "testing") || strings.HasPrefix(l, "internal/") ||
			strings.Contains(l, "simkit.ExecPlan") || strings.Contains(l, "simkit.classifyPanic") || strings.Contains(l, "simkit.Reclassify") ||
			(strings.HasPrefix(l, "verifsim/") && strings.Contains(l, ").sut.func")) {
			continue
		}
		f := ""
		if i+1 < len(lines) {
			f = strings.TrimSpace(lines[i+1])
			if j := strings.LastIndex(f, ":"); j > 0 {
				f = f[:j]
			}
		}
		return l, f
	}
	return "", ""
}

// IsSUTFile: repository source, not a hook or a harness shim compiled into a repository package.
func IsSUTFile(file string) bool {
	if !strings.HasPrefix(file, "/repo/weed/") {
		return false
	}
	base := file[strings.LastIndex(file, "/")+1:]
	return !strings.Contains(base, "verif") && !strings.HasPrefix(file, "/repo/weed/verif/")
}

// SUTFrameKey names a panicking repository frame without line numbers.
func SUTFrameKey(fn, file string) string {
	if i := strings.LastIndex(fn, "("); i > 0 {
		fn = fn[:i]
	}
	if i := strings.LastIndex(fn, "/"); i >= 0 {
		fn = fn[i+1:]
	}
	return strings.TrimPrefix(file, "/repo/") + ":" + fn
}

type harnessAbort struct{}

// Abort unwinds the current run (after Violate/HarnessError has been recorded).
func Abort() { panic(harnessAbort{}) }
