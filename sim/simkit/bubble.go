package simkit

import (
	"fmt"
	"math/rand"
	"os"
	"runtime/debug"
	"strings"
	"testing"
	"testing/synctest"
	"time"

	"github.com/chrislusf/seaweedfs/weed/verif"
)

// Prop is one property's generator and executor inside an engine.
type Prop struct {
	ID   string
	Gen  func(tier string, seed uint64, idx int) *Plan // nil plan = enumerated space exhausted
	Exec func(r *Run)
	// Shrink proposes simpler variants of one step (argument shrinking).
	Shrink func(s Step) []Step
	// Refine rewrites a failing plan into a more specific one before
	// minimisation (e.g. "every crash point" -> the one that failed).
	Refine func(p *Plan, res *Result) *Plan
	// Setup/Teardown run outside the bubble, before/after each execution.
	Setup    func(r *Run)
	Teardown func(r *Run)
}

var registry = map[string]*Prop{}

func Register(p *Prop) { registry[p.ID] = p }

// BubbleEpoch is the fake instant at which every bubble starts.
var BubbleEpoch = time.Date(2000, 1, 1, 0, 0, 0, 0, time.UTC)

var runCounter int

// WorkRoot is the directory under which per-run scratch directories live.
func WorkRoot() string {
	if w := os.Getenv("VERIF_WORK"); w != "" {
		return w
	}
	return "/verif/.work"
}

// ExecPlan executes one plan in a fresh synctest bubble and returns its result.
func ExecPlan(t *testing.T, prop *Prop, plan *Plan) *Result {
	runCounter++
	dir := fmt.Sprintf("%s/run/%d/%d", WorkRoot(), os.Getpid(), runCounter)
	_ = os.RemoveAll(dir)
	if err := os.MkdirAll(dir, 0755); err != nil {
		panic(err)
	}
	defer os.RemoveAll(dir)
	r := newRun(plan, t, dir)
	if prop.Setup != nil {
		prop.Setup(r)
	}
	var simNs int64
	outer := runBubble(t, func() {
		defer func() {
			if p := recover(); p != nil {
				classifyPanic(r, p, string(debug.Stack()))
			}
			simNs = int64(time.Since(BubbleEpoch))
		}()
		verif.SetTicking(true)
		verif.YieldFunc = nil
		verif.ProbeFunc = func(name string) { /* replaced by engines that arm probes */ }
		rand.Seed(int64(plan.Seed))
		prop.Exec(r)
	})
	verif.YieldFunc = nil
	verif.ProbeFunc = nil
	if outer != "" {
		r.HarnessError("bubble: %s", outer)
	}
	if prop.Teardown != nil {
		prop.Teardown(r)
	}
	r.Res.SimNs = simNs
	r.finish()
	return &r.Res
}

// runBubble runs f in a synctest bubble. The normal end of a run leaves SUT
// background goroutines blocked (disk-space checker, volume workers); the
// resulting end-of-bubble deadlock panic is expected and swallowed.
func runBubble(t *testing.T, f func()) (problem string) {
	defer func() {
		if p := recover(); p != nil {
			msg := fmt.Sprint(p)
			if strings.Contains(msg, "main bubble goroutine has exited but blocked goroutines remain") {
				return
			}
			problem = msg
		}
	}()
	synctest.Test(t, func(*testing.T) { f() })
	return ""
}

func classifyPanic(r *Run, p interface{}, stack string) {
	msg := fmt.Sprint(p)
	if h, ok := p.(harnessAbort); ok {
		_ = h
		return
	}
	// first frame that is not runtime / testing: whose code blew up?
	top := ""
	lines := strings.Split(stack, "\n")
	for _, l := range lines {
		l = strings.TrimSpace(l)
		if l == "" || strings.HasPrefix(l, "/") || strings.HasPrefix(l, "goroutine ") {
			continue
		}
		if strings.HasPrefix(l, "runtime") || strings.HasPrefix(l, "panic(") || strings.HasPrefix(l, "testing") ||
			strings.Contains(l, "simkit.ExecPlan") || strings.Contains(l, "simkit.classifyPanic") || strings.HasPrefix(l, "internal/") {
			continue
		}
		top = l
		break
	}
	fn := top
	if i := strings.Index(fn, "("); i > 0 && !strings.HasPrefix(fn, "github.com/chrislusf/seaweedfs/weed/") {
		fn = fn[:i]
	}
	if strings.HasPrefix(top, "github.com/chrislusf/seaweedfs/") {
		fn = strings.TrimPrefix(top, "github.com/chrislusf/seaweedfs/")
		if i := strings.LastIndex(fn, "("); i > 0 {
			fn = fn[:i]
		}
		r.Violate("sut-panic", fn, "panic in SUT code: %s", msg)
		r.Log("STACK %s", firstLines(stack, 30))
		return
	}
	r.HarnessError("panic in harness at %s: %s\n%s", fn, msg, firstLines(stack, 40))
}

func firstLines(s string, n int) string {
	parts := strings.SplitN(s, "\n", n+1)
	if len(parts) > n {
		parts = parts[:n]
	}
	return strings.Join(parts, "\n")
}

type harnessAbort struct{}

// Abort unwinds the current run (after Violate/HarnessError has been recorded).
func Abort() { panic(harnessAbort{}) }
