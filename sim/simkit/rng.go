// Package simkit is the core of the deterministic simulator: plans, seeded
// choice streams, the synctest bubble runner, event log, minimiser and the
// worker protocol spoken between the driver and the engine test binaries.
package simkit

// Rand is a SplitMix64 stream. It is the only source of choices in the
// harness: no math/rand, no clock, so a stream is a pure function of its seed.
type Rand struct{ s uint64 }

func NewRand(seed uint64) *Rand { return &Rand{s: seed} }

func (r *Rand) Uint64() uint64 {
	r.s += 0x9e3779b97f4a7c15
	z := r.s
	z = (z ^ (z >> 30)) * 0xbf58476d1ce4e5b9
	z = (z ^ (z >> 27)) * 0x94d049bb133111eb
	return z ^ (z >> 31)
}

// Mix derives an independent seed from a seed and labels.
func Mix(seed uint64, labels ...uint64) uint64 {
	r := Rand{s: seed}
	x := r.Uint64()
	for _, l := range labels {
		r.s = x ^ (l * 0xd6e8feb86659fd93)
		x = r.Uint64()
	}
	return x
}

// HashString folds a string into a 64-bit label (FNV-1a).
func HashString(s string) uint64 {
	h := uint64(14695981039346656037)
	for i := 0; i < len(s); i++ {
		h ^= uint64(s[i])
		h *= 1099511628211
	}
	return h
}

// Intn returns a value in [0,n). n<=0 yields 0.
func (r *Rand) Intn(n int) int {
	if n <= 0 {
		return 0
	}
	return int(r.Uint64() % uint64(n))
}

func (r *Rand) Int63n(n int64) int64 {
	if n <= 0 {
		return 0
	}
	return int64(r.Uint64() % uint64(n))
}

// Range returns a value in [lo,hi].
func (r *Rand) Range(lo, hi int) int {
	if hi <= lo {
		return lo
	}
	return lo + r.Intn(hi-lo+1)
}

// Chance is true with probability num/den.
func (r *Rand) Chance(num, den int) bool { return r.Intn(den) < num }

func (r *Rand) Float64() float64 { return float64(r.Uint64()>>11) / (1 << 53) }

// Pick returns one of the weighted indexes.
func (r *Rand) Pick(weights ...int) int {
	total := 0
	for _, w := range weights {
		total += w
	}
	if total <= 0 {
		return 0
	}
	x := r.Intn(total)
	for i, w := range weights {
		if x < w {
			return i
		}
		x -= w
	}
	return len(weights) - 1
}

// Bytes fills a fresh slice of n bytes from the stream.
func (r *Rand) Bytes(n int) []byte {
	b := make([]byte, n)
	var x uint64
	for i := range b {
		if i%8 == 0 {
			x = r.Uint64()
		}
		b[i] = byte(x)
		x >>= 8
	}
	return b
}

// Shuffle permutes n items (Fisher-Yates).
func (r *Rand) Shuffle(n int, swap func(i, j int)) {
	for i := n - 1; i > 0; i-- {
		j := r.Intn(i + 1)
		swap(i, j)
	}
}
