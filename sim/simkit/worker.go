package simkit

import (
	"bufio"
	"encoding/json"
	"flag"
	"fmt"
	"os"
	"path/filepath"
	"strconv"
	"strings"
	"testing"
	"time"
)

// WorkerMain is the body of every engine's TestWorker. The driver talks to it
// through environment variables:
//
//	VERIF_MODE=batch   VERIF_PROP VERIF_TIER VERIF_SEED VERIF_FROM VERIF_TO VERIF_OUT VERIF_JOURNAL [VERIF_NOMIN=1]
//	VERIF_MODE=replay  VERIF_REPLAY=<file> VERIF_OUT            (execute the plan in the file once)
func WorkerMain(t *testing.T) {
	mode := os.Getenv("VERIF_MODE")
	if mode == "" {
		t.Skip("VERIF_MODE not set: this test binary is a simulation worker driven by /verif/bin/verif")
	}
	quietSUT()
	out, err := os.OpenFile(os.Getenv("VERIF_OUT"), os.O_CREATE|os.O_WRONLY|os.O_APPEND, 0644)
	if err != nil {
		t.Fatalf("VERIF_OUT: %v", err)
	}
	defer out.Close()
	w := bufio.NewWriter(out)
	defer w.Flush()
	emit := func(res *Result) {
		b, _ := json.Marshal(res)
		w.Write(b)
		w.WriteByte('\n')
		w.Flush()
	}
	switch mode {
	case "replay":
		rp, err := ReadReplay(os.Getenv("VERIF_REPLAY"))
		if err != nil {
			t.Fatalf("replay file: %v", err)
		}
		prop := registry[rp.Plan.Property]
		if prop == nil {
			t.Fatalf("property %s not served by this engine", rp.Plan.Property)
		}
		res := ExecPlan(t, prop, rp.Plan)
		if os.Getenv("VERIF_DUMPLOG") != "" {
			for _, l := range res.EventLog {
				fmt.Fprintln(os.Stdout, l)
			}
		}
		emit(res)
	case "batch":
		prop := registry[os.Getenv("VERIF_PROP")]
		if prop == nil {
			t.Fatalf("property %q not served by this engine", os.Getenv("VERIF_PROP"))
		}
		tier := os.Getenv("VERIF_TIER")
		base, _ := strconv.ParseUint(os.Getenv("VERIF_SEED"), 10, 64)
		from, _ := strconv.Atoi(os.Getenv("VERIF_FROM"))
		to, _ := strconv.Atoi(os.Getenv("VERIF_TO"))
		journal, err := os.OpenFile(os.Getenv("VERIF_JOURNAL"), os.O_CREATE|os.O_WRONLY|os.O_APPEND, 0644)
		if err != nil {
			t.Fatalf("VERIF_JOURNAL: %v", err)
		}
		defer journal.Close()
		deadline := time.Time{}
		if s := os.Getenv("VERIF_DEADLINE_UNIX"); s != "" {
			if v, err := strconv.ParseInt(s, 10, 64); err == nil {
				deadline = time.Unix(v, 0)
			}
		}
		samples := 0
		for idx := from; idx < to; idx++ {
			if !deadline.IsZero() && time.Now().After(deadline) {
				fmt.Fprintf(journal, "STOPPED %d deadline\n", idx)
				break
			}
			seed := Mix(base, HashString(prop.ID), uint64(idx))
			plan := prop.Gen(tier, seed, idx)
			if plan == nil {
				fmt.Fprintf(journal, "EXHAUSTED %d\n", idx)
				break
			}
			plan.Property, plan.Seed, plan.Index, plan.Tier = prop.ID, seed, idx, tier
			if pf := os.Getenv("VERIF_PLAN_OUT"); pf != "" {
				_ = WriteJSON(pf, plan)
			}
			fmt.Fprintf(journal, "BEGIN %d %s\n", idx, plan.Hash())
			res := ExecPlan(t, prop, plan)
			if res.Violation != nil {
				handleViolation(t, prop, plan, res)
			}
			if samples < 2 && idx%997 < 3 || res.Violation != nil {
				samples++
				res.Plan = plan
			}
			emit(res)
			fmt.Fprintf(journal, "END %d\n", idx)
		}
	default:
		t.Fatalf("unknown VERIF_MODE %q", mode)
	}
}

// ReplayDir is where violation replay files are written.
func ReplayDir() string {
	if d := os.Getenv("VERIF_REPLAYS"); d != "" {
		return d
	}
	return "/verif/replays"
}

var seenViolations = map[string]bool{}

// skipMinimise: known findings (passed by the driver) and repeats of a
// violation already minimised by this worker are recorded un-minimised.
func skipMinimise(prop string, v *Violation) bool {
	k := v.Class + "\x1f" + v.Key
	if seenViolations[k] {
		return true
	}
	seenViolations[k] = true
	for _, kf := range strings.Split(os.Getenv("VERIF_KNOWN"), "\x1e") {
		if kf == k {
			return true
		}
	}
	return false
}

func handleViolation(t *testing.T, prop *Prop, plan *Plan, res *Result) {
	want := res.Violation
	minPlan, minRes := plan, res
	if skipMinimise(prop.ID, want) {
		res.Counters["unminimised"]++
		return
	}
	if prop.Refine != nil {
		if rp := prop.Refine(plan, res); rp != nil {
			if rr := ExecPlan(t, prop, rp); rr.Violation != nil && rr.Violation.Same(want) {
				minPlan, minRes = rp, rr
			}
		}
	}
	if os.Getenv("VERIF_NOMIN") == "" {
		plan := minPlan
		var execs int
		minPlan, minRes, execs = Minimize(plan, want, func(c *Plan) *Result { return ExecPlan(t, prop, c) }, prop.Shrink, 400, 90*time.Second)
		res.Counters["minimise_execs"] = execs
	}
	_ = os.MkdirAll(ReplayDir(), 0755)
	variant := ""
	if v := os.Getenv("VERIF_BUILD_TAGS"); v != "" {
		variant = "-" + v // builds of the same property share seeds: keep their replay files apart
	}
	path := filepath.Join(ReplayDir(), fmt.Sprintf("%s%s-%d-%d.json", prop.ID, variant, plan.Seed, plan.Index))
	rp := &Replay{Plan: minPlan, Violation: minRes.Violation, LogHash: minRes.LogHash, OriginalSteps: res.Steps,
		OriginalSeed: plan.Seed, BuildTags: os.Getenv("VERIF_BUILD_TAGS"), EventLog: minRes.EventLog}
	if err := WriteJSON(path, rp); err != nil {
		res.HarnessError = "cannot write replay: " + err.Error()
		return
	}
	res.ReplayFile = path
	res.MinSteps = len(minPlan.Steps)
	res.Violation = minRes.Violation
}

// quietSUT sends the SUT's glog output to /dev/null (os.Stderr as a Go
// variable), while runtime panics still reach the real fd 2 captured by the
// driver. glog output is never an oracle input.
var configureGlog func(verbosity int)

func quietSUT() {
	if configureGlog != nil {
		lv, _ := strconv.Atoi(os.Getenv("VERIF_SUTLOG"))
		configureGlog(lv)
	}
	// should glog still open log files, they go to the scratch tree, never to /tmp
	logDir := WorkRoot() + "/glog"
	if os.MkdirAll(logDir, 0755) == nil {
		_ = flag.Set("logdir", logDir)
	}
	if lv := os.Getenv("VERIF_SUTLOG"); lv != "" {
		_ = flag.Set("logtostderr", "true")
		_ = flag.Set("v", lv)
		return
	}
	_ = flag.Set("logtostderr", "true")
	if devnull, err := os.OpenFile(os.DevNull, os.O_WRONLY, 0); err == nil {
		os.Stderr = devnull
	}
}
