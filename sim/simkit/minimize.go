package simkit

import "time"

// Minimize shrinks a failing plan with delta debugging over its steps, then a
// one-by-one pass, then argument shrinking, keeping a candidate only if the
// same (class,key) violation recurs. exec must run a plan in a fresh bubble.
func Minimize(p *Plan, want *Violation, exec func(*Plan) *Result, shrink func(Step) []Step, maxExec int, maxWall time.Duration) (*Plan, *Result, int) {
	start := time.Now()
	best := p.Clone()
	var bestRes *Result
	execs := 0
	try := func(c *Plan) bool {
		if execs >= maxExec || time.Since(start) > maxWall {
			return false
		}
		execs++
		res := exec(c)
		if res.Violation != nil && res.Violation.Same(want) {
			best = c
			bestRes = res
			return true
		}
		return false
	}
	without := func(src *Plan, from, to int) *Plan {
		c := src.Clone()
		c.Steps = append(append([]Step{}, src.Steps[:from]...), src.Steps[to:]...)
		return c
	}
	// ddmin
	n := 2
	for len(best.Steps) >= 2 && execs < maxExec && time.Since(start) <= maxWall {
		size := (len(best.Steps) + n - 1) / n
		reduced := false
		for from := 0; from < len(best.Steps); from += size {
			to := from + size
			if to > len(best.Steps) {
				to = len(best.Steps)
			}
			if try(without(best, from, to)) {
				reduced = true
				if n > 2 {
					n--
				}
				break
			}
		}
		if !reduced {
			if size <= 1 {
				break
			}
			n *= 2
			if n > len(best.Steps) {
				n = len(best.Steps)
			}
		}
	}
	// one-by-one, repeated until fixpoint
	for changed := true; changed; {
		changed = false
		for i := len(best.Steps) - 1; i >= 0; i-- {
			if i < len(best.Steps) && try(without(best, i, i+1)) {
				changed = true
			}
		}
	}
	// argument shrinking
	if shrink != nil {
		for changed := true; changed; {
			changed = false
			for i := 0; i < len(best.Steps); i++ {
				for _, cand := range shrink(best.Steps[i]) {
					c := best.Clone()
					c.Steps[i] = cand
					if try(c) {
						changed = true
						break
					}
				}
			}
		}
	}
	if bestRes == nil {
		bestRes = exec(best)
		execs++
	}
	return best, bestRes, execs
}
