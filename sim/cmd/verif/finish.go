package main

import (
	"encoding/json"
	"fmt"
	"os"
	"path/filepath"
	"sort"
	"strings"
	"time"

	"verifsim/simkit"
)

func extraOverlay(work string) (map[string]string, error) {
	return extraOverlayFiles(work)
}

type violGroup struct {
	v      *simkit.Violation
	first  *simkit.Result
	count  int
	known  *knownFinding
	status string
}

func finishCheck(id string, pc *propCfg, tier string, seed uint64, a *agg, start time.Time, buildS float64, skippedRuns, plannedRuns int, bins map[string]string) {
	known := loadKnown()
	res := a.results
	sort.Slice(res, func(i, j int) bool {
		if res[i].Index != res[j].Index {
			return res[i].Index < res[j].Index
		}
		return res[i].Seed < res[j].Seed
	})
	faults, probes, yields, counters := map[string]int{}, map[string]int{}, map[string]int{}, map[string]int{}
	distinct := map[string]bool{}
	nontrivial, faultCfg, inconclusive := 0, 0, 0
	var simNs int64
	var samples []interface{}
	groups := map[string]*violGroup{}
	var order []string
	harnessErrs := append([]string{}, a.harnessErrs...)
	// A worker death that does not recur cannot be attributed (the run itself completes and is judged
	// normally). One or two in a check are reported as warnings; more than that is harness trouble.
	for _, t := range a.transient {
		fmt.Printf("WARNING %s\n", t)
	}
	if len(a.transient) > 2 {
		harnessErrs = append(harnessErrs, a.transient...)
	}
	for _, r := range res {
		for k, v := range r.Faults {
			faults[k] += v
		}
		for k, v := range r.Probes {
			probes[k] += v
		}
		for k, v := range r.Yields {
			yields[k] += v
		}
		for k, v := range r.Counters {
			counters[k] += v
		}
		simNs += r.SimNs
		if r.FaultConfig {
			faultCfg++
		}
		if r.HarnessError != "" {
			harnessErrs = append(harnessErrs, fmt.Sprintf("run %d seed %d: %s", r.Index, r.Seed, r.HarnessError))
			continue
		}
		if r.Inconclusive != "" {
			inconclusive++
		}
		if r.NonTrivial {
			nontrivial++
			distinct[r.AbstractHash] = true
		}
		if r.Plan != nil && len(samples) < 3 && r.Violation == nil {
			samples = append(samples, map[string]interface{}{"index": r.Index, "seed": r.Seed, "plan": compactPlan(r.Plan), "events": r.Events, "abstract_trace_hash": r.AbstractHash})
		}
		if r.Violation != nil {
			k := r.Violation.Class + "\x00" + r.Violation.Key
			g := groups[k]
			if g == nil {
				g = &violGroup{v: r.Violation, first: r, known: known.match(id, r.Violation)}
				groups[k] = g
				order = append(order, k)
			}
			g.count++
			if g.first.ReplayFile == "" && r.ReplayFile != "" {
				g.first = r
			}
		}
	}
	// confirm each new violation group by replaying its file in a fresh process
	newViolations := 0
	var lines []string
	var violSummaries []interface{}
	for _, k := range order {
		g := groups[k]
		sum := map[string]interface{}{"class": g.v.Class, "key": g.v.Key, "count": g.count, "first_msg": g.v.Msg, "replay": g.first.ReplayFile, "min_steps": g.first.MinSteps, "orig_steps": g.first.Steps}
		if g.known != nil {
			lines = append(lines, fmt.Sprintf("KNOWN-FINDING: property=%s class=%s key=%s (%d runs) %s", id, g.v.Class, g.v.Key, g.count, g.known.Description))
			sum["status"] = "known-finding"
			violSummaries = append(violSummaries, sum)
			continue
		}
		if g.first.ReplayFile == "" {
			harnessErrs = append(harnessErrs, fmt.Sprintf("violation %s/%s without replay file", g.v.Class, g.v.Key))
			continue
		}
		variant := ""
		if rp, err := simkit.ReadReplay(g.first.ReplayFile); err == nil {
			variant = rp.BuildTags
		}
		rr, problem := confirmReplay(bins[variant], variant, g.first.ReplayFile)
		if problem != "" || rr == nil {
			harnessErrs = append(harnessErrs, fmt.Sprintf("replay of %s failed to run: %s", g.first.ReplayFile, problem))
			continue
		}
		if rr.Violation == nil || !rr.Violation.Same(g.v) {
			harnessErrs = append(harnessErrs, fmt.Sprintf("violation %s/%s did not reproduce from %s in a fresh process (got %v) — nondeterminism in the harness, not reported as a violation", g.v.Class, g.v.Key, g.first.ReplayFile, rr.Violation))
			continue
		}
		if rp, err := simkit.ReadReplay(g.first.ReplayFile); err == nil && rp.LogHash != rr.LogHash {
			sum["replay_log_hash_mismatch"] = true
		}
		newViolations++
		sum["status"] = "violation"
		violSummaries = append(violSummaries, sum)
		lines = append(lines, fmt.Sprintf("VIOLATION property=%s replay=%s", id, g.first.ReplayFile))
		lines = append(lines, fmt.Sprintf("  class=%s key=%s runs=%d steps=%d->%d: %s", g.v.Class, g.v.Key, g.count, g.first.Steps, g.first.MinSteps, g.v.Msg))
	}
	wall := time.Since(start).Seconds()
	evals := 0
	for _, r := range res {
		if r.HarnessError == "" {
			evals++
		}
	}
	unreached := []string{}
	for _, want := range pc.wantProbes() {
		if probes[want] == 0 && faults[want] == 0 && yields[want] == 0 && counters[want] == 0 {
			unreached = append(unreached, want)
		}
	}
	runS := wall - buildS
	if runS < 0.001 {
		runS = 0.001
	}
	if len(samples) == 0 {
		for _, r := range res {
			if r.Plan != nil && len(samples) < 2 {
				samples = append(samples, map[string]interface{}{"index": r.Index, "seed": r.Seed, "plan": compactPlan(r.Plan)})
			}
		}
	}
	cov := map[string]interface{}{
		"evaluations":                  evals,
		"distinct_nontrivial":          len(distinct),
		"nontrivial_runs":              nontrivial,
		"rule":                         pc.Rule,
		"samples":                      samples,
		"exhaustive":                   false,
		"runs_planned":                 plannedRuns,
		"runs_skipped_by_wall_budget":  skippedRuns,
		"runs_per_hour":                int(float64(evals) / runS * 3600),
		"seeds":                        evals,
		"simulated_time_s":             float64(simNs) / 1e9,
		"faults_fired":                 faults,
		"yields_parked":                yields,
		"probes":                       probes,
		"counters":                     counters,
		"unreached_probes":             unreached,
		"configs":                      map[string]int{"fault": faultCfg, "fault_free": evals - faultCfg},
		"components":                   map[string]interface{}{"real": pc.Real, "stub": pc.Stub},
		"inconclusive":                 inconclusive,
		"violation_groups":             violSummaries,
		"build_s":                      buildS,
		"worker_deaths_not_reproduced": len(a.transient),
	}
	ev := map[string]interface{}{
		"property_id": id, "tier": tier, "seed": int64(seed & 0x7fffffffffffffff), "level": "exploration",
		"coverage": cov, "assumptions": pc.Assume, "wall_s": wall, "violations": newViolations,
	}
	evDir := filepath.Join(verifDir, "evidence")
	if os.Getenv("VERIF_MUTANT_OVERLAY") != "" {
		evDir = filepath.Join(workDir(), "evidence") // sensitivity runs never touch the committed evidence
	}
	if d := os.Getenv("VERIF_EVIDENCE_DIR"); d != "" {
		evDir = d // background sweeps keep away from the committed evidence
	}
	os.MkdirAll(evDir, 0755)
	b, _ := json.MarshalIndent(ev, "", " ")
	if err := os.WriteFile(filepath.Join(evDir, id+".json"), append(b, '\n'), 0644); err != nil {
		die2("write evidence: %v", err)
	}
	fmt.Printf("%s tier=%s seed=%d runs=%d nontrivial=%d distinct=%d wall=%.1fs (build %.1fs) faults=%v counters=%v\n", id, tier, seed, evals, nontrivial, len(distinct), wall, buildS, faults, counters)
	for _, l := range lines {
		fmt.Println(l)
	}
	if len(harnessErrs) > 0 {
		for i, e := range harnessErrs {
			if i >= 8 {
				fmt.Printf("... %d more harness errors\n", len(harnessErrs)-i)
				break
			}
			fmt.Printf("HARNESS-ERROR %s\n", e)
		}
	}
	os.RemoveAll(scratchRoot())
	if newViolations > 0 {
		os.Exit(1)
	}
	if len(harnessErrs) > 0 {
		os.Exit(2)
	}
	if evals == 0 {
		die2("no run completed")
	}
	if len(distinct) < 2 {
		die2("fewer than 2 distinct non-trivial runs: the check explored nothing")
	}
	os.Exit(0)
}

func (pc *propCfg) wantProbes() []string { return pc.WantReach }

// compactPlan renders a plan in a short readable form for the evidence samples.
func compactPlan(p *simkit.Plan) interface{} {
	var steps []string
	for _, s := range p.Steps {
		var parts []string
		keys := make([]string, 0, len(s.A))
		for k := range s.A {
			keys = append(keys, k)
		}
		sort.Strings(keys)
		for _, k := range keys {
			if s.A[k] != 0 {
				parts = append(parts, fmt.Sprintf("%s=%d", k, s.A[k]))
			}
		}
		skeys := make([]string, 0, len(s.S))
		for k := range s.S {
			skeys = append(skeys, k)
		}
		sort.Strings(skeys)
		for _, k := range skeys {
			parts = append(parts, fmt.Sprintf("%s=%s", k, s.S[k]))
		}
		steps = append(steps, s.Kind+"("+strings.Join(parts, ",")+")")
		if len(steps) >= 60 {
			steps = append(steps, fmt.Sprintf("... %d more", len(p.Steps)-60))
			break
		}
	}
	return map[string]interface{}{"cfg": p.Cfg, "cfgs": p.CfgS, "steps": steps}
}
