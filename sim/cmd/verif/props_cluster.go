package main

var topoReal = []string{"weed/server MasterServer.SendHeartbeat (gRPC handler, called over an in-memory stream)", "weed/topology (Topology, DataCenter/Rack/DataNode/Disk, VolumeLayout, EC shard registry, refresh loop)", "weed/sequence memory sequencer"}

func init() {
	props["C11"] = &propCfg{Engine: "cluster", Variants: []string{""}, Quick: 1600, Thorough: 120000, Chunk: 100, QuickWall: 100, ThorWall: 1500,
		Rule:  "each run = 2-5 modelled volume servers (each a goroutine inside the real SendHeartbeat handler on an in-memory stream) over 2 data centers x 3 racks, volumes with replication 000/001/010, TTL, disk type and collection variants; the plan sends full and incremental heartbeats reflecting or lagging the servers' actual state, read-only flips, sizes around the limit, disconnects; odd runs add faults: duplicated messages, stale full heartbeats, stale incremental deletions, a reconnect that overtakes the old stream's unregister; after every message the master runs to quiescence and the writable set / locations of every layout and Topology.Lookup are compared with the reference recomputed from the registered state; non-trivial = at least one fault or disconnect; distinct = distinct abstract traces",
		Real:  topoReal, Stub: []string{"volume servers are modelled heartbeat sources", "raft: RaftStub (single leader)", "gRPC transport: the handler is called directly with an in-memory stream"},
		Assume: []string{"'offered for writes only if' is checked as stated (one direction); the dead-node sweep by LastSeen is driven only by explicit clock steps"}}
	props["C12"] = &propCfg{Engine: "cluster", Variants: []string{""}, Quick: 1600, Thorough: 120000, Chunk: 100, QuickWall: 100, ThorWall: 1500,
		Rule:  "same runs as C11 plus EC-shard full/incremental heartbeats (several EC volumes per server changing in one message), max-volume changes and remote volumes; after every message, for every disk/server/rack/data center/cluster node the volume, remote, EC-shard and max counters equal the recount from the registered state beneath, and what the master lists per server equals what is registered; non-trivial = at least one fault or disconnect; distinct = distinct abstract traces",
		Real:  topoReal, Stub: []string{"volume servers are modelled heartbeat sources", "raft: RaftStub (single leader)", "gRPC transport: the handler is called directly with an in-memory stream"},
		Assume: []string{"activeVolumeCount is not compared (its definition depends on the asynchronous full-volume sweep)"}}
	props["C13"] = &propCfg{Engine: "cluster", Variants: []string{""}, Quick: 2400, Thorough: 160000, Chunk: 100, QuickWall: 100, ThorWall: 1500,
		Rule:  "runs rotate over four modes: the real memory, snowflake and etcd sequencers (etcd over an in-memory compare-and-swap KeysAPI shared by 1-2 sequencer instances, with injected Get/Set errors, CAS conflicts and instance restarts) driven by scheduler-ordered NextFileId(count)/SetMax calls and clock moves; and a system mode with 1-2 real masters in one raft-stub group, modelled volume servers reporting the largest key in use, assigns with counts 0/1/2-10/400-1100 through the real Assign handler, clients writing assigned keys, leader hand-overs with assigned-but-unwritten keys, NextVolumeId; oracle over the recorded history: key ranges per volume pairwise disjoint, no assigned key at or below a key reported in use or already written, volume ids unique; non-trivial = a fault, leader change or clock move; distinct = distinct abstract traces",
		Real:  []string{"weed/sequence MemorySequencer, SnowflakeSequencer, EtcdSequencer", "weed/server MasterServer.Assign and SendHeartbeat handlers", "weed/topology PickForWrite, NextVolumeId, MaxVolumeIdCommand"}, Stub: []string{"etcd: in-memory KeysAPI with compare-and-swap and injectable errors", "raft: RaftStub group (one leader at a time, command applied on every member)", "volume servers: modelled heartbeat sources"},
		Assume: []string{"the stub raft group cannot produce two leaders; real raft's own safety is out of scope", "interleaving granularity is one handler call (each sequencer call is mutex-protected)"}}
}

func init() {
	props["SMOKE"] = &propCfg{Engine: "cluster", Variants: []string{""}, Quick: 4, Thorough: 4, Chunk: 2, QuickWall: 100, ThorWall: 100, Rule: "smoke", Real: []string{}, Stub: []string{}}
}

var clusterReal = []string{"weed/server MasterServer (router, gRPC service, Assign, volume growth, vacuum) and VolumeServer (store, HTTP handlers, gRPC service, heartbeat loop)", "weed/topology", "weed/storage", "weed/operation client library", "gRPC 1.29 client and server stacks over in-memory connections", "net/http handlers called in-process through the util.Transport / operation.HttpClient seams"}
var clusterStub = []string{"TCP: in-memory bufconn listeners and in-process HTTP round trips", "raft: RaftStub", "partitions are per destination, not per pair"}

func init() {
	props["C14"] = &propCfg{Engine: "cluster", Variants: []string{""}, Quick: 900, Thorough: 30000, Chunk: 20, QuickWall: 110, ThorWall: 1500,
		Rule:  "each run = real master + 1-3 real volume servers with one replicated volume holding garbage above or below the threshold; the master's own Topology.Vacuum runs while every VacuumVolume{Check,Compact,Commit,Cleanup} RPC parks on the simulated network; per (replica, phase) the plan chooses ok / request dropped / response lost / delayed past the phase time-out, and the order in which parked messages are released; client uploads are attempted during and after the round; oracle: commit only to replicas whose compaction was acknowledged, every key reads identically from every replica afterwards and live blobs are intact, the volume is writable three heartbeats after the round exactly if it was before; two runs in three inject faults; non-trivial = a round ran; distinct = distinct abstract traces",
		Real:  clusterReal, Stub: clusterStub,
		Assume: []string{"one volume per layout (growth count 1), so the layout's map iteration order cannot matter", "writability is compared after three heartbeat pulses (bounded liveness), not at the instant the round returns"}}
}

func init() {
	props["C40"] = &propCfg{Engine: "cluster", Variants: []string{""}, Quick: 1600, Thorough: 24000, Chunk: 20, QuickWall: 110, ThorWall: 1500,
		Rule:  "each run = real master + 2-3 real volume servers, one volume with replication 001/010/002/011/020; 3-10 uploads (text that the client library gzips, incompressible bytes, already-compressed names, no name/mime, json; pairs; ttl; client ts; manifest flag), overwrites and deletes sent to the primary with the real client library; every HTTP POST/DELETE parks on the simulated network and the plan picks the release order and, for replica requests in odd runs, drop / lost response / delay per message (the library's retries run on the fake clock); after every operation reported successful each replica is asked over HTTP (status, headers, decoded body) and over gRPC (needle cookie, stored last-modified, checksum, ttl) and all answers must be equal; non-trivial = a replica fault fired or two messages were pending at once; distinct = distinct abstract traces",
		Real:  clusterReal, Stub: clusterStub,
		Assume: []string{"nothing is demanded for operations the client saw fail", "one bubble clock: all servers stamp with the same clock"}}
}

func init() {
	props["C34"] = &propCfg{Engine: "cluster", Variants: []string{""}, Quick: 1200, Thorough: 40000, Chunk: 25, QuickWall: 110, ThorWall: 1500,
		Rule:  "each run = real master + one real volume server with a write signing key (expiry 2-60 s) and, in half the runs, a read key; the master issues tokens in Assign; uploads, deletes and reads are sent after a plan-chosen fake delay straddling the expiry (E-2..E+3 s and random), with the master's token, a fresh token, a token for another file, the sub-file suffix form, no token, a token signed with another key, alg=none, or garbage; oracle: accepted iff unexpired at the server's check (the expiry second itself may go either way), signed with the configured key and naming the target file; a rejected request leaves the stored blob unchanged, an accepted one takes effect; non-trivial = the fake clock moved; distinct = distinct abstract traces",
		Real:  clusterReal, Stub: clusterStub,
		Assume: []string{"token-shape enumeration (algorithms, malformed tokens) is input generation and only sampled", "one bubble clock: no skew between master and volume server; skew is not emulated"}}
}

func init() {
	props["C35"] = &propCfg{Engine: "cluster", Variants: []string{""}, Quick: 4000, Thorough: 400000, Chunk: 200, QuickWall: 100, ThorWall: 1500,
		Rule:  "each run = 8-40 steps over the real client location cache (wdclient vidMap inside a never-connected MasterClient): add / remove notifications for 1-3 volumes on 2-5 servers in mixed data centers, full lookups compared with the reference set (each location once, same-data-center first, not-found when empty), and 2-3 reader actors whose lookup is split into 'obtain the location list' and 'consume it' steps so that updates land in between; non-trivial = at least one split read; distinct = distinct abstract traces",
		Real:  []string{"weed/wdclient vidMap (addLocation, deleteLocation, GetLocations, LookupVolumeServerUrl) via MasterClient"}, Stub: []string{"the master notification stream: notifications are applied by the plan through thin wrappers"},
		Assume: []string{"interleaving granularity is one call; a reader holds the slice the API returned", "the data-race clause is not decided", "the stream reconnect variant (real master) is not part of this check"}}
}

func init() {
	props["C10"] = &propCfg{Engine: "cluster", Variants: []string{""}, Quick: 1500, Thorough: 100000, Chunk: 50, QuickWall: 100, ThorWall: 1500,
		Rule:  "each run = a generated topology of 1-3 data centers x 1-3 racks x 1-4 modelled volume servers (max 1-4 slots, 0..max+1 used, optional ssd disks, EC shards, remote volumes) registered with the real master through heartbeats, then 3-10 growth requests for replication strings 000..222 with and without data center / rack / server preference (some unsatisfiable), interleaved with heartbeats that change the free slots; the AllocateVolume RPCs the master really issues are recorded at fake volume-server gRPC endpoints on the simulated network; oracle: the servers allocated for one new volume id are 1+x+y+z distinct servers, each with a free slot of the requested disk type in the registered state, z+1 in one rack, y in other racks of the same data center, x in other data centers, preferences honoured; when a brute-force search finds no valid set, nothing may be allocated; non-trivial = a heartbeat changed capacity between requests; distinct = distinct abstract traces",
		Real:  []string{"weed/topology VolumeGrowth (GrowByCountAndType, findEmptySlotsForOneVolume, PickNodesByWeight, ReserveOneVolume, AllocateVolume), topology registration", "weed/server MasterServer.SendHeartbeat", "gRPC client/server stacks over in-memory connections"}, Stub: []string{"volume servers: modelled heartbeat sources with a recording AllocateVolume endpoint", "raft: RaftStub"},
		Assume: []string{"a server's free slots for a disk type = max - (volumes - remote volumes) - (EC shards/10 + 1 when it holds EC shards): the figure the master itself publishes (DiskUsageCounts.FreeSpace, status page)", "partial claim: the placement rule over arbitrary topologies is a function of (topology, RNG draws); the simulator owns the RNG (seeded per run) and the interleaving with heartbeats", "only 'no invalid or partial placement' is checked, not that growth succeeds whenever a valid set exists", "allocation RPCs always succeed in this check"}}
}

func init() {
	props["C37"] = &propCfg{Engine: "cluster", Variants: []string{""}, Quick: 900, Thorough: 40000, Chunk: 25, QuickWall: 110, ThorWall: 1500,
		Rule:  "each run = a source volume on a real volume server receiving uploads, overwrites and deletes over HTTP (keys first written in ascending or arbitrary order) and compaction+commit through the vacuum RPCs, interleaved with backup runs that follow command/backup.go (sync status, local compaction when the source revision moved, discard when the local copy is longer, IncrementalBackup) on a local volume pulling through the real VolumeIncrementalCopy stream on the simulated network; the stream's receive side is gated so that source writes are released while the copy stream is open; after every backup run that had no write during it, every key read from the backup equals the source's live content; non-trivial = a source compaction or a write during an open stream; distinct = distinct abstract traces",
		Real:  clusterReal, Stub: append([]string{"the backup command's steps are reproduced by the harness (runBackup itself reads command-line flags)"}, clusterStub...),
		Assume: []string{"stream faults are not injected (the statement promises no fault tolerance there)", "a backup run during which the source was written is only required to converge with the next run"}}
}

func init() {
	props["C25"] = &propCfg{Engine: "cluster", Variants: []string{""}, Quick: 450, Thorough: 12000, Chunk: 10, QuickWall: 160, ThorWall: 1500,
		Rule:  "each run = real master + volume server + filer (HTTP handlers, leveldb2 store) on the simulated network; 3-9 PUT / multipart POST / append requests on three paths with bodies around the inline limit (0/64/1024) and the 1 MB chunk boundary (1 MB -1/0/+1, 2 MB), each followed by a GET through the filer; odd runs inject: a request body that fails after k bytes (first bytes, on the chunk boundary, last byte, random), dropped Assign RPCs, dropped or response-lost chunk uploads (retries on the fake clock); oracle: success => GET returns exactly the body (append: old||new); a request whose body failed is never reported successful; after a reported failure the file is unchanged/absent (or, without a body failure, completely written), never truncated; non-trivial = a fault fired; distinct = distinct abstract traces",
		Real:  append([]string{"weed/server FilerServer (autochunk write handlers, read handler, gRPC service), weed/filer core on leveldb2"}, clusterReal...), Stub: clusterStub,
		Assume: []string{"chunk sizes are whole megabytes in this version (maxMB); only 1 MB chunks are used", "one volume server, replication 000"}}
}
