package main

var topoReal = []string{"weed/server MasterServer.SendHeartbeat (gRPC handler, called over an in-memory stream)", "weed/topology (Topology, DataCenter/Rack/DataNode/Disk, VolumeLayout, EC shard registry, refresh loop)", "weed/sequence memory sequencer"}

func init() {
	props["C11"] = &propCfg{Engine: "cluster", Variants: []string{""}, Quick: 1600, Thorough: 120000, Chunk: 100, QuickWall: 100, ThorWall: 1500,
		Rule:  "each run = 2-5 modelled volume servers (each a goroutine inside the real SendHeartbeat handler on an in-memory stream) over 2 data centers x 3 racks, volumes with replication 000/001/010, TTL, disk type and collection variants; the plan sends full and incremental heartbeats reflecting or lagging the servers' actual state, read-only flips, sizes around the limit, disconnects; odd runs add faults: duplicated messages, stale full heartbeats, stale incremental deletions, a reconnect that overtakes the old stream's unregister; after every message the master runs to quiescence and the writable set / locations of every layout and Topology.Lookup are compared with the reference recomputed from the registered state; non-trivial = at least one fault or disconnect; distinct = distinct abstract traces",
		Real:  topoReal, Stub: []string{"volume servers are modelled heartbeat sources", "raft: RaftStub (single leader)", "gRPC transport: the handler is called directly with an in-memory stream"},
		Assume: []string{"'offered for writes only if' is checked as stated (one direction); the dead-node sweep by LastSeen is driven only by explicit clock steps"}}
	props["C12"] = &propCfg{Engine: "cluster", Variants: []string{""}, Quick: 1600, Thorough: 120000, Chunk: 100, QuickWall: 100, ThorWall: 1500,
		Rule:  "same runs as C11 plus EC-shard full/incremental heartbeats (several EC volumes per server changing in one message), max-volume changes and remote volumes; after every message, for every disk/server/rack/data center/cluster node the volume, remote, EC-shard and max counters equal the recount from the registered state beneath, and what the master lists per server equals what is registered; non-trivial = at least one fault or disconnect; distinct = distinct abstract traces",
		Real:  topoReal, Stub: []string{"volume servers are modelled heartbeat sources", "raft: RaftStub (single leader)", "gRPC transport: the handler is called directly with an in-memory stream"},
		Assume: []string{"activeVolumeCount is not compared (its definition depends on the asynchronous full-volume sweep)"}}
}
