package main

import "syscall"

var sigQuit = syscall.SIGQUIT
