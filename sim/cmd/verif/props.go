package main

// propCfg says how a property is checked: which engine binary serves it,
// which build variants it needs, and how much work each tier does.
type propCfg struct {
	Engine           string
	Variants         []string // extra build tags per variant ("" = default build)
	Quick            int      // runs per variant, quick tier
	Thorough         int      // runs per variant, thorough tier
	Chunk            int      // runs per worker process (recycled afterwards: leaked SUT goroutines die with it)
	QuickWall        int      // seconds: stop issuing new chunks after this (work done so far is reported)
	ThorWall         int
	Rule             string
	Real             []string
	Stub             []string
	Assume           []string
	WantReach        []string // probes / faults / counters that a healthy batch must hit at least once
	CrashIsViolation bool     // a SUT panic that kills the worker process violates this property
}

var volReal = []string{"weed/storage Store, DiskLocation, Volume (load, write, read, delete, CheckAndFixVolumeDataIntegrity)", "weed/storage/needle (record encode/decode, CRC)", "weed/storage/needle_map + memory/LevelDB/sorted-file needle maps", "goleveldb", "real files on a per-run directory"}

var props = map[string]*propCfg{
	"C03": {Engine: "volsim", Variants: []string{""}, Quick: 1000, Thorough: 24000, Chunk: 40, QuickWall: 100, ThorWall: 1500,
		Rule: "each run = a generated history of uploads/overwrites/deletes on a real Volume followed by crash points (operation k in flight, byte offset within k's data append or within k's index append; every point for short histories, sampled for longer ones), each materialised by truncating copies of .dat/.idx and reopening through a fresh Store; a run is non-trivial if at least one crash point was explored; distinct = distinct abstract traces (sequence of op kinds and crash situations, payloads erased)",
		Real: volReal, Stub: []string{"crash = file truncation to a write-order-respecting prefix (no reordered write-back)", "LevelDB directory state at the crash = snapshot after the last complete operation, or lost"},
		Assume: []string{"crash states are prefixes of the append-only files as the property states", "empty-payload blobs: see known_findings.json"}, CrashIsViolation: true},
	"C01": {Engine: "volsim", Variants: []string{""}, Quick: 1600, Thorough: 120000, Chunk: 100, QuickWall: 100, ThorWall: 1500,
		Rule: "each run = a generated history of uploads (incl. identical rewrites, empty payloads in a fraction of runs, batched fsync path), deletes, reads, read-only toggles and clean restarts on a real Store/Volume, checked step by step against a reference map; a quarter of the runs upload with another cookie than the stored one and send GET and DELETE requests presenting another cookie through the real volume-server HTTP handler (privateStoreHandler on an httptest recorder; the GET must not return the data, the DELETE must be refused and remove nothing); every third run arms data-file write faults (EIO, ENOSPC, short write, failed sync, failed truncate) inside operations; non-trivial = at least one overwrite, delete, restart or fault; distinct = distinct abstract traces (op kinds and outcomes, payloads erased)",
		Real: volReal, Stub: []string{"data-file faults injected through a wrapper around Volume.DataBackend (existing interface seam)"},
		Assume: []string{"the volume server around the Store is built by an overlay-added constructor that sets only the fields the handlers read (no white list, no signing key, local reads only)", "a faulted operation may fail or have taken effect; un-faulted operations must match the model exactly"}},
	"C02": {Engine: "volsim", Variants: []string{""}, Quick: 1200, Thorough: 60000, Chunk: 100, QuickWall: 100, ThorWall: 1200,
		Rule: "each run writes blobs (first 512 runs walk boundary lengths x name/mime lengths x flags; versions 2 and 3), scans the data file record by record against the harness's append log (order, count, 8-byte alignment), then flips single bits of stored data bytes and reads; non-trivial = at least one byte flip or scan; distinct = distinct abstract traces",
		Real: volReal, Stub: []string{"silent corruption = one flipped bit in the data region of a stored record"},
		Assume: []string{"encode/decode equality over all flag and length combinations is a pure function and only sampled here", "only bytes of the data region are covered by the record checksum; metadata bytes are not flipped"}},
	"C04": {Engine: "volsim", Variants: []string{""}, Quick: 1200, Thorough: 80000, Chunk: 60, QuickWall: 120, ThorWall: 1500,
		Rule: "each run = 1-3 compaction rounds on a real volume with a twin volume that receives the same operations and is never compacted; Compact/Compact2 run in their own goroutine parked by the scheduler at yield points (after the index snapshot, at each visited needle, before the commit lock) while uploads/deletes/clock moves are released; after every commit all keys are read on both volumes at the same fake instant; non-trivial = at least one compaction started; distinct = distinct abstract traces",
		Real: append(volReal, "Volume.Compact, Compact2, CommitCompact, makeupDiff, cleanupCompact"), Stub: []string{},
		Assume: []string{"interleavings are at the granularity of the H2 yield points (lock-free places) and operation boundaries"}},
	"C05": {Engine: "volsim", Variants: []string{"", "5BytesOffset"}, Quick: 800, Thorough: 40000, Chunk: 100, QuickWall: 100, ThorWall: 1200,
		Rule: "each run = uploads/overwrites/deletes/reads through the volume over adversarial key orders (ascending, descending, far apart across 32-bit sections, random with repeats; occasionally hundreds of keys) with clean restarts; lookups compared with a reference map, FileCount/DeletedCount/ContentSize/DeletedSize/MaxFileKey compared before and after each reload; memory and LevelDB maps; built twice (default and 5BytesOffset); non-trivial = at least one restart; distinct = distinct abstract traces",
		Real: volReal, Stub: []string{}, Assume: []string{"offsets beyond 32 bits are not produced (would need > 32 GiB sparse files)"}},
	"C38": {Engine: "volsim", Variants: []string{""}, Quick: 2400, Thorough: 160000, Chunk: 100, QuickWall: 100, ThorWall: 1500,
		Rule: "each run = 2-4 client goroutines over 1-3 keys issuing uploads (immediate and batched fsync path), deletes and reads, one released at a time by the plan; the volume's async write worker is parked by the scheduler after it received the first request of a batch while 0-3 more requests are enqueued (H2 yield), so batch composition is a plan choice; every fourth run injects a failing data-file sync on a batch (rollback path); uploads presenting another cookie (refused when the key holds a blob: a request that fails inside a batch); SLOW-DISK steps: the data file's stat parks its caller inside the volume's critical section (the client of an immediate operation, or the batch worker) while a second operation is issued, then both are released and what they left is read back at once; the bytes returned by a read are held and re-checked after the next read; deletes report whether they removed something; unique values; invoke/return stamped with the global event sequence; final reads of every key join the history; porcupine against a per-key register, each key on its own: the part of its history before its first write in a failed batch strictly (a read error there is a violation), the whole history with the recorded finding's key (a failed upload/delete may or may not have applied); non-trivial = at least two operations in flight at once; distinct = distinct abstract traces",
		Real: volReal, Stub: []string{"sync failure injected through the Volume.DataBackend seam"},
		Assume: []string{"concurrency is explored at the granularity of whole operations plus the composition of async batches; data races at memory-model level are not decided (no race detector: that is runtime monitoring, not this technique)", "porcupine time-outs (Unknown) are counted as inconclusive, never reported"}},
	"C09": {Engine: "volsim", Variants: []string{""}, Quick: 1500, Thorough: 100000, Chunk: 100, QuickWall: 100, ThorWall: 1500,
		Rule: "each run = uploads with TTLs over all units (blob TTL equal to / different from / without a volume TTL, client-supplied timestamps), fake-clock jumps landing around expiry instants, reads, both compaction algorithms and heartbeat-driven volume expiry at chosen instants, on a real Store; model: readable iff now < append time + TTL; non-trivial = at least one clock move; distinct = distinct abstract traces",
		Real: append(volReal, "Store.CollectHeartbeat (volume expiry)", "compaction"), Stub: []string{"clock = synctest fake clock + tick overlay"},
		Assume: []string{"reads are placed >= 1 ms away from expiry instants", "the filer-side clause (volume TTL >= entry TTL) is checked by the cluster engine"}},
}
