package main

// propCfg says how a property is checked: which engine binary serves it,
// which build variants it needs, and how much work each tier does.
type propCfg struct {
	Engine           string
	Variants         []string // extra build tags per variant ("" = default build)
	Quick            int      // runs per variant, quick tier
	Thorough         int      // runs per variant, thorough tier
	Chunk            int      // runs per worker process (recycled afterwards: leaked SUT goroutines die with it)
	QuickWall        int      // seconds: stop issuing new chunks after this (work done so far is reported)
	ThorWall         int
	Rule             string
	Real             []string
	Stub             []string
	Assume           []string
	WantReach        []string // probes / faults / counters that a healthy batch must hit at least once
	CrashIsViolation bool     // a SUT panic that kills the worker process violates this property
}

var volReal = []string{"weed/storage Store, DiskLocation, Volume (load, write, read, delete, CheckAndFixVolumeDataIntegrity)", "weed/storage/needle (record encode/decode, CRC)", "weed/storage/needle_map + memory/LevelDB/sorted-file needle maps", "goleveldb", "real files on a per-run directory"}

var props = map[string]*propCfg{
	"C03": {Engine: "volsim", Variants: []string{""}, Quick: 640, Thorough: 24000, Chunk: 40, QuickWall: 100, ThorWall: 1500,
		Rule: "each run = a generated history of uploads/overwrites/deletes on a real Volume followed by crash points (operation k in flight, byte offset within k's data append or within k's index append; every point for short histories, sampled for longer ones), each materialised by truncating copies of .dat/.idx and reopening through a fresh Store; a run is non-trivial if at least one crash point was explored; distinct = distinct abstract traces (sequence of op kinds and crash situations, payloads erased)",
		Real: volReal, Stub: []string{"crash = file truncation to a write-order-respecting prefix (no reordered write-back)", "LevelDB directory state at the crash = snapshot after the last complete operation, or lost"},
		Assume: []string{"crash states are prefixes of the append-only files as the property states", "empty-payload blobs: see known_findings.json"}, CrashIsViolation: true},
}
