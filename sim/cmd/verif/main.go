// Command verif is the driver of the deterministic-simulation checks:
//
//	verif check  <Cxx> [--tier quick|thorough] [--runs N] [--workers N]
//	verif replay <file>
//	verif build  [engine...]          (used by setup_cmd to warm the build cache)
//
// Exit codes: 0 property held on everything explored (known findings are
// listed); 1 violation (a line "VIOLATION property=<id> replay=<path>");
// 2 build / watchdog / harness trouble (never a VIOLATION line).
package main

import (
	"bufio"
	"bytes"
	"encoding/json"
	"flag"
	"fmt"
	"os"
	"os/exec"
	"path/filepath"
	"sort"
	"strconv"
	"strings"
	"sync"
	"time"

	"verifsim/simkit"
)

const (
	repoDir  = "/repo"
	verifDir = "/verif"
	simDir   = "/verif/sim"
	goBin    = "go1.26.8"
)

func workDir() string {
	if w := os.Getenv("VERIF_BUILD_WORK"); w != "" {
		return w
	}
	return filepath.Join(verifDir, ".work")
}

// scratchRoot is where workers create per-run directories: tmpfs when
// available (fsync is free there), else the work directory.
func scratchRoot() string {
	sub := fmt.Sprintf("p%d", os.Getpid()) // one scratch tree per driver process: concurrent checks do not disturb each other
	if w := os.Getenv("VERIF_WORK"); w != "" {
		return filepath.Join(w, sub)
	}
	shm := "/dev/shm"
	if fi, err := os.Stat(shm); err == nil && fi.IsDir() {
		d := filepath.Join(shm, fmt.Sprintf("verif-scratch-%d", os.Getuid()), sub)
		if os.MkdirAll(d, 0755) == nil {
			return d
		}
	}
	return filepath.Join(workDir(), "scratch", sub)
}

func die2(format string, a ...interface{}) {
	fmt.Fprintf(os.Stderr, "verif: "+format+"\n", a...)
	fmt.Printf("HARNESS-ERROR %s\n", fmt.Sprintf(format, a...))
	os.Exit(2)
}

func goEnv() []string {
	env := os.Environ()
	env = append(env, "GOFLAGS=-mod=mod", "GOPROXY=off", "GOSUMDB=off", "GOTOOLCHAIN=local", "CGO_ENABLED=0")
	return env
}

func main() {
	if len(os.Args) < 2 {
		die2("usage: verif check|replay|build ...")
	}
	switch os.Args[1] {
	case "check":
		cmdCheck(os.Args[2:])
	case "replay":
		cmdReplay(os.Args[2:])
	case "build":
		cmdBuild(os.Args[2:])
	case "selftest":
		cmdSelftest(os.Args[2:])
	default:
		die2("unknown command %q", os.Args[1])
	}
}

// ---------------------------------------------------------------- build

func prepareGoSum() {
	repoSum, err := os.ReadFile(filepath.Join(repoDir, "go.sum"))
	if err != nil {
		die2("read /repo/go.sum: %v", err)
	}
	extra, _ := os.ReadFile(filepath.Join(simDir, "go.sum.extra"))
	if err := writeIfChanged(filepath.Join(simDir, "go.sum"), append(repoSum, extra...)); err != nil {
		die2("write go.sum: %v", err)
	}
}

var overlayOnce sync.Once
var overlayFile string

func ensureOverlay() string {
	overlayOnce.Do(func() {
		extra, err := extraOverlay(workDir())
		if err != nil {
			die2("extra overlay: %v", err)
		}
		f, n, err := buildClockOverlay(repoDir, workDir(), extra)
		if err != nil {
			die2("%v", err)
		}
		_ = n
		overlayFile = f
	})
	return overlayFile
}

func binPath(engine, variant string) string {
	name := engine
	if variant != "" {
		name += "-" + strings.ReplaceAll(variant, ",", "-")
	}
	return filepath.Join(workDir(), "bin", name+".test")
}

// buildEngine compiles the engine's worker binary from /repo's current
// working tree with the hooks on. A failure is exit 2, never a violation.
func buildEngine(engine, variant string) string {
	prepareGoSum()
	ov := ensureOverlay()
	out := binPath(engine, variant)
	os.MkdirAll(filepath.Dir(out), 0755)
	tags := "verif,verifworker"
	if variant != "" {
		tags += "," + variant
	}
	// build to a private name and rename into place: concurrent checks may be executing the old binary
	tmpOut := fmt.Sprintf("%s.tmp.%d", out, os.Getpid())
	defer os.Remove(tmpOut)
	args := []string{"test", "-c", "-tags", tags, "-vet=off", "-overlay", ov, "-o", tmpOut, "./engines/" + engine}
	cmd := exec.Command(goBin, args...)
	cmd.Dir = simDir
	cmd.Env = goEnv()
	var buf bytes.Buffer
	cmd.Stdout, cmd.Stderr = &buf, &buf
	start := time.Now()
	if err := cmd.Run(); err != nil {
		die2("build of engine %s (tags %s) failed: %v\n%s", engine, tags, err, tail(buf.String(), 60))
	}
	if err := os.Rename(tmpOut, out); err != nil {
		die2("install %s: %v", out, err)
	}
	fmt.Printf("built %s tags=%s in %.1fs\n", engine, strings.Replace(tags, ",verifworker", "", 1), time.Since(start).Seconds())
	return out
}

func tail(s string, n int) string {
	lines := strings.Split(s, "\n")
	if len(lines) > n {
		lines = lines[len(lines)-n:]
	}
	return strings.Join(lines, "\n")
}

// claimedInManifest lists the property ids that MANIFEST.json registers checks for.
func claimedInManifest() map[string]bool {
	out := map[string]bool{}
	b, err := os.ReadFile(filepath.Join(verifDir, "MANIFEST.json"))
	if err != nil {
		return out
	}
	var m struct {
		Checks []struct {
			PropertyID string `json:"property_id"`
		} `json:"checks"`
	}
	if json.Unmarshal(b, &m) == nil {
		for _, c := range m.Checks {
			out[c.PropertyID] = true
		}
	}
	return out
}

func cmdBuild(args []string) {
	seen := map[string]bool{}
	var ids []string
	claimed := claimedInManifest()
	for id := range props {
		// setup warms the cache for what the manifest registers; engines under construction are skipped
		if len(args) == 0 && len(claimed) > 0 && !claimed[id] {
			continue
		}
		ids = append(ids, id)
	}
	sort.Strings(ids)
	for _, id := range ids {
		pc := props[id]
		if len(args) > 0 && !contains(args, pc.Engine) {
			continue
		}
		for _, v := range pc.Variants {
			k := pc.Engine + "|" + v
			if !seen[k] {
				seen[k] = true
				buildEngine(pc.Engine, v)
			}
		}
	}
}

func contains(a []string, s string) bool {
	for _, x := range a {
		if x == s {
			return true
		}
	}
	return false
}

// ---------------------------------------------------------------- known findings

type knownFinding struct {
	Property    string `json:"property"`
	Class       string `json:"class"`
	Key         string `json:"key"`
	Description string `json:"description"`
}

type knownFile struct {
	Findings []knownFinding `json:"findings"`
	Fixed    []string       `json:"fixed"`
}

func loadKnown() *knownFile {
	kf := &knownFile{}
	b, err := os.ReadFile(filepath.Join(verifDir, "known_findings.json"))
	if err != nil {
		return kf
	}
	if err := json.Unmarshal(b, kf); err != nil {
		die2("known_findings.json: %v", err)
	}
	return kf
}

func (k *knownFile) match(prop string, v *simkit.Violation) *knownFinding {
	for i := range k.Findings {
		f := &k.Findings[i]
		if f.Property == prop && f.Class == v.Class && f.Key == v.Key {
			return f
		}
	}
	return nil
}

// ---------------------------------------------------------------- check

var workerGOMAXPROCS = 2

type chunk struct {
	variant  string
	from, to int
}

type workerOutcome struct {
	results []*simkit.Result
	died    bool
	diedIdx int
	stderr  string
	exit    int
}

func runWorker(bin string, variant string, env map[string]string, timeout time.Duration) (exit int, stderrTail string) {
	cmd := exec.Command(bin, "-test.run", "^TestWorker$", "-test.timeout", "0")
	e := os.Environ()
	e = append(e, "GOGC=800", fmt.Sprintf("GOMAXPROCS=%d", workerGOMAXPROCS), "VERIF_WORK="+scratchRoot(), "VERIF_BUILD_TAGS="+variant)
	for k, v := range env {
		e = append(e, k+"="+v)
	}
	cmd.Env = e
	cmd.Dir = workDir()
	var errBuf bytes.Buffer
	cmd.Stderr = &limitedWriter{buf: &errBuf, max: 1 << 20}
	cmd.Stdout = nil
	if err := cmd.Start(); err != nil {
		return 2, err.Error()
	}
	done := make(chan error, 1)
	go func() { done <- cmd.Wait() }()
	select {
	case err := <-done:
		if err != nil {
			if ee, ok := err.(*exec.ExitError); ok {
				return ee.ExitCode(), errBuf.String()
			}
			return 2, err.Error()
		}
		return 0, errBuf.String()
	case <-time.After(timeout):
		cmd.Process.Signal(sigQuit)
		select {
		case <-done:
		case <-time.After(5 * time.Second):
			cmd.Process.Kill()
			<-done
		}
		return -9, "WATCHDOG: worker exceeded " + timeout.String() + "\n" + tail(errBuf.String(), 80)
	}
}

// limitedWriter keeps the head and the tail of a stream within max bytes.
type limitedWriter struct {
	buf *bytes.Buffer
	max int
}

func (w *limitedWriter) Write(p []byte) (int, error) {
	if w.buf.Len()+len(p) > w.max {
		b := w.buf.Bytes()
		keep := w.max / 2
		if len(b) > keep {
			nb := append([]byte{}, b[len(b)-keep:]...)
			w.buf.Reset()
			w.buf.Write(nb)
		}
	}
	w.buf.Write(p)
	return len(p), nil
}

func readResults(path string) []*simkit.Result {
	f, err := os.Open(path)
	if err != nil {
		return nil
	}
	defer f.Close()
	var out []*simkit.Result
	sc := bufio.NewScanner(f)
	sc.Buffer(make([]byte, 1<<20), 64<<20)
	for sc.Scan() {
		r := &simkit.Result{}
		if json.Unmarshal(sc.Bytes(), r) == nil {
			out = append(out, r)
		}
	}
	return out
}

// openBegin returns the index of the run that was in flight when the worker died (-1: none).
func openBegin(journal string) int {
	b, err := os.ReadFile(journal)
	if err != nil {
		return -1
	}
	open := -1
	for _, l := range strings.Split(string(b), "\n") {
		f := strings.Fields(l)
		if len(f) >= 2 && f[0] == "BEGIN" {
			open, _ = strconv.Atoi(f[1])
		} else if len(f) >= 2 && f[0] == "END" {
			open = -1
		}
	}
	return open
}

// sutFrame extracts the first SeaweedFS frame of a panic trace.
func sutFrame(stderr string) string {
	i := strings.Index(stderr, "panic:")
	if j := strings.Index(stderr, "fatal error:"); j >= 0 && (i < 0 || j < i) {
		i = j
	}
	if i < 0 {
		if strings.Contains(stderr, "] ") && strings.Contains(stderr, "F0") {
			// glog.Fatal line: "F0101 00:00:00 pid file.go:NN] msg"
			for _, l := range strings.Split(stderr, "\n") {
				if strings.HasPrefix(l, "F") && strings.Contains(l, "] ") {
					f := strings.Fields(l)
					if len(f) >= 4 {
						return "glog.Fatal@" + strings.TrimSuffix(f[3], "]")
					}
				}
			}
		}
		return ""
	}
	// the panicking goroutine's stack is the first one printed; its first frame that is not the
	// runtime's decides, by source file (repository code, not the harness, a dependency or a shim)
	st := stderr[i:]
	if j := strings.Index(st, "goroutine "); j >= 0 {
		st = st[j:]
		if k := strings.Index(st, "\n\ngoroutine "); k >= 0 {
			st = st[:k]
		}
	}
	fn, file := simkit.TopFrame(st)
	if simkit.IsSUTFile(file) {
		return simkit.SUTFrameKey(fn, file)
	}
	return ""
}

type agg struct {
	mu          sync.Mutex
	results     []*simkit.Result
	harnessErrs []string
	transient   []string // worker deaths that did not recur when the run was repeated alone
	crashViol   []*simkit.Result
}

func cmdCheck(args []string) {
	fs := flag.NewFlagSet("check", flag.ExitOnError)
	tier := fs.String("tier", envOr("VERIF_TIER", "quick"), "quick|thorough")
	runs := fs.Int("runs", 0, "override number of runs per variant")
	workers := fs.Int("workers", 16, "parallel worker processes")
	wall := fs.Int("wall", 0, "override wall budget (s)")
	chunkFlag := fs.Int("chunk", 0, "override runs per worker process")
	gmp := fs.Int("gomaxprocs", 2, "GOMAXPROCS of each worker")
	hashesOut := fs.String("hashes-out", "", "selftest: write index<TAB>variant<TAB>log_hash lines here and skip evidence/exit-code logic")
	if len(args) < 1 {
		die2("usage: verif check <Cxx> [--tier ...]")
	}
	id := args[0]
	fs.Parse(args[1:])
	pc := props[id]
	if pc == nil {
		die2("property %s is not claimed by this machinery", id)
	}
	if *tier != "quick" && *tier != "thorough" {
		die2("bad tier %q", *tier)
	}
	seed := uint64(20260921)
	if *tier == "thorough" {
		seed = 7020260921
	}
	if s := os.Getenv("VERIF_SEED"); s != "" {
		v, err := strconv.ParseUint(s, 10, 64)
		if err != nil {
			if iv, err2 := strconv.ParseInt(s, 10, 64); err2 == nil {
				v = uint64(iv)
			} else {
				die2("VERIF_SEED: %v", err)
			}
		}
		seed = v
	}
	start := time.Now()
	n := pc.Quick
	budget := pc.QuickWall
	if *tier == "thorough" {
		n, budget = pc.Thorough, pc.ThorWall
	}
	if *runs > 0 {
		n = *runs
	}
	if *wall > 0 {
		budget = *wall
	}
	bins := map[string]string{}
	for _, v := range pc.Variants {
		bins[v] = buildEngine(pc.Engine, v)
	}
	buildS := time.Since(start).Seconds()
	// work directory for this check
	cdir := filepath.Join(workDir(), "check", id)
	os.RemoveAll(cdir)
	os.MkdirAll(cdir, 0755)
	os.RemoveAll(scratchRoot())
	defer os.RemoveAll(scratchRoot())
	chunkSize := pc.Chunk
	if *chunkFlag > 0 {
		chunkSize = *chunkFlag
	}
	workerGOMAXPROCS = *gmp
	var chunks []chunk
	for _, v := range pc.Variants {
		for from := 0; from < n; from += chunkSize {
			to := from + chunkSize
			if to > n {
				to = n
			}
			chunks = append(chunks, chunk{v, from, to})
		}
	}
	// interleave variants so that a wall cut-off treats them equally
	sort.SliceStable(chunks, func(i, j int) bool { return chunks[i].from < chunks[j].from })
	deadline := time.Now().Add(time.Duration(budget) * time.Second)
	var knownKeys []string
	for _, f := range loadKnown().Findings {
		if f.Property == id {
			knownKeys = append(knownKeys, f.Class+"\x1f"+f.Key)
		}
	}
	knownEnv := strings.Join(knownKeys, "\x1e")
	a := &agg{}
	var qmu sync.Mutex
	next := 0
	skipped := 0
	take := func() (chunk, int, bool) {
		qmu.Lock()
		defer qmu.Unlock()
		if next >= len(chunks) {
			return chunk{}, 0, false
		}
		if time.Now().After(deadline) {
			skipped += len(chunks) - next
			next = len(chunks)
			return chunk{}, 0, false
		}
		c := chunks[next]
		next++
		return c, next, true
	}
	requeue := func(c chunk) {
		qmu.Lock()
		chunks = append(chunks, c)
		qmu.Unlock()
	}
	var wg sync.WaitGroup
	for w := 0; w < *workers; w++ {
		wg.Add(1)
		go func(w int) {
			defer wg.Done()
			for {
				c, ord, ok := take()
				if !ok {
					return
				}
				out := filepath.Join(cdir, fmt.Sprintf("out-%d.jsonl", ord))
				journal := filepath.Join(cdir, fmt.Sprintf("journal-%d.txt", ord))
				env := map[string]string{"VERIF_MODE": "batch", "VERIF_PROP": id, "VERIF_TIER": *tier, "VERIF_SEED": strconv.FormatUint(seed, 10),
					"VERIF_FROM": strconv.Itoa(c.from), "VERIF_TO": strconv.Itoa(c.to), "VERIF_OUT": out, "VERIF_JOURNAL": journal,
					"VERIF_DEADLINE_UNIX": strconv.FormatInt(deadline.Add(30*time.Second).Unix(), 10), "VERIF_KNOWN": knownEnv}
				exit, errTail := runWorker(bins[c.variant], c.variant, env, time.Duration(budget+600)*time.Second)
				res := readResults(out)
				for _, r := range res {
					if c.variant != "" {
						if r.Counters == nil {
							r.Counters = map[string]int{}
						}
						r.Counters["variant:"+c.variant]++
					}
				}
				a.mu.Lock()
				a.results = append(a.results, res...)
				a.mu.Unlock()
				if exit != 0 {
					idx := openBegin(journal)
					if idx < 0 || exit == -9 {
						a.mu.Lock()
						a.harnessErrs = append(a.harnessErrs, fmt.Sprintf("worker for [%d,%d) variant=%q exited %d with no run in flight (or watchdog): %s", c.from, c.to, c.variant, exit, tail(errTail, 30)))
						a.mu.Unlock()
						continue
					}
					handleWorkerDeath(a, pc, id, *tier, seed, bins[c.variant], c.variant, idx, errTail, cdir)
					if idx+1 < c.to {
						requeue(chunk{c.variant, idx + 1, c.to})
					}
				}
			}
		}(w)
	}
	wg.Wait()
	if *hashesOut != "" {
		var lines []string
		for _, r := range a.results {
			v := ""
			for k := range r.Counters {
				if strings.HasPrefix(k, "variant:") {
					v = k
				}
			}
			viol := ""
			if r.Violation != nil {
				viol = r.Violation.Class + "/" + r.Violation.Key
			}
			lines = append(lines, fmt.Sprintf("%d\t%s\t%s\t%s\t%s", r.Index, v, r.LogHash, viol, r.HarnessError))
		}
		sort.Strings(lines)
		os.WriteFile(*hashesOut, []byte(strings.Join(lines, "\n")+"\n"), 0644)
		os.RemoveAll(scratchRoot())
		fmt.Printf("wrote %d hashes to %s (%d harness errors)\n", len(lines), *hashesOut, len(a.harnessErrs))
		return
	}
	finishCheck(id, pc, *tier, seed, a, start, buildS, skipped*pc.Chunk, n*len(pc.Variants), bins)
}

func envOr(k, d string) string {
	if v := os.Getenv(k); v != "" {
		return v
	}
	return d
}

// handleWorkerDeath: a worker died with run idx in flight. Confirm by
// re-running that single run in a fresh process; a SUT panic that recurs is a
// process-crash violation (for properties that demand clean success/failure),
// anything else is harness trouble.
func handleWorkerDeath(a *agg, pc *propCfg, id, tier string, seed uint64, bin, variant string, idx int, errTail, cdir string) {
	frame := sutFrame(errTail)
	out := filepath.Join(cdir, fmt.Sprintf("confirm-%d-%s.jsonl", idx, variant))
	journal := filepath.Join(cdir, fmt.Sprintf("confirm-%d-%s.journal", idx, variant))
	planFile := filepath.Join(cdir, fmt.Sprintf("plan-%d-%s.json", idx, variant))
	env := map[string]string{"VERIF_MODE": "batch", "VERIF_PROP": id, "VERIF_TIER": tier, "VERIF_SEED": strconv.FormatUint(seed, 10),
		"VERIF_FROM": strconv.Itoa(idx), "VERIF_TO": strconv.Itoa(idx + 1), "VERIF_OUT": out, "VERIF_JOURNAL": journal, "VERIF_NOMIN": "1", "VERIF_PLAN_OUT": planFile}
	exit2, err2 := runWorker(bin, variant, env, 10*time.Minute)
	if exit2 == 0 {
		// did not die again: an ordinary result (possibly an ordinary violation found without minimisation)
		res := readResults(out)
		a.mu.Lock()
		a.results = append(a.results, res...)
		if len(res) == 0 || res[0].Violation == nil {
			tf := filepath.Join(workDir(), fmt.Sprintf("transient-death-%s-%d-%d.txt", id, idx, time.Now().Unix()))
			os.WriteFile(tf, []byte(errTail), 0644)
			a.transient = append(a.transient, fmt.Sprintf("%s: worker died at run %d but the run completed when repeated alone - not reproducible (trace kept in %s):\n%s", id, idx, tf, tail(errTail, 60)))
		}
		a.mu.Unlock()
		return
	}
	frame2 := sutFrame(err2)
	if frame == "" || frame2 == "" {
		a.mu.Lock()
		a.harnessErrs = append(a.harnessErrs, fmt.Sprintf("worker died at run %d (variant %q), sut frame %q/%q, crash-is-violation=%v:\n%s", idx, variant, frame, frame2, pc.CrashIsViolation, tail(err2, 60)))
		a.mu.Unlock()
		return
	}
	// process-crash violation: minimise by replaying candidate plans in subprocesses
	plan := &simkit.Plan{}
	if b, err := os.ReadFile(planFile); err != nil || json.Unmarshal(b, plan) != nil {
		a.mu.Lock()
		a.harnessErrs = append(a.harnessErrs, fmt.Sprintf("worker died at run %d but its plan could not be recovered", idx))
		a.mu.Unlock()
		return
	}
	want := &simkit.Violation{Class: "process-crash", Key: frame2, Msg: "SUT panic killed the process: " + firstPanicLine(err2)}
	execSub := func(p *simkit.Plan) *simkit.Result {
		rp := &simkit.Replay{Plan: p}
		f := filepath.Join(cdir, fmt.Sprintf("cand-%d-%s.json", idx, variant))
		simkit.WriteJSON(f, rp)
		o := f + ".out"
		os.Remove(o)
		ex, et := runWorker(bin, variant, map[string]string{"VERIF_MODE": "replay", "VERIF_REPLAY": f, "VERIF_OUT": o}, 5*time.Minute)
		if ex != 0 {
			if fr := sutFrame(et); fr != "" {
				return &simkit.Result{Violation: &simkit.Violation{Class: "process-crash", Key: fr, Msg: firstPanicLine(et)}, LogHash: "process-died"}
			}
			return &simkit.Result{HarnessError: "candidate died without SUT frame"}
		}
		rs := readResults(o)
		if len(rs) == 0 {
			return &simkit.Result{HarnessError: "no result"}
		}
		return rs[0]
	}
	minPlan, minRes, _ := simkit.Minimize(plan, want, execSub, nil, 60, 4*time.Minute)
	os.MkdirAll(simkit.ReplayDir(), 0755)
	vtag := ""
	if variant != "" {
		vtag = "-" + variant
	}
	path := filepath.Join(simkit.ReplayDir(), fmt.Sprintf("%s%s-%d-%d.json", id, vtag, plan.Seed, plan.Index))
	simkit.WriteJSON(path, &simkit.Replay{Plan: minPlan, Violation: want, LogHash: "process-died", OriginalSteps: len(plan.Steps), OriginalSeed: plan.Seed, BuildTags: variant,
		EventLog: strings.Split(tail(err2, 40), "\n")})
	_ = minRes
	r := &simkit.Result{Property: id, Seed: plan.Seed, Index: idx, Violation: want, ReplayFile: path, MinSteps: len(minPlan.Steps), Steps: len(plan.Steps), LogHash: "process-died", Plan: minPlan,
		Counters: map[string]int{}, Faults: map[string]int{}, Probes: map[string]int{}, Yields: map[string]int{}}
	a.mu.Lock()
	a.results = append(a.results, r)
	a.mu.Unlock()
}

func firstPanicLine(s string) string {
	for _, l := range strings.Split(s, "\n") {
		if strings.HasPrefix(l, "panic:") || strings.HasPrefix(l, "fatal error:") || (strings.HasPrefix(l, "F") && strings.Contains(l, "] ")) {
			return l
		}
	}
	return ""
}

// confirmReplay re-executes a replay file in a fresh process.
func confirmReplay(bin, variant, file string) (*simkit.Result, string) {
	o := filepath.Join(workDir(), "check", fmt.Sprintf("replay-%d.out", time.Now().UnixNano()))
	os.MkdirAll(filepath.Dir(o), 0755)
	defer os.Remove(o)
	ex, et := runWorker(bin, variant, map[string]string{"VERIF_MODE": "replay", "VERIF_REPLAY": file, "VERIF_OUT": o}, 10*time.Minute)
	if ex != 0 {
		if fr := sutFrame(et); fr != "" {
			return &simkit.Result{Violation: &simkit.Violation{Class: "process-crash", Key: fr, Msg: firstPanicLine(et)}, LogHash: "process-died"}, ""
		}
		return nil, fmt.Sprintf("replay process exited %d: %s", ex, tail(et, 30))
	}
	rs := readResults(o)
	if len(rs) == 0 {
		return nil, "replay produced no result"
	}
	return rs[0], ""
}

func cmdReplay(args []string) {
	if len(args) < 1 {
		die2("usage: verif replay <file>")
	}
	rp, err := simkit.ReadReplay(args[0])
	if err != nil {
		die2("%v", err)
	}
	pc := props[rp.Plan.Property]
	if pc == nil {
		die2("property %s not claimed", rp.Plan.Property)
	}
	bin := buildEngine(pc.Engine, rp.BuildTags)
	res, problem := confirmReplay(bin, rp.BuildTags, args[0])
	if problem != "" {
		die2("%s", problem)
	}
	b, _ := json.MarshalIndent(res, "", " ")
	fmt.Println(string(b))
	if res.Violation != nil {
		same := rp.Violation == nil || res.Violation.Same(rp.Violation)
		fmt.Printf("reproduced=%v log_hash_equal=%v\n", same, rp.LogHash == "" || rp.LogHash == res.LogHash)
		if kf := loadKnown().match(rp.Plan.Property, res.Violation); kf != nil {
			fmt.Printf("KNOWN-FINDING: property=%s %s/%s %s\n", rp.Plan.Property, kf.Class, kf.Key, kf.Description)
			os.Exit(0)
		}
		fmt.Printf("VIOLATION property=%s replay=%s\n", rp.Plan.Property, args[0])
		os.Exit(1)
	}
	fmt.Println("no violation on this tree")
}

// cmdSelftest proves determinism of a property's engine on a sample: the same
// seeds are executed three times in different processes, at different
// positions within a worker's batch (chunk sizes), worker counts and
// GOMAXPROCS; the event-log hashes per run index must be identical.
func cmdSelftest(args []string) {
	if len(args) < 1 {
		die2("usage: verif selftest <Cxx> [runs]")
	}
	id := args[0]
	runs := "120"
	if len(args) > 1 {
		runs = args[1]
	}
	pc := props[id]
	if pc == nil {
		die2("unknown property %s", id)
	}
	self, _ := os.Executable()
	dir := filepath.Join(workDir(), "selftest", id)
	os.MkdirAll(dir, 0755)
	cfgs := [][]string{{"--workers", "16", "--gomaxprocs", "1", "--chunk", fmt.Sprint(pc.Chunk)}, {"--workers", "5", "--gomaxprocs", "4", "--chunk", fmt.Sprint(pc.Chunk*2 + 3)}, {"--workers", "11", "--gomaxprocs", "16", "--chunk", "7"}}
	var files []string
	for i, c := range cfgs {
		f := filepath.Join(dir, fmt.Sprintf("hashes-%d.tsv", i))
		files = append(files, f)
		cmd := exec.Command(self, append([]string{"check", id, "--runs", runs, "--hashes-out", f}, c...)...)
		cmd.Env = append(os.Environ(), "VERIF_NOMIN=1")
		out, err := cmd.CombinedOutput()
		if err != nil {
			die2("selftest run %d failed: %v\n%s", i, err, tail(string(out), 20))
		}
	}
	base, _ := os.ReadFile(files[0])
	ok := true
	for i := 1; i < len(files); i++ {
		b, _ := os.ReadFile(files[i])
		if string(b) != string(base) {
			ok = false
			al, bl := strings.Split(string(base), "\n"), strings.Split(string(b), "\n")
			n := 0
			for j := 0; j < len(al) && j < len(bl); j++ {
				if al[j] != bl[j] && n < 8 {
					fmt.Printf("DIVERGES config0 vs config%d:\n  %s\n  %s\n", i, al[j], bl[j])
					n++
				}
			}
		}
	}
	if !ok {
		fmt.Printf("SELFTEST %s: NOT deterministic\n", id)
		os.Exit(2)
	}
	fmt.Printf("SELFTEST %s: deterministic over %s runs x 3 configurations (workers 16/5/11, GOMAXPROCS 1/4/16, chunk %d/%d/7)\n", id, runs, pc.Chunk, pc.Chunk*2+3)
}
