package main

import (
	"fmt"
	"os"
	"os/exec"
	"path/filepath"
	"strings"
)

// extraOverlayFiles returns overlay entries beyond the clock rewrite:
// overlay-ADDED export shims (files under /verif/sim/overlay_add/<path under
// /repo>, package of the SUT, build tag verif, aliases and thin wrappers only)
// and, for engines that need it, the deterministic-map runtime files.
func extraOverlayFiles(work string) (map[string]string, error) {
	out := map[string]string{}
	root := filepath.Join(simDir, "overlay_add")
	err := filepath.Walk(root, func(p string, info os.FileInfo, err error) error {
		if err != nil {
			if os.IsNotExist(err) {
				return nil
			}
			return err
		}
		if info.IsDir() || !strings.HasSuffix(p, ".go") {
			return nil
		}
		rel, _ := filepath.Rel(root, p)
		out[filepath.Join(repoDir, rel)] = p
		return nil
	})
	if err != nil && !os.IsNotExist(err) {
		return nil, err
	}
	if os.Getenv("VERIF_NO_MAP_OVERLAY") == "" {
		if err := mapOverlay(work, out); err != nil {
			return nil, err
		}
	}
	return out, nil
}

// mapOverlay makes Go map iteration order a deterministic function of the
// insertion history: overlay copies of four GOROOT files in which the per-map
// hash seed, the iteration offsets and the process hash key are constants
// (DESIGN §3.7). Residual: stack-allocated maps that grow past 8 entries get
// their seed from a compiler-emitted runtime.rand call and stay random.
func mapOverlay(work string, out map[string]string) error {
	cmd := exec.Command(goBin, "env", "GOROOT")
	cmd.Env = goEnv()
	b, err := cmd.Output()
	if err != nil {
		return fmt.Errorf("go env GOROOT: %v", err)
	}
	goroot := strings.TrimSpace(string(b))
	dst := filepath.Join(work, "overlay-goroot")
	edit := func(rel string, f func(string) (string, error)) error {
		src := filepath.Join(goroot, "src", rel)
		data, err := os.ReadFile(src)
		if err != nil {
			return err
		}
		res, err := f(string(data))
		if err != nil {
			return fmt.Errorf("%s: %v", rel, err)
		}
		d := filepath.Join(dst, rel)
		if err := writeIfChanged(d, []byte(res)); err != nil {
			return err
		}
		out[src] = d
		return nil
	}
	replaceN := func(s, old, new string, want int) (string, error) {
		if n := strings.Count(s, old); n != want {
			return "", fmt.Errorf("expected %d occurrences of %q, found %d (toolchain changed?)", want, old, n)
		}
		return strings.ReplaceAll(s, old, new), nil
	}
	if err := edit("internal/runtime/maps/map.go", func(s string) (string, error) {
		return replaceN(s, "uintptr(rand())", "uintptr(detRand())", 4)
	}); err != nil {
		return err
	}
	if err := edit("internal/runtime/maps/table.go", func(s string) (string, error) {
		s, err := replaceN(s, "it.entryOffset = rand()", "it.entryOffset = detRand()", 1)
		if err != nil {
			return "", err
		}
		return replaceN(s, "it.dirOffset = rand()", "it.dirOffset = detRand()", 1)
	}); err != nil {
		return err
	}
	if err := edit("internal/runtime/maps/runtime.go", func(s string) (string, error) {
		return s + "\n// detRand replaces the random per-map seed and iteration offsets (simulation build).\nfunc detRand() uint64 { return 0x9e3779b97f4a7c15 }\n", nil
	}); err != nil {
		return err
	}
	return edit("runtime/alg.go", func(s string) (string, error) {
		s, err := replaceN(s, "hashkey[i] = uintptr(bootstrapRand())", "hashkey[i] = uintptr(0x9e3779b97f4a7c15 + uint64(i))", 1)
		if err != nil {
			return "", err
		}
		return replaceN(s, "key[i] = bootstrapRand()", "key[i] = 0x9e3779b97f4a7c15 + uint64(i)", 1)
	})
}
