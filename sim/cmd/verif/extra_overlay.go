package main

import (
	"os"
	"path/filepath"
	"strings"
)

// extraOverlayFiles returns overlay entries beyond the clock rewrite:
// overlay-ADDED export shims (files under /verif/sim/overlay_add/<path under
// /repo>, package of the SUT, build tag verif, aliases and thin wrappers only)
// and, for engines that need it, the deterministic-map runtime files.
func extraOverlayFiles(work string) (map[string]string, error) {
	out := map[string]string{}
	root := filepath.Join(simDir, "overlay_add")
	err := filepath.Walk(root, func(p string, info os.FileInfo, err error) error {
		if err != nil {
			if os.IsNotExist(err) {
				return nil
			}
			return err
		}
		if info.IsDir() || !strings.HasSuffix(p, ".go") {
			return nil
		}
		rel, _ := filepath.Rel(root, p)
		out[filepath.Join(repoDir, rel)] = p
		return nil
	})
	if err != nil && !os.IsNotExist(err) {
		return nil, err
	}
	return out, nil
}
