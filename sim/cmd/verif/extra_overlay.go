package main

// extraOverlayFiles returns overlay entries beyond the clock rewrite:
// deterministic-map runtime files and overlay-added export shims.
func extraOverlayFiles(work string) (map[string]string, error) {
	return map[string]string{}, nil
}
