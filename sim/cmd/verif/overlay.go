package main

import (
	"bytes"
	"encoding/json"
	"fmt"
	"go/ast"
	"go/parser"
	"go/token"
	"os"
	"path/filepath"
	"sort"
	"strings"
)

// buildClockOverlay produces overlay copies of the non-test .go files under
// /repo/weed in which the expression time.Now is replaced by verif.Now (the
// strictly increasing tick clock, DESIGN §3.2). The tree itself is untouched.
// Extra overlay-added or replaced files (export shims, GOROOT map overlay)
// are merged in by the callers through extra.
func buildClockOverlay(repo, work string, extra map[string]string) (string, int, error) {
	ovDir := filepath.Join(work, "overlay")
	replace := map[string]string{}
	// VERIF_MUTANT_OVERLAY="/repo/weed/a.go=/tmp/m/a.go,...": sensitivity runs substitute
	// mutated copies of SUT files at build time; /repo itself is never edited for this
	mutants := map[string]string{}
	for _, kv := range strings.Split(os.Getenv("VERIF_MUTANT_OVERLAY"), ",") {
		if i := strings.Index(kv, "="); i > 0 {
			mutants[kv[:i]] = kv[i+1:]
		}
	}
	if len(mutants) > 0 && os.Getenv("VERIF_BUILD_WORK") == "" {
		return "", 0, fmt.Errorf("VERIF_MUTANT_OVERLAY needs VERIF_BUILD_WORK set to a private directory")
	}
	rewritten := 0
	root := filepath.Join(repo, "weed")
	err := filepath.Walk(root, func(p string, info os.FileInfo, err error) error {
		if err != nil {
			return err
		}
		if info.IsDir() {
			if p == filepath.Join(root, "verif") {
				return filepath.SkipDir
			}
			return nil
		}
		if !strings.HasSuffix(p, ".go") || strings.HasSuffix(p, "_test.go") || strings.HasSuffix(p, ".pb.go") {
			return nil
		}
		readFrom := p
		if m, ok := mutants[p]; ok {
			readFrom = m
		}
		src, err := os.ReadFile(readFrom)
		if err != nil {
			return err
		}
		if !bytes.Contains(src, []byte("Now")) {
			if readFrom != p {
				replace[p] = readFrom
			}
			return nil
		}
		out, changed, err := rewriteTimeNow(p, src)
		if err != nil {
			return fmt.Errorf("clock overlay: %s: %v", p, err)
		}
		if !changed {
			if readFrom != p {
				replace[p] = readFrom
			}
			return nil
		}
		rel, _ := filepath.Rel(repo, p)
		dst := filepath.Join(ovDir, rel)
		if err := writeIfChanged(dst, out); err != nil {
			return err
		}
		replace[p] = dst
		rewritten++
		return nil
	})
	if err != nil {
		return "", 0, err
	}
	for k, v := range extra {
		replace[k] = v
	}
	keys := make([]string, 0, len(replace))
	for k := range replace {
		keys = append(keys, k)
	}
	sort.Strings(keys)
	ordered := map[string]string{}
	for _, k := range keys {
		ordered[k] = replace[k]
	}
	b, _ := json.MarshalIndent(map[string]interface{}{"Replace": ordered}, "", " ")
	ovFile := filepath.Join(work, "overlay.json")
	if err := writeIfChanged(ovFile, b); err != nil {
		return "", 0, err
	}
	return ovFile, rewritten, nil
}

func writeIfChanged(path string, data []byte) error {
	if old, err := os.ReadFile(path); err == nil && bytes.Equal(old, data) {
		return nil
	}
	if err := os.MkdirAll(filepath.Dir(path), 0755); err != nil {
		return err
	}
	// atomically: a concurrent check's compiler never sees a half-written file
	tmp := fmt.Sprintf("%s.tmp%d", path, os.Getpid())
	if err := os.WriteFile(tmp, data, 0644); err != nil {
		return err
	}
	return os.Rename(tmp, path)
}

// rewriteTimeNow replaces, textually and at AST-determined positions, every
// selector time.Now whose qualifier is the imported package "time".
func rewriteTimeNow(name string, src []byte) ([]byte, bool, error) {
	fset := token.NewFileSet()
	f, err := parser.ParseFile(fset, name, src, parser.ParseComments)
	if err != nil {
		return nil, false, err
	}
	timeName := ""
	hookName := ""
	for _, imp := range f.Imports {
		if imp.Path.Value == `"time"` {
			timeName = "time"
			if imp.Name != nil {
				timeName = imp.Name.Name
			}
		}
		if imp.Path.Value == `"github.com/chrislusf/seaweedfs/weed/verif"` {
			// the file already imports the hook package (yield points): reuse that name
			hookName = "verif"
			if imp.Name != nil {
				hookName = imp.Name.Name
			}
		}
	}
	if timeName == "" || timeName == "_" || timeName == "." {
		return nil, false, nil
	}
	type span struct{ from, to int }
	var spans []span
	ast.Inspect(f, func(n ast.Node) bool {
		sel, ok := n.(*ast.SelectorExpr)
		if !ok {
			return true
		}
		id, ok := sel.X.(*ast.Ident)
		if !ok || id.Name != timeName || id.Obj != nil || sel.Sel.Name != "Now" {
			return true
		}
		spans = append(spans, span{fset.Position(sel.Pos()).Offset, fset.Position(sel.End()).Offset})
		return true
	})
	if len(spans) == 0 {
		return nil, false, nil
	}
	sort.Slice(spans, func(i, j int) bool { return spans[i].from < spans[j].from })
	var out bytes.Buffer
	// the import goes on the package clause's own line so that line numbers are preserved
	pkgEnd := fset.Position(f.Name.End()).Offset
	last := 0
	out.Write(src[:pkgEnd])
	if hookName == "" {
		hookName = "verifhook"
		out.WriteString(`; import verifhook "github.com/chrislusf/seaweedfs/weed/verif"`)
	}
	last = pkgEnd
	for _, s := range spans {
		out.Write(src[last:s.from])
		out.WriteString(hookName + ".Now")
		last = s.to
	}
	out.Write(src[last:])
	// is "time" still used? if not, keep it referenced
	stillUsed := false
	ast.Inspect(f, func(n ast.Node) bool {
		sel, ok := n.(*ast.SelectorExpr)
		if !ok {
			return true
		}
		if id, ok := sel.X.(*ast.Ident); ok && id.Name == timeName && id.Obj == nil && sel.Sel.Name != "Now" {
			stillUsed = true
		}
		return true
	})
	if !stillUsed {
		out.WriteString("\nvar _ = " + timeName + ".Second\n")
	}
	return out.Bytes(), true, nil
}
