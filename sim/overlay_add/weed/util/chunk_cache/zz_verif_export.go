//go:build verif
// +build verif

// Read-only accessors for the mountsim engine (overlay-added).
package chunk_cache

// VerifVolume describes one cache volume of an on-disk layer.
type VerifVolume struct {
	FileName  string
	FileSize  int64
	SizeLimit int64
}

// VerifLayers lists the volumes of each on-disk layer, newest (written next) first.
func (c *TieredChunkCache) VerifLayers() [][]VerifVolume {
	c.RLock()
	defer c.RUnlock()
	var out [][]VerifVolume
	for _, l := range c.diskCaches {
		var vs []VerifVolume
		for _, v := range l.diskCaches {
			vs = append(vs, VerifVolume{FileName: v.fileName, FileSize: v.fileSize, SizeLimit: v.sizeLimit})
		}
		out = append(out, vs)
	}
	return out
}

// VerifLimits returns the three size-class limits.
func (c *TieredChunkCache) VerifLimits() (uint64, uint64, uint64) {
	return c.onDiskCacheSizeLimit0, c.onDiskCacheSizeLimit1, c.onDiskCacheSizeLimit2
}

// VerifMemGet is a lookup in the memory tier only.
func (c *TieredChunkCache) VerifMemGet(fileId string) []byte {
	c.RLock()
	defer c.RUnlock()
	return c.memCache.GetChunk(fileId)
}
