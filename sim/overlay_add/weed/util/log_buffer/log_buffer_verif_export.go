//go:build verif
// +build verif

package log_buffer

import "time"

// Read-only accessors for the deterministic-simulation harness (engine
// logsim, property C22). No behaviour: they copy unexported fields out.

// VerifMem describes one sealed buffer.
type VerifMem struct {
	Start, Stop time.Time
	Size, Cap   int
}

// VerifState is a snapshot of a LogBuffer's bookkeeping.
type VerifState struct {
	Pos, Entries, Cap      int
	Start, Stop, LastFlush time.Time
	LastTsNs               int64
	Sealed                 []VerifMem // oldest first, as ReadFromBuffer scans them
	FlushQueued            int
	Stopping               bool
	// AliasedSealed is the index of the sealed buffer whose byte slice shares
	// its backing array with the current buffer (-1: none).
	AliasedSealed int
}

func (m *LogBuffer) VerifState() VerifState {
	m.RLock()
	defer m.RUnlock()
	st := VerifState{Pos: m.pos, Entries: len(m.idx), Cap: len(m.buf), Start: m.startTime, Stop: m.stopTime,
		LastFlush: m.lastFlushTime, LastTsNs: m.lastTsNs, FlushQueued: len(m.flushChan), Stopping: m.isStopping}
	st.AliasedSealed = -1
	for i, b := range m.prevBuffers.buffers {
		st.Sealed = append(st.Sealed, VerifMem{Start: b.startTime, Stop: b.stopTime, Size: b.size, Cap: len(b.buf)})
		if len(b.buf) > 0 && len(m.buf) > 0 && &b.buf[0] == &m.buf[0] {
			st.AliasedSealed = i
		}
	}
	return st
}
