//go:build verif
// +build verif

package operation

// VerifResetCaches forgets the process-global volume location cache (the
// simulation harness runs many independent clusters in one process).
func VerifResetCaches() { vc = VidCache{} }
