//go:build verif
// +build verif

package topology

import (
	"sort"

	"github.com/chrislusf/seaweedfs/weed/storage/types"
)

// Read-only accessors for the simulation harness (overlay-added; no behaviour).

type VerifCounts struct{ Volume, Remote, Active, EcShard, Max int64 }

// VerifNodeUsage returns the usage counters kept at a node, per disk type.
func VerifNodeUsage(n Node) map[string]VerifCounts {
	du := n.GetDiskUsages()
	du.RLock()
	defer du.RUnlock()
	out := map[string]VerifCounts{}
	for dt, c := range du.usages {
		out[string(dt)] = VerifCounts{c.volumeCount, c.remoteVolumeCount, c.activeVolumeCount, c.ecShardCount, c.maxVolumeCount}
	}
	return out
}

type VerifLayout struct {
	Collection, Rp, Ttl, DiskType string
	ReplicationAsMin              bool
	CopyCount                     int
	SizeLimit                     uint64
	Writables                     []uint32
	Locations                     map[uint32][]string // vid -> data node ids
}

// VerifLayouts lists every volume layout with its writable set and locations.
func (t *Topology) VerifLayouts() (out []VerifLayout) {
	for _, c := range t.collectionMap.Items() {
		col := c.(*Collection)
		for _, l := range col.storageType2VolumeLayout.Items() {
			vl := l.(*VolumeLayout)
			vl.accessLock.RLock()
			x := VerifLayout{Collection: col.Name, Rp: vl.rp.String(), Ttl: vl.ttl.String(), DiskType: string(vl.diskType), ReplicationAsMin: vl.replicationAsMin,
				CopyCount: vl.rp.GetCopyCount(), SizeLimit: vl.volumeSizeLimit, Locations: map[uint32][]string{}}
			for _, w := range vl.writables {
				x.Writables = append(x.Writables, uint32(w))
			}
			for vid, ll := range vl.vid2location {
				var ids []string
				for _, dn := range ll.list {
					ids = append(ids, string(dn.Id()))
				}
				sort.Strings(ids)
				x.Locations[uint32(vid)] = ids
			}
			vl.accessLock.RUnlock()
			out = append(out, x)
		}
	}
	sort.Slice(out, func(i, j int) bool {
		a, b := out[i], out[j]
		return a.Collection+"/"+a.Rp+"/"+a.Ttl+"/"+a.DiskType < b.Collection+"/"+b.Rp+"/"+b.Ttl+"/"+b.DiskType
	})
	return
}

// VerifEcLocations lists, per EC volume, the data node ids holding each shard id.
func (t *Topology) VerifEcLocations() map[uint32]map[int][]string {
	t.ecShardMapLock.RLock()
	defer t.ecShardMapLock.RUnlock()
	out := map[uint32]map[int][]string{}
	for vid, locs := range t.ecShardMap {
		m := map[int][]string{}
		for sid, dns := range locs.Locations {
			for _, dn := range dns {
				m[sid] = append(m[sid], string(dn.Id()))
			}
			sort.Strings(m[sid])
		}
		out[uint32(vid)] = m
	}
	return out
}

var _ = types.HardDriveType
