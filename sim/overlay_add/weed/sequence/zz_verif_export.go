//go:build verif
// +build verif

package sequence

import (
	"fmt"

	"go.etcd.io/etcd/client"
)

// VerifNewEtcdSequencer is NewEtcdSequencer with the etcd KeysAPI supplied by
// the simulation harness instead of dialled (overlay-added; same steps otherwise).
func VerifNewEtcdSequencer(keysApi client.KeysAPI, metaFolder string) (*EtcdSequencer, error) {
	file, err := openSequenceFile(metaFolder + "/" + SequencerFileName)
	if nil != err {
		return nil, fmt.Errorf("open sequence file fialed, %v", err)
	}
	maxValue, _, err := readSequenceFile(file)
	if err != nil {
		return nil, fmt.Errorf("read sequence from file failed, %v", err)
	}
	newSeq, err := setMaxSequenceToEtcd(keysApi, maxValue)
	if err != nil {
		return nil, err
	}
	return &EtcdSequencer{maxSeqId: newSeq, currentSeqId: newSeq, keysAPI: keysApi, seqFile: file}, nil
}
