//go:build verif
// +build verif

package filer

import (
	"context"
	"time"

	"google.golang.org/grpc"

	"github.com/chrislusf/seaweedfs/weed/pb/filer_pb"
	"github.com/chrislusf/seaweedfs/weed/util"
	"github.com/chrislusf/seaweedfs/weed/util/log_buffer"
	"github.com/chrislusf/seaweedfs/weed/wdclient"
)

// VerifNewFiler is NewFiler(masters, grpcDialOption, "", 0, "", "", "", notifyFn)
// with two differences, both about things that need a master: the metadata
// log buffer flushes to flushFn instead of f.logFlushFunc (which uploads the
// segment and retries forever without a master), and the background
// goroutine loopProcessingDeletion is not started (the harness starts it with
// VerifLoopProcessingDeletion when a run wants it). Field for field the same
// struct as NewFiler builds; no behaviour of its own.
func VerifNewFiler(masters []string, grpcDialOption grpc.DialOption, flushFn func(startTime, stopTime time.Time, buf []byte), notifyFn func()) *Filer {
	f := &Filer{
		MasterClient:        wdclient.NewMasterClient(grpcDialOption, "filer", "", 0, "", masters),
		fileIdDeletionQueue: util.NewUnboundedQueue(),
		GrpcDialOption:      grpcDialOption,
		FilerConf:           NewFilerConf(),
	}
	f.LocalMetaLogBuffer = log_buffer.NewLogBuffer("local", LogFlushInterval, flushFn, notifyFn)
	return f
}

// VerifLoopProcessingDeletion runs the filer's own background deletion loop (never returns).
func (f *Filer) VerifLoopProcessingDeletion() { f.loopProcessingDeletion() }

// VerifDrainDeletionQueue hands the file ids currently waiting in the
// filer's chunk deletion queue to the caller (the same Consume call the
// background loop loopProcessingDeletion makes) and returns them.
func (f *Filer) VerifDrainDeletionQueue() (fileIds []string) {
	f.fileIdDeletionQueue.Consume(func(ids []string) {
		fileIds = append(fileIds, ids...)
	})
	return
}

// VerifFilerForLogBuffer wraps an existing log buffer in a Filer value so that the
// real logMetaEvent (marshal the event with its timestamp, append it to the local
// meta log) can be driven without a store.
func VerifFilerForLogBuffer(lb *log_buffer.LogBuffer) *Filer { return &Filer{LocalMetaLogBuffer: lb} }

// VerifLogMetaEvent is logMetaEvent.
func (f *Filer) VerifLogMetaEvent(fullpath string, ev *filer_pb.EventNotification) {
	f.logMetaEvent(context.Background(), fullpath, ev)
}
