//go:build verif
// +build verif

package wdclient

// Thin wrappers for the simulation harness: apply one volume-location
// notification to the client's location cache, as tryConnectToMaster does.
func (mc *MasterClient) VerifAdd(vid uint32, loc Location)    { mc.addLocation(vid, loc) }
func (mc *MasterClient) VerifDelete(vid uint32, loc Location) { mc.deleteLocation(vid, loc) }
