//go:build verif
// +build verif

package command

import (
	"github.com/chrislusf/seaweedfs/weed/pb/filer_pb"
	"github.com/chrislusf/seaweedfs/weed/replication/sink"
)

// VerifGenProcessFunction exposes genProcessFunction, the event-processing
// function shared by filer.sync and filer.backup (alias, no behaviour).
func VerifGenProcessFunction(sourcePath string, targetPath string, dataSink sink.ReplicationSink, debug bool) func(resp *filer_pb.SubscribeMetadataResponse) error {
	return genProcessFunction(sourcePath, targetPath, dataSink, debug)
}
