//go:build verif
// +build verif

package weed_server

import "github.com/chrislusf/seaweedfs/weed/pb/master_pb"

// VerifAddClientChan registers a KeepConnected client's location channel the
// way addClient does, with a channel the harness owns (an unbuffered channel
// stands for a client whose 100-message buffer is full: SendHeartbeat parks
// in its broadcast until the harness receives).
func (ms *MasterServer) VerifAddClientChan(name string, ch chan *master_pb.VolumeLocation) {
	ms.clientChansLock.Lock()
	ms.clientChans[name] = ch
	ms.clientChansLock.Unlock()
}
