//go:build verif
// +build verif

package weed_server

import (
	"sync"

	"github.com/chrislusf/seaweedfs/weed/filer"
)

// VerifNewFilerServer builds a FilerServer around an existing Filer without
// listeners, master connection or configuration loading: only the fields the
// gRPC handler methods (CreateEntry, UpdateEntry, DeleteEntry,
// AtomicRenameEntry, ListEntries, AppendToEntry ...) read are set, exactly as
// NewFilerServer sets them. No behaviour of its own.
func VerifNewFilerServer(f *filer.Filer, option *FilerOption) *FilerServer {
	fs := &FilerServer{
		option:                option,
		filer:                 f,
		brokers:               make(map[string]map[string]bool),
		inFlightDataLimitCond: sync.NewCond(new(sync.Mutex)),
	}
	fs.listenersCond = sync.NewCond(&fs.listenersLock)
	return fs
}
