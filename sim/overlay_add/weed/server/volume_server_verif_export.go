//go:build verif
// +build verif

package weed_server

import (
	"net/http"
	"sync"

	"github.com/chrislusf/seaweedfs/weed/security"
	"github.com/chrislusf/seaweedfs/weed/storage"
)

// VerifNewVolumeServer builds a VolumeServer around an existing Store without
// listeners, heartbeat or metrics: only the fields the HTTP handlers read are
// set, as NewVolumeServer sets them (no white list, no signing keys, reads of
// volumes that are not local answer 404). No behaviour of its own.
func VerifNewVolumeServer(store *storage.Store) *VolumeServer {
	return &VolumeServer{
		store:                 store,
		guard:                 security.NewGuard(nil, "", 0, "", 0),
		ReadMode:              "local",
		inFlightDataLimitCond: sync.NewCond(new(sync.Mutex)),
		fileSizeLimitBytes:    256 * 1024 * 1024,
	}
}

// VerifPrivateHandler is the handler NewVolumeServer registers on the admin mux for "/".
func (vs *VolumeServer) VerifPrivateHandler(w http.ResponseWriter, r *http.Request) {
	vs.privateStoreHandler(w, r)
}
