//go:build verif
// +build verif

// Export shims for the mountsim engine (overlay-added, never part of /repo).
// Constructors and thin wrappers only: every wrapper calls the unmodified
// method of /repo with the FUSE request structure the FUSE server would have
// built.
package filesys

import (
	"context"

	"github.com/seaweedfs/fuse"

	"github.com/chrislusf/seaweedfs/weed/pb/filer_pb"
	"github.com/chrislusf/seaweedfs/weed/util"
	"github.com/chrislusf/seaweedfs/weed/util/chunk_cache"
)

// VerifNewWFS builds a WFS without the parts of NewSeaweedFileSystem that
// need a filer (meta cache subscription) or a FUSE server: the option, the
// handle table, the temp-page directory, the root directory node, the writer
// limiter (same expression as NewSeaweedFileSystem) and an optional chunk cache.
func VerifNewWFS(option *Option, chunkCache *chunk_cache.TieredChunkCache) *WFS {
	wfs := &WFS{
		option:     option,
		handles:    make(map[uint64]*FileHandle),
		signature:  1,
		chunkCache: chunkCache,
	}
	wfs.option.setupUniqueCacheDirectory()
	wfs.root = &Dir{name: wfs.option.FilerMountRootPath, wfs: wfs, id: 1}
	if wfs.option.ConcurrentWriters > 0 {
		wfs.concurrentWriters = util.NewLimitedConcurrentExecutor(wfs.option.ConcurrentWriters)
	}
	return wfs
}

// VerifCreate is open(name, O_CREAT|O_RDWR) on the mount root: the real Dir.Create.
func (wfs *WFS) VerifCreate(name string) (*File, *FileHandle, error) {
	node, handle, err := wfs.root.(*Dir).Create(context.Background(),
		&fuse.CreateRequest{Name: name, Flags: fuse.OpenReadWrite | fuse.OpenCreate, Mode: 0644}, &fuse.CreateResponse{})
	if err != nil {
		return nil, nil, err
	}
	return node.(*File), handle.(*FileHandle), nil
}

func (wfs *WFS) VerifChunkCache() *chunk_cache.TieredChunkCache { return wfs.chunkCache }

// VerifUseContinuousDirtyPages selects the in-memory buffer (the alternative
// that newFileHandle keeps as a commented-out line) instead of the temp-file one.
func (fh *FileHandle) VerifUseContinuousDirtyPages() {
	fh.dirtyPages = newContinuousDirtyPages(fh.f, fh.dirtyPages.GetWriteOnly())
}

func (fh *FileHandle) VerifDirtyPagesKind() string {
	switch fh.dirtyPages.(type) {
	case *ContinuousDirtyPages:
		return "mem"
	case *TempFileDirtyPages:
		return "tmp"
	}
	return "?"
}

func (fh *FileHandle) VerifWrite(offset int64, data []byte) (int, error) {
	resp := &fuse.WriteResponse{}
	err := fh.Write(context.Background(), &fuse.WriteRequest{Offset: offset, Data: data}, resp)
	return resp.Size, err
}

// VerifRead hands Read the response buffer the FUSE server allocates (fs/serve.go: make([]byte, 0, r.Size)).
func (fh *FileHandle) VerifRead(offset int64, size int) ([]byte, error) {
	resp := &fuse.ReadResponse{Data: make([]byte, 0, size)}
	err := fh.Read(context.Background(), &fuse.ReadRequest{Offset: offset, Size: size}, resp)
	return resp.Data, err
}

// VerifFlushData is the first leg of FileHandle.doFlush (under the handle
// lock, as Flush takes it): push the dirty pages out and wait for the uploads.
func (fh *FileHandle) VerifFlushData() error {
	fh.Lock()
	defer fh.Unlock()
	return fh.dirtyPages.FlushData()
}

// VerifTruncate is ftruncate/truncate on the open file: the real File.Setattr with the size bit.
func (file *File) VerifTruncate(size uint64) error {
	return file.Setattr(context.Background(), &fuse.SetattrRequest{Valid: fuse.SetattrSize, Size: size}, &fuse.SetattrResponse{})
}

func (file *File) VerifEntry() *filer_pb.Entry { return file.entry }
