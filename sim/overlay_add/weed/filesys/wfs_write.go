//go:build verif
// +build verif

// This file REPLACES /repo/weed/filesys/wfs_write.go in the simulation build
// (the driver maps every file under overlay_add onto the same path under
// /repo; a file of the same name substitutes the original).
//
// The original file holds exactly one function, (*WFS).saveDataAsChunk: ask
// the filer for a file id over gRPC, upload the bytes to a volume server over
// HTTP, return the chunk. It is a method, so it cannot be redirected by an
// added alias; and its two network legs cannot run without sockets
// (pb.GrpcDial has no dial-option seam that the mount option could use).
// It is therefore the one stubbed component of the mountsim engine: the
// harness installs VerifSaveDataAsChunk and decides when each upload
// completes and whether it fails. Everything that calls saveDataAsChunk
// (dirty pages, file handle) is the unmodified code of /repo.
package filesys

import (
	"fmt"
	"io"

	"github.com/chrislusf/seaweedfs/weed/filer"
	"github.com/chrislusf/seaweedfs/weed/pb/filer_pb"
	"github.com/chrislusf/seaweedfs/weed/util"
)

// VerifSaveDataAsChunk is the injected chunk saver of the simulation build.
var VerifSaveDataAsChunk func(wfs *WFS, fullPath util.FullPath, writeOnly bool) filer.SaveDataAsChunkFunctionType

func (wfs *WFS) saveDataAsChunk(fullPath util.FullPath, writeOnly bool) filer.SaveDataAsChunkFunctionType {
	if f := VerifSaveDataAsChunk; f != nil {
		return f(wfs, fullPath, writeOnly)
	}
	return func(reader io.Reader, filename string, offset int64) (chunk *filer_pb.FileChunk, collection, replication string, err error) {
		return nil, "", "", fmt.Errorf("verif build: no chunk saver installed (weed/filesys/wfs_write.go is replaced by the simulation overlay)")
	}
}
