//go:build verif
// +build verif

package erasure_coding

// Export shims for the deterministic-simulation harness (overlay-added file,
// never part of /repo). Thin wrappers only: the encoder takes its block sizes
// as parameters, but only the variants fixed to 1GB/1MB are exported.

// VerifGenerateEcFiles is generateEcFiles: .dat -> .ec00 ~ .ec13 with the given block sizes.
func VerifGenerateEcFiles(baseFileName string, bufferSize int, largeBlockSize int64, smallBlockSize int64) error {
	return generateEcFiles(baseFileName, bufferSize, largeBlockSize, smallBlockSize)
}

// VerifGenerateMissingEcFiles is generateMissingEcFiles (what RebuildEcFiles calls).
func VerifGenerateMissingEcFiles(baseFileName string, bufferSize int, largeBlockSize int64, smallBlockSize int64) ([]uint32, error) {
	return generateMissingEcFiles(baseFileName, bufferSize, largeBlockSize, smallBlockSize)
}
