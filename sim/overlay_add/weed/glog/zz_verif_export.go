//go:build verif
// +build verif

package glog

// VerifConfigure sets what the -logtostderr and -v flags would set (the flags
// themselves are not reachable in a test binary built by the harness).
func VerifConfigure(toStderr bool, verbosity int32) {
	logging.mu.Lock()
	logging.toStderr = toStderr
	logging.mu.Unlock()
	logging.verbosity.set(Level(verbosity))
}
