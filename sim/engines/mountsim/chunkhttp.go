// Package mountsim drives the mount-side write buffering (real FileHandle /
// File / dirty pages of weed/filesys with an injected chunk saver whose
// completions the plan schedules) and the real TieredChunkCache on a per-run
// directory.
package mountsim

import (
	"bytes"
	"fmt"
	"io"
	"net/http"
	"strconv"
	"strings"
	"sync"

	"github.com/chrislusf/seaweedfs/weed/util"
)

// chunkStore is what the "volume servers" of one run hold: the bytes captured
// by the injected saver, by file id. It is served to the SUT's chunk reader
// (filer.ChunkReadAt -> fetchChunk -> util.ReadUrlAsStream) through an
// alternate round tripper registered for "http" on util.Transport: no socket
// is ever opened.
type chunkStore struct {
	mu     sync.Mutex
	chunks map[string][]byte
	gets   int
}

func (cs *chunkStore) put(fid string, data []byte) {
	cs.mu.Lock()
	cs.chunks[fid] = data
	cs.mu.Unlock()
}

func (cs *chunkStore) get(fid string) ([]byte, bool) {
	cs.mu.Lock()
	defer cs.mu.Unlock()
	d, ok := cs.chunks[fid]
	return d, ok
}

var (
	rtOnce   sync.Once
	rtMu     sync.Mutex
	rtActive *chunkStore
)

type chunkRT struct{}

func installChunkHTTP(cs *chunkStore) {
	rtOnce.Do(func() { util.Transport.RegisterProtocol("http", chunkRT{}) })
	rtMu.Lock()
	rtActive = cs
	rtMu.Unlock()
}

func (chunkRT) RoundTrip(req *http.Request) (*http.Response, error) {
	rtMu.Lock()
	cs := rtActive
	rtMu.Unlock()
	resp := func(code int, body []byte, hdr http.Header) *http.Response {
		if hdr == nil {
			hdr = http.Header{}
		}
		return &http.Response{StatusCode: code, Status: fmt.Sprintf("%d %s", code, http.StatusText(code)), Proto: "HTTP/1.1", ProtoMajor: 1, ProtoMinor: 1,
			Header: hdr, Body: io.NopCloser(bytes.NewReader(body)), ContentLength: int64(len(body)), Request: req}
	}
	if cs == nil {
		return resp(503, nil, nil), nil
	}
	// filerProxy access mode: http://<filer>/?proxyChunkId=<fid>?readDeleted=true
	fid := req.URL.Query().Get("proxyChunkId")
	if i := strings.Index(fid, "?"); i >= 0 {
		fid = fid[:i]
	}
	if fid == "" {
		fid = strings.TrimPrefix(req.URL.Path, "/")
	}
	data, ok := cs.get(fid)
	cs.mu.Lock()
	cs.gets++
	cs.mu.Unlock()
	if !ok {
		return resp(404, nil, nil), nil
	}
	if rg := req.Header.Get("Range"); strings.HasPrefix(rg, "bytes=") {
		parts := strings.SplitN(strings.TrimPrefix(rg, "bytes="), "-", 2)
		from, _ := strconv.ParseInt(parts[0], 10, 64)
		to := int64(len(data)) - 1
		if len(parts) == 2 && parts[1] != "" {
			to, _ = strconv.ParseInt(parts[1], 10, 64)
		}
		if to >= int64(len(data)) {
			to = int64(len(data)) - 1
		}
		if from > to || from < 0 {
			return resp(416, nil, nil), nil
		}
		return resp(206, data[from:to+1], nil), nil
	}
	return resp(200, data, nil), nil
}
