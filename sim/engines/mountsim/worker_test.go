//go:debug randseednop=0
package mountsim

import (
	"testing"

	"verifsim/simkit"
)

func TestWorker(t *testing.T) { simkit.WorkerMain(t) }
