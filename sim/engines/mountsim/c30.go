package mountsim

import (
	"crypto/md5"
	"encoding/base64"
	"errors"
	"fmt"
	"io"
	"math"
	"os"
	"path/filepath"
	"runtime/debug"
	"sort"
	"strings"
	"sync"

	"verifsim/simkit"

	"github.com/chrislusf/seaweedfs/weed/filer"
	"github.com/chrislusf/seaweedfs/weed/filesys"
	"github.com/chrislusf/seaweedfs/weed/operation"
	"github.com/chrislusf/seaweedfs/weed/pb/filer_pb"
	"github.com/chrislusf/seaweedfs/weed/util"
	"github.com/chrislusf/seaweedfs/weed/util/chunk_cache"
)

// C30 — mount write buffering preserves POSIX byte semantics.
//
// Real: filesys.Dir.Create, FileHandle.Write/Read, File.Setattr (truncate),
// ContinuousDirtyPages / TempFileDirtyPages, File.addChunks, filer chunk
// resolution (NonOverlappingVisibleIntervals, ViewFromVisibleIntervals,
// CompactFileChunks), filer.ChunkReadAt + fetchChunk + util.ReadUrlAsStream.
// Stub: the chunk saver (assign + upload): it captures the bytes, parks, and
// completes when the plan says so, successfully or with an error.

func init() {
	simkit.Register(&simkit.Prop{ID: "C30", Gen: genC30, Exec: execC30, Shrink: shrinkC30})
}

// byte states of the reference model
const (
	stHole     = iota // never written (zero by extension)
	stDirty           // written, not yet handed to the saver
	stInflight        // handed to the saver, upload not completed
	stUploaded        // upload completed successfully
	stLost            // upload failed (injected): value unconstrained until rewritten
)

var stName = []string{"hole", "dirty", "inflight", "uploaded", "lost"}

type verdict struct {
	fail bool
	fid  string
}

type upload struct {
	id          int
	offset      int64
	data        []byte
	arrival     int
	ch          chan verdict
	writesAtAbs int
	late        bool
	doneOrd     int
}

type sess30 struct {
	r     *simkit.Run
	kind  string
	limit int64
	wfs   *filesys.WFS
	file  *filesys.File
	fh    *filesys.FileHandle
	cs    *chunkStore
	cache *chunk_cache.TieredChunkCache

	mu       sync.Mutex
	arrivals []*upload
	arrSeq   int

	parked  []*upload
	uploads map[int]*upload
	nextUp  int

	model []byte
	prev  []byte  // value of the byte before its last write
	st    []uint8 // state of the latest value
	up    []int32 // upload carrying the latest value
	fl    []bool  // latest value covered by a flush that reported success
	big   []bool  // latest value came from a write request larger than 512 bytes (not copied by FileHandle.Write)
	drop  []bool  // a chunk holding this byte's latest value was removed from the entry by a shrinking truncate although it lies below the new size
	inbuf []bool  // the dirty-page buffer still holds this byte's latest value
	ghost []uint8 // grow-only, by position: a shrinking truncate left buffered (1) or in-flight (2) data at this position beyond the new size

	deferReads bool
	viewCached bool // a read went through the chunk path while the entry had chunks: the handle now holds a chunk view
	viewOrd    int  // value of doneOrd when the view was cached
	viewSize   int  // model size when the view was cached
	viewTruncs int
	doneOrd    int

	faults      bool
	scribble    bool
	writes      int
	truncs      int
	everFailed  bool
	pendingFail bool
	flushesOK   int
	lastEnd     int64
	stepRng     *simkit.Rand
	failPermil  int
	curStep     string
}

func execC30(r *simkit.Run) {
	p := r.Plan
	s := &sess30{r: r, limit: p.C("limit"), uploads: map[int]*upload{}, cs: &chunkStore{chunks: map[string][]byte{}}}
	if s.limit <= 0 {
		s.limit = 16
	}
	s.kind = "tmp"
	if p.C("kind") == 1 {
		s.kind = "mem"
	}
	s.faults = p.C("faults") == 1
	s.scribble = p.C("scribble") == 1
	s.deferReads = p.C("defer") == 1
	r.Res.FaultConfig = s.faults
	installChunkHTTP(s.cs)
	defer installChunkHTTP(nil)

	if p.C("cache") == 1 {
		dir := filepath.Join(r.Dir, "chunkcache")
		_ = os.MkdirAll(dir, 0755)
		s.cache = chunk_cache.NewTieredChunkCache(256, dir, 2, 1024*1024)
		defer s.cache.Shutdown()
	}
	opt := &filesys.Option{
		MountDirectory:     "/mnt/sim",
		FilerAddresses:     []string{"filer.sim:8888"},
		FilerGrpcAddresses: []string{"filer.sim:18888"},
		FilerMountRootPath: "/",
		ChunkSizeLimit:     s.limit,
		ConcurrentWriters:  int(p.C("cw")),
		CacheDir:           filepath.Join(r.Dir, "mnt"),
		VolumeServerAccess: "filerProxy", // chunk URLs are built without a volume lookup RPC
	}
	s.wfs = filesys.VerifNewWFS(opt, s.cache)
	filesys.VerifSaveDataAsChunk = s.saver
	defer func() { filesys.VerifSaveDataAsChunk = nil }()
	// whatever happens, never leave saver goroutines parked on an unbuffered send forever without a verdict:
	// they are blocked on channels of this bubble and die with it.

	f, fh, err := s.wfs.VerifCreate("f.bin")
	if err != nil {
		r.HarnessError("create: %v", err)
		return
	}
	s.file, s.fh = f, fh
	if s.kind == "mem" {
		fh.VerifUseContinuousDirtyPages()
	}
	if got := fh.VerifDirtyPagesKind(); got != s.kind {
		r.HarnessError("dirty pages kind %s, want %s", got, s.kind)
		return
	}
	r.Log("C30 kind=%s limit=%d cw=%d faults=%v scribble=%v cache=%v defer=%v", s.kind, s.limit, p.C("cw"), s.faults, s.scribble, s.cache != nil, s.deferReads)
	r.Abs("k:" + s.kind)

	for i := range p.Steps {
		st := &p.Steps[i]
		s.stepRng = simkit.StepRand(st, 7)
		s.failPermil = 0
		if s.faults {
			s.failPermil = int(st.Int("fail"))
		}
		s.curStep = st.Kind
		switch st.Kind {
		case "w":
			s.write(st)
		case "r":
			if s.deferReads && (len(s.parked) > 0 || len(s.file.VerifEntry().Chunks) > 0) {
				// "deferred reads" configuration: no read through the handle once chunks exist or uploads are in flight
				// (keeps the known stale-chunk-view / read-during-upload defects from ending the run); the final read still checks everything
				r.Count("reads-deferred")
				continue
			}
			s.read(st.Int("off"), int(st.Int("len")), "r")
		case "u":
			s.releaseSome(int(st.Int("n")))
		case "f":
			s.flush()
		case "t":
			s.truncate(st.Int("size"))
		}
		if r.Violated() || r.Res.HarnessError != "" {
			s.drain()
			return
		}
	}
	// end of run: every pending upload completes, the file is flushed and read back in full
	s.failPermil = 0
	s.stepRng = simkit.NewRand(simkit.Mix(p.Seed, 99))
	s.curStep = "final"
	s.flush()
	if !r.Violated() {
		s.read(0, len(s.model)+8, "final")
	}
	s.drain()
}

// ---------------------------------------------------------------- saver (stub of wfs.saveDataAsChunk)

func (s *sess30) saver(wfs *filesys.WFS, fullPath util.FullPath, writeOnly bool) filer.SaveDataAsChunkFunctionType {
	return func(reader io.Reader, filename string, offset int64) (*filer_pb.FileChunk, string, string, error) {
		data, rerr := io.ReadAll(reader)
		if rerr != nil {
			return nil, "", "", fmt.Errorf("read upload body: %v", rerr)
		}
		u := &upload{offset: offset, data: data, ch: make(chan verdict)}
		s.mu.Lock()
		s.arrSeq++
		u.arrival = s.arrSeq
		s.arrivals = append(s.arrivals, u)
		s.mu.Unlock()
		v := <-u.ch // parked until the root goroutine decides
		if v.fail {
			return nil, "", "", errors.New("upload data: injected failure")
		}
		if !writeOnly {
			wfs.VerifChunkCache().SetChunk(v.fid, data) // as the real saver does
		}
		sum := md5.Sum(data)
		res := &operation.UploadResult{Name: filename, Size: uint32(len(data)), ContentMd5: base64.StdEncoding.EncodeToString(sum[:])}
		// the real saver ends with uploadResult.ToPbFileChunk(fileId, offset), which stamps Mtime = time.Now() at completion
		return res.ToPbFileChunk(v.fid, offset), "", "", nil
	}
}

// absorb registers the uploads that reached the saver since the last quiescence, in a canonical order.
func (s *sess30) absorb() {
	s.mu.Lock()
	arr := s.arrivals
	s.arrivals = nil
	s.mu.Unlock()
	if len(arr) == 0 {
		return
	}
	sort.SliceStable(arr, func(i, j int) bool {
		a, b := arr[i], arr[j]
		if a.offset != b.offset {
			return a.offset < b.offset
		}
		if len(a.data) != len(b.data) {
			return len(a.data) < len(b.data)
		}
		ha, hb := simkit.HashString(string(a.data)), simkit.HashString(string(b.data))
		if ha != hb {
			return ha < hb
		}
		return a.arrival < b.arrival
	})
	for _, u := range arr {
		s.nextUp++
		u.id = s.nextUp
		u.writesAtAbs = s.writes
		s.uploads[u.id] = u
		s.parked = append(s.parked, u)
		for i := u.offset; i < u.offset+int64(len(u.data)) && i < int64(len(s.model)); i++ {
			if i < 0 || u.data[i-u.offset] != s.model[i] {
				continue // an older value of this byte (e.g. pages flushed ahead of a write larger than the chunk limit)
			}
			// this upload carries the byte's latest value
			if s.st[i] == stDirty || s.st[i] == stLost {
				s.st[i] = stInflight
				s.up[i] = int32(u.id)
			}
			if s.kind == "mem" {
				s.inbuf[i] = false // the in-memory buffer hands the page over when the upload starts
			}
		}
		s.r.Log("UP-START id=%d [%d,%d) h=%x", u.id, u.offset, u.offset+int64(len(u.data)), simkit.HashString(string(u.data))&0xffffff)
		s.r.Probe("upload-started")
		if int64(len(u.data)) > s.limit {
			s.r.Probe("upload-larger-than-chunk-limit")
		}
	}
}

func (s *sess30) release(idx int, fail bool) {
	u := s.parked[idx]
	s.parked = append(s.parked[:idx], s.parked[idx+1:]...)
	late := s.writes > u.writesAtAbs
	u.late = late
	s.doneOrd++
	u.doneOrd = s.doneOrd
	if late {
		s.r.Probe("upload-completed-after-later-write")
	}
	v := verdict{fail: fail}
	newState := uint8(stUploaded)
	if fail {
		s.r.Fault("saver-failure")
		s.r.Probe("saver-failure")
		s.everFailed, s.pendingFail = true, true
		newState = stLost
	} else {
		// unique fake file id: volume 1..3, needle key = upload id, cookie from the data
		v.fid = fmt.Sprintf("%d,%x%08x", 1+u.id%3, u.id, uint32(simkit.HashString(string(u.data)))|1)
		s.cs.put(v.fid, u.data)
		s.r.NonTrivial()
		s.r.Count("uploads-completed")
	}
	for i := u.offset; i < u.offset+int64(len(u.data)) && i < int64(len(s.model)); i++ {
		if i >= 0 && s.up[i] == int32(u.id) && s.st[i] == stInflight {
			s.st[i] = newState
		}
	}
	// (file ids and chunk mtimes never reach the log: two uploads of identical bytes started between two quiescent points are
	// told apart only by the scheduler's arrival order, and are interchangeable in everything but those labels)
	s.r.Log("UP-DONE id=%d fail=%v late=%v", u.id, fail, late)
	s.r.Abs(fmt.Sprintf("up:%v:%v", fail, late))
	u.ch <- v
	simkit.Wait()
}

func (s *sess30) pickRelease() {
	idx := s.stepRng.Intn(len(s.parked))
	fail := s.failPermil > 0 && s.stepRng.Intn(1000) < s.failPermil
	s.release(idx, fail)
}

// drain lets every parked saver finish so that no goroutine of this run outlives it needlessly.
func (s *sess30) drain() {
	for guard := 0; guard < 10000; guard++ {
		simkit.Wait()
		s.mu.Lock()
		arr := s.arrivals
		s.arrivals = nil
		s.mu.Unlock()
		all := append(s.parked, arr...)
		s.parked = nil
		if len(all) == 0 {
			return
		}
		for _, u := range all {
			u.ch <- verdict{fail: true}
		}
	}
}

// pump runs one SUT call in its own goroutine and, while it is blocked
// (writer limit reached, flush waiting for uploads), completes parked uploads
// in the order the plan's stream chooses. It reports whether the call returned.
func (s *sess30) pump(what string, op func()) bool {
	done := make(chan struct{})
	var pv interface{}
	var stack string
	go func() {
		defer close(done)
		defer func() {
			if p := recover(); p != nil {
				pv, stack = p, string(debug.Stack())
			}
		}()
		op()
	}()
	for iter := 0; ; iter++ {
		simkit.Wait()
		s.absorb()
		select {
		case <-done:
			if pv != nil {
				s.r.Violate("sut-panic", s.kind+"/"+what+"/"+sutFrame(stack), "panic in %s: %v", what, pv)
				s.r.Log("STACK %s", firstLines(stack, 30))
				return false
			}
			return true
		default:
		}
		if len(s.parked) == 0 {
			s.r.Violate("operation-hangs", s.kind+"/"+what, "%s is blocked and no upload is pending: nothing can ever wake it", what)
			return false
		}
		if iter == 0 {
			s.r.Probe(what + "-blocked-until-upload-completes")
		}
		s.pickRelease()
	}
}

func sutFrame(stack string) string {
	for _, l := range strings.Split(stack, "\n") {
		l = strings.TrimSpace(l)
		if strings.HasPrefix(l, "github.com/chrislusf/seaweedfs/weed/") && !strings.Contains(l, "/weed/verif.") {
			if k := strings.LastIndex(l, "("); k > 0 {
				l = l[:k]
			}
			return strings.TrimPrefix(l, "github.com/chrislusf/seaweedfs/")
		}
	}
	return "?"
}

func firstLines(s string, n int) string {
	parts := strings.SplitN(s, "\n", n+1)
	if len(parts) > n {
		parts = parts[:n]
	}
	return strings.Join(parts, "\n")
}

// ---------------------------------------------------------------- model

func (s *sess30) resize(n int) {
	if n <= len(s.model) {
		s.model, s.prev, s.st, s.up, s.fl, s.big, s.drop, s.inbuf = s.model[:n], s.prev[:n], s.st[:n], s.up[:n], s.fl[:n], s.big[:n], s.drop[:n], s.inbuf[:n]
		return
	}
	add := n - len(s.model)
	s.model = append(s.model, make([]byte, add)...)
	s.prev = append(s.prev, make([]byte, add)...)
	s.st = append(s.st, make([]uint8, add)...)
	s.up = append(s.up, make([]int32, add)...)
	s.fl = append(s.fl, make([]bool, add)...)
	s.big = append(s.big, make([]bool, add)...)
	s.drop = append(s.drop, make([]bool, add)...)
	s.inbuf = append(s.inbuf, make([]bool, add)...)
	if n > len(s.ghost) {
		s.ghost = append(s.ghost, make([]uint8, n-len(s.ghost))...)
	}
}

func payload(st *simkit.Step, n int) []byte {
	b := simkit.StepRand(st, 1).Bytes(n)
	for i := range b {
		b[i] = 1 + b[i]%255 // never zero: a hole and data are told apart
	}
	return b
}

// ---------------------------------------------------------------- steps

func (s *sess30) write(st *simkit.Step) {
	off, n := st.Int("off"), int(st.Int("len"))
	if n <= 0 || off < 0 {
		return
	}
	data := payload(st, n)
	end := off + int64(n)
	overlap := false
	for i := off; i < end && i < int64(len(s.model)); i++ {
		if s.st[i] != stHole {
			overlap = true
			break
		}
	}
	if overlap {
		s.r.Probe("overlapping-write")
	}
	if s.writes > 0 && off < s.lastEnd {
		s.r.Probe("out-of-order-write")
	}
	if off > int64(len(s.model)) {
		s.r.Probe("write-past-eof-leaves-hole")
	}
	if int64(n) > s.limit {
		s.r.Probe("write-larger-than-chunk-limit")
	}
	// the write is issued: the model takes it before the SUT call, because uploads started inside the call already carry its bytes
	if int(end) > len(s.model) {
		s.resize(int(end))
	}
	for i := 0; i < n; i++ {
		p := off + int64(i)
		s.prev[p] = s.model[p]
		s.model[p] = data[i]
		s.st[p], s.up[p], s.fl[p], s.big[p], s.drop[p] = stDirty, 0, false, n > 512, false
		s.ghost[p] = 0
		s.inbuf[p] = true
	}
	s.writes++
	s.lastEnd = end
	buf := append([]byte{}, data...)
	var wn int
	var werr error
	s.r.Log("W [%d,%d) h=%x", off, end, simkit.HashString(string(data))&0xffffff)
	if !s.pump("write", func() { wn, werr = s.fh.VerifWrite(off, buf) }) {
		return
	}
	if werr != nil || wn != n {
		s.r.Violate("write-error", s.kind+"/write", "write [%d,%d) returned n=%d err=%v", off, end, wn, werr)
		return
	}
	if s.scribble {
		// the FUSE server returns the request buffer to its pool when the request is answered; the next request overwrites it
		for i := range buf {
			buf[i] = 0xEE
		}
		if n > 512 {
			s.r.Probe("request-buffer-reused-after-large-write")
		}
	}
	s.r.Abs(fmt.Sprintf("w:%v:%v:%d", int64(n) > s.limit, overlap, len(s.parked)))
}

func (s *sess30) releaseSome(n int) {
	s.absorb()
	done := 0
	for i := 0; i < n && len(s.parked) > 0; i++ {
		s.pickRelease()
		s.absorb()
		done++
	}
	s.r.Abs(fmt.Sprintf("u:%d", done))
}

func (s *sess30) truncate(size int64) {
	if size < 0 {
		return
	}
	var terr error
	old := len(s.model)
	s.r.Log("T size=%d (was %d)", size, old)
	kind := "extend"
	if int(size) < old {
		kind = "shrink"
	} else if int(size) == old {
		kind = "same"
	}
	s.r.Probe("truncate-" + kind)
	if kind == "shrink" {
		// what the buffer and the uploads in flight hold beyond the new end of file
		buffered, flying := false, false
		for p := int(size); p < old; p++ {
			if s.inbuf[p] {
				s.ghost[p] = 1
				buffered = true
			}
		}
		for _, u := range s.parked {
			for p := u.offset; p < u.offset+int64(len(u.data)); p++ {
				if p >= size && p >= 0 && int(p) < len(s.ghost) && s.ghost[p] == 0 {
					s.ghost[p] = 2
					flying = true
				}
			}
		}
		if buffered {
			s.r.Probe("shrink-with-buffered-data-beyond-new-size")
		}
		if flying {
			s.r.Probe("shrink-with-upload-in-flight-beyond-new-size")
		}
	}
	entry := s.file.VerifEntry()
	type span struct{ from, to int64 }
	before := map[string]span{}
	for _, c := range entry.Chunks {
		before[c.GetFileIdString()] = span{c.Offset, c.Offset + int64(c.Size)}
	}
	s.resize(int(size))
	if kind != "same" {
		s.truncs++
	}
	if !s.pump("truncate", func() { terr = s.file.VerifTruncate(uint64(size)) }) {
		return
	}
	if terr != nil {
		s.r.Violate("truncate-error", s.kind+"/truncate", "truncate to %d: %v", size, terr)
		return
	}
	// observe (not judge) which chunks the truncation removed from the entry although they hold bytes below the new size
	for _, c := range entry.Chunks {
		delete(before, c.GetFileIdString())
	}
	for _, sp := range before {
		for p := sp.from; p < sp.to && p < size; p++ {
			if p >= 0 && s.st[p] == stUploaded {
				s.drop[p] = true
			}
		}
		if sp.from < size {
			s.r.Probe("shrink-removed-chunk-below-new-size")
		}
	}
	s.r.NonTrivial()
	s.r.Abs("t:" + kind)
}

// viewStale: the handle computed its chunk view earlier and the chunk list / size changed since (nothing in FileHandle resets it)
func (s *sess30) viewStaleFor(pos int) bool {
	if !s.viewCached {
		return false
	}
	if pos >= 0 && pos < len(s.model) {
		switch s.st[pos] {
		case stUploaded:
			if u := s.uploads[int(s.up[pos])]; u != nil && u.doneOrd > s.viewOrd {
				return true
			}
		case stHole:
			return len(s.model) != s.viewSize || s.truncs != s.viewTruncs
		}
		return false
	}
	return len(s.model) != s.viewSize || s.truncs != s.viewTruncs
}

// ghostBeyond names what a shrinking truncate left beyond position from ("" if nothing).
func (s *sess30) ghostBeyond(from int) string {
	found := uint8(0)
	for p := from; p < len(s.ghost); p++ {
		if p >= 0 && s.ghost[p] != 0 && (found == 0 || s.ghost[p] < found) {
			found = s.ghost[p]
		}
	}
	switch found {
	case 1:
		return "truncate-kept-buffered-data-beyond-new-size"
	case 2:
		return "truncate-with-upload-in-flight-beyond-new-size"
	}
	return ""
}

// situation attributes a differing byte to the most specific circumstance the harness observed for it.
func (s *sess30) situation(pos int, got byte, viaHandle bool) string {
	k := s.kind + "/"
	switch {
	case s.scribble && s.kind == "mem" && s.big[pos]:
		// the in-memory buffer keeps a reference to the request's data (FileHandle.Write copies only requests of <= 512 bytes)
		return k + "request-buffer-reused-after-write-larger-than-512"
	case s.drop[pos]:
		return k + "truncate-removed-chunk-below-new-size"
	case s.ghost[pos] == 1:
		return k + "truncate-kept-buffered-data-beyond-new-size"
	case s.ghost[pos] == 2:
		return k + "truncate-with-upload-in-flight-beyond-new-size"
	case viaHandle && s.viewStaleFor(pos):
		return k + "chunk-view-cached-by-earlier-read"
	case viaHandle && s.st[pos] == stInflight:
		return k + "read-while-upload-in-flight"
	}
	k += stName[s.st[pos]]
	if s.st[pos] == stUploaded {
		if u := s.uploads[int(s.up[pos])]; u != nil && u.late {
			k += "/upload-completed-after-later-write"
		}
	}
	if s.truncs > 0 {
		k += "/after-truncate"
	}
	return k + "/" + s.gotKind(pos, got)
}

func (s *sess30) gotKind(pos int, got byte) string {
	switch {
	case got == 0:
		return "got-zero"
	case got == s.prev[pos] && s.prev[pos] != s.model[pos]:
		return "got-stale"
	}
	return "got-other"
}

func (s *sess30) read(off int64, n int, what string) {
	if n <= 0 || off < 0 {
		return
	}
	var got []byte
	var rerr error
	entry := s.file.VerifEntry()
	if !s.viewCached && len(entry.Chunks) > 0 && filer.FileSize(entry) > 0 {
		// this read computes the handle's chunk view (FileHandle.entryViewCache) and its reader
		s.viewCached, s.viewOrd, s.viewSize, s.viewTruncs = true, s.doneOrd, len(s.model), s.truncs
		s.r.Probe("handle-caches-chunk-view")
	}
	if !s.pump("read", func() { got, rerr = s.fh.VerifRead(off, n) }) {
		return
	}
	size := int64(len(s.model))
	want := []byte{}
	if off < size {
		e := off + int64(n)
		if e > size {
			e = size
		}
		want = s.model[off:e]
	}
	inflight := false
	for i := range want {
		if s.st[off+int64(i)] == stInflight {
			inflight = true
		}
	}
	if inflight {
		s.r.Probe("read-while-upload-in-flight")
	}
	s.r.Log("R%s [%d,%d) -> n=%d err=%v h=%x", what, off, off+int64(n), len(got), rerr, simkit.HashString(string(got))&0xffffff)
	class := func(pos int64) string {
		if pos < size && pos >= 0 && s.fl[pos] {
			return "read-differs-after-flush"
		}
		if s.flushesOK > 0 && (pos >= size || pos < 0) {
			return "read-differs-after-flush"
		}
		return "read-differs-before-flush"
	}
	if rerr != nil {
		s.r.Violate("read-error", s.kind+"/read", "read [%d,%d) of a %d-byte file failed: %v", off, off+int64(n), size, rerr)
		return
	}
	// bytes first (more specific than a length difference)
	m := len(got)
	if len(want) < m {
		m = len(want)
	}
	for i := 0; i < m; i++ {
		p := off + int64(i)
		if s.st[p] == stLost {
			continue
		}
		if got[i] != want[i] {
			s.r.Violate(class(p), s.situation(int(p), got[i], true),
				"read [%d,%d) of a %d-byte file: byte %d is %#x, the model has %#x (state of that byte: %s, previous value %#x, upload %d); %d writes, %d truncates, %d successful flushes so far",
				off, off+int64(n), size, p, got[i], want[i], stName[s.st[p]], s.prev[p], s.up[p], s.writes, s.truncs, s.flushesOK)
			return
		}
	}
	if len(got) != len(want) {
		dir := "short"
		if len(got) > len(want) {
			dir = "long"
		}
		k := s.kind + "/"
		switch {
		case dir == "long" && s.ghostBeyond(int(size)) != "":
			k += s.ghostBeyond(int(size))
		case s.viewStaleFor(-1):
			k += "chunk-view-cached-by-earlier-read"
		default:
			k += "length-" + dir
			if s.truncs > 0 {
				k += "/after-truncate"
			}
		}
		s.r.Violate(class(off+int64(m)), k, "read [%d,%d) of a %d-byte file returned %d bytes, the model returns %d", off, off+int64(n), size, len(got), len(want))
		return
	}
	s.r.Abs("r:ok")
}

func (s *sess30) flush() {
	var ferr error
	s.r.Log("F parked=%d", len(s.parked))
	if !s.pump("flush", func() { ferr = s.fh.VerifFlushData() }) {
		return
	}
	s.r.Log("F -> err=%v", ferr)
	if ferr != nil {
		if !s.everFailed {
			s.r.Violate("flush-failed-without-upload-failure", s.kind+"/flush", "flush reported %v although no upload failed", ferr)
			return
		}
		s.pendingFail = false
		s.r.Probe("flush-reported-failure")
		s.r.Abs("f:fail")
		return
	}
	if s.pendingFail {
		s.r.Violate("flush-reported-success-after-upload-failure", s.kind+"/flush", "an upload failed since the last flush, and the flush reported success")
		return
	}
	if len(s.parked) > 0 {
		s.r.Violate("flushed-chunks-differ", s.kind+"/flush-returned-with-uploads-pending", "flush returned while %d uploads are still in flight", len(s.parked))
		return
	}
	s.r.Probe("flush-reported-success")
	s.flushesOK++
	for i := range s.inbuf {
		s.inbuf[i] = false // both buffers are empty after a flush that succeeded
	}
	if !s.checkChunks("collected") {
		return
	}
	// the second leg of doFlush, minus the RPC: what is sent to the filer is the compacted chunk list, which also replaces entry.Chunks
	entry := s.file.VerifEntry()
	manifest, plain := filer.SeparateManifestChunks(entry.Chunks)
	compacted, garbage := filer.CompactFileChunks(s.wfs.LookupFn(), plain)
	entry.Chunks = append(compacted, manifest...)
	if len(garbage) > 0 {
		s.r.Probe("flush-compaction-dropped-chunks")
	}
	if !s.checkChunks("compacted") {
		return
	}
	for i := range s.fl {
		s.fl[i] = true
	}
	s.r.NonTrivial()
	s.r.Abs("f:ok")
}

// checkChunks resolves the entry's chunk list with the real filer chunk logic over the captured chunk bytes.
func (s *sess30) checkChunks(stage string) bool {
	entry := s.file.VerifEntry()
	size := int64(len(s.model))
	chunks := append([]*filer_pb.FileChunk{}, entry.Chunks...)
	views := filer.ViewFromChunks(s.wfs.LookupFn(), chunks, 0, math.MaxInt64)
	describe := func() string {
		var desc []string
		for _, c := range entry.Chunks {
			desc = append(desc, fmt.Sprintf("[%d,%d)", c.Offset, c.Offset+int64(c.Size)))
		}
		return strings.Join(desc, " ")
	}
	if fs := int64(filer.FileSize(entry)); fs != size {
		k := s.kind + "/" + stage + "/file-size"
		if fs > size && s.ghostBeyond(int(size)) != "" {
			k = s.kind + "/" + s.ghostBeyond(int(size))
		} else if s.truncs > 0 {
			k += "/after-truncate"
		}
		s.r.Violate("flushed-chunks-differ", k, "after a successful flush the entry's size is %d (attribute %d, chunks end at %d), the model's is %d; chunks: %s",
			fs, entry.Attributes.FileSize, filer.TotalSize(entry.Chunks), size, describe())
		return false
	}
	out := make([]byte, size)
	for _, v := range views {
		data, ok := s.cs.get(v.FileId)
		if !ok {
			s.r.Violate("flushed-chunks-differ", s.kind+"/"+stage+"/unknown-file-id", "a chunk view at offset %d refers to a file id that was never uploaded", v.LogicOffset)
			return false
		}
		if v.Offset < 0 || v.Offset+int64(v.Size) > int64(len(data)) {
			s.r.Violate("flushed-chunks-differ", s.kind+"/"+stage+"/view-outside-chunk", "chunk view [%d,%d) exceeds the chunk's %d stored bytes (logic offset %d); chunks: %s", v.Offset, v.Offset+int64(v.Size), len(data), v.LogicOffset, describe())
			return false
		}
		if v.LogicOffset < size {
			copy(out[v.LogicOffset:], data[v.Offset:v.Offset+int64(v.Size)])
		}
	}
	for p := int64(0); p < size; p++ {
		if s.st[p] == stLost {
			continue
		}
		if out[p] != s.model[p] {
			s.r.Violate("flushed-chunks-differ", s.situation(int(p), out[p], false),
				"after a successful flush the %s chunk list resolves byte %d to %#x, the model has %#x (state %s, previous value %#x, upload %d); chunks: %s",
				stage, p, out[p], s.model[p], stName[s.st[p]], s.prev[p], s.up[p], describe())
			return false
		}
	}
	return true
}

// ---------------------------------------------------------------- generator

func genC30(tier string, seed uint64, idx int) *simkit.Plan {
	rng := simkit.NewRand(seed)
	p := &simkit.Plan{Engine: "mountsim"}
	p.SetC("kind", int64(idx%2))
	limits := []int64{8, 16, 32, 64, 256, 1024, 4096}
	limit := limits[rng.Intn(len(limits))]
	p.SetC("limit", limit)
	p.SetC("cw", []int64{0, 0, 1, 2, 8}[rng.Intn(5)])
	faults := (idx/2)%4 == 3
	if faults {
		p.SetC("faults", 1)
	}
	trunc := rng.Chance(1, 5)
	if rng.Chance(1, 8) {
		p.SetC("scribble", 1)
	}
	if rng.Chance(2, 3) {
		p.SetC("defer", 1) // reads through the handle only while nothing has been uploaded; the final read checks everything
	}
	if rng.Chance(1, 8) {
		p.SetC("cache", 1)
	}
	n := rng.Range(5, 28)
	if rng.Chance(1, 10) {
		n = rng.Range(28, 70)
	}
	mode := rng.Intn(3) // 0: anywhere, 1: mostly appending, 2: mostly rewriting a small region
	space := limit * int64(rng.Range(2, 6))
	cursor := int64(0)
	pickLen := func() int64 {
		switch rng.Pick(3, 6, 3, 3, 3, 4, 1) {
		case 0:
			return 1
		case 1:
			return int64(rng.Range(1, int(limit/2)+1))
		case 2:
			return limit - 1 + int64(rng.Intn(3))
		case 3:
			return limit/2 + int64(rng.Intn(int(limit)))
		case 4:
			return limit + 1 + int64(rng.Intn(int(limit)))
		case 5:
			return 2*limit + int64(rng.Intn(int(limit)+1))
		default:
			return 3*limit + 1
		}
	}
	pickOff := func() int64 {
		w := []int{4, 4, 3, 2}
		if mode == 1 {
			w = []int{12, 2, 2, 1}
		} else if mode == 2 {
			w = []int{2, 2, 2, 8}
		}
		switch rng.Pick(w...) {
		case 0:
			return cursor
		case 1:
			return rng.Int63n(space + 1)
		case 2:
			o := limit*int64(rng.Intn(5)) + int64(rng.Intn(3)) - 1
			if o < 0 {
				o = 0
			}
			return o
		default:
			return rng.Int63n(limit + 1)
		}
	}
	failW, failF := 0, 0
	if faults {
		failW, failF = 300, 200
	}
	for i := 0; i < n; i++ {
		wT := 0
		if trunc {
			wT = 8
		}
		switch rng.Pick(50, 22, 12, 8, wT) {
		case 0:
			off, l := pickOff(), pickLen()
			if l < 1 {
				l = 1
			}
			p.Add(simkit.St("w", rng.Uint64(), "off", off, "len", l, "fail", failW))
			if off+l > cursor {
				cursor = off + l
			}
		case 1:
			if rng.Chance(1, 3) {
				p.Add(simkit.St("r", rng.Uint64(), "off", 0, "len", cursor+4, "fail", failW))
			} else {
				off := rng.Int63n(cursor + 2)
				p.Add(simkit.St("r", rng.Uint64(), "off", off, "len", 1+rng.Int63n(2*limit+2), "fail", failW))
			}
		case 2:
			p.Add(simkit.St("u", rng.Uint64(), "n", rng.Range(1, 3), "fail", failW))
		case 3:
			p.Add(simkit.St("f", rng.Uint64(), "fail", failF))
		case 4:
			var sz int64
			switch rng.Intn(4) {
			case 0:
				sz = 0
			case 1:
				sz = rng.Int63n(cursor + 1)
			case 2:
				sz = cursor + rng.Int63n(limit+1)
			default:
				sz = limit * int64(rng.Intn(4))
			}
			p.Add(simkit.St("t", rng.Uint64(), "size", sz))
			cursor = sz
		}
	}
	return p
}

func shrinkC30(s simkit.Step) []simkit.Step {
	var out []simkit.Step
	clone := func() simkit.Step {
		c := s
		c.A = map[string]int64{}
		for k, v := range s.A {
			c.A[k] = v
		}
		return c
	}
	for _, f := range []string{"len", "off", "size", "n"} {
		if v, ok := s.A[f]; ok && v > 0 {
			if f != "len" && f != "n" {
				c := clone()
				c.A[f] = 0
				out = append(out, c)
			}
			if v > 1 {
				c := clone()
				c.A[f] = v / 2
				out = append(out, c)
				c2 := clone()
				c2.A[f] = v - 1
				out = append(out, c2)
			}
		}
	}
	return out
}
