package mountsim

import (
	"bytes"
	"fmt"
	"io"
	"os"
	"path/filepath"
	"sort"
	"strings"
	"time"

	"verifsim/simkit"

	"github.com/chrislusf/seaweedfs/weed/storage/needle"
	"github.com/chrislusf/seaweedfs/weed/util/chunk_cache"
)

// C31 — the mount's chunk cache is transparent.
//
// Real: chunk_cache.TieredChunkCache (memory tier on ccache, three on-disk
// layers of ChunkCacheVolume with LevelDB needle maps, rotation by Reset) on
// real files of the run's directory. Faults: shutdown + reopen; reopen on a
// copy of the live directory with one volume's .dat and/or .idx truncated.

func init() {
	simkit.Register(&simkit.Prop{ID: "C31", Gen: genC31, Exec: execC31, Shrink: shrinkC31})
}

type cacheID struct {
	fid    string
	vid    uint32
	key    uint64
	cookie uint32
}

type volTimes struct {
	touch, idxTouch, open int
}

type sess31 struct {
	r        *simkit.Run
	c        *chunk_cache.TieredChunkCache
	dir      string
	gen      int
	unit     int64
	units    int64
	maxEnt   int64
	ids      []cacheID
	values   map[string][][]byte // every value ever stored under a file id
	inMem    map[string]bool     // stored with a memory-tier size since the last (re)start
	vt       map[string]*volTimes
	op       int
	restarts int
	torn     string // "", "dat", "idx", "dat+idx"
}

func value(fid string, ver int64, n int) []byte {
	b := simkit.NewRand(simkit.Mix(simkit.HashString(fid), uint64(ver))).Bytes(n)
	for i := range b {
		b[i] = 1 + b[i]%255
	}
	return b
}

func execC31(r *simkit.Run) {
	p := r.Plan
	s := &sess31{r: r, unit: p.C("unit"), units: p.C("units"), maxEnt: p.C("maxent"), values: map[string][][]byte{}, inMem: map[string]bool{}, vt: map[string]*volTimes{}}
	if s.unit <= 0 {
		s.unit = 64
	}
	if s.units <= 0 {
		s.units = 8
	}
	if s.maxEnt <= 0 {
		s.maxEnt = 4
	}
	r.Res.FaultConfig = p.C("faults") == 1
	// the id pool is a function of the plan seed and configuration only
	rng := simkit.NewRand(simkit.Mix(p.Seed, 31))
	n := int(p.C("ids"))
	if n <= 0 {
		n = 8
	}
	collide := p.C("collide") == 1
	for i := 0; i < n; i++ {
		id := cacheID{vid: uint32(1 + rng.Intn(3)), key: uint64(0x10 + i), cookie: uint32(rng.Uint64()) | 1}
		if collide && i > 0 && rng.Chance(1, 2) {
			o := s.ids[rng.Intn(len(s.ids))]
			id.key = o.key
			switch rng.Intn(3) {
			case 0: // same volume and key, other cookie
				id.vid = o.vid
			case 1: // other volume, same key and cookie
				id.vid = o.vid%3 + 1
				id.cookie = o.cookie
			default: // other volume, same key, other cookie
				id.vid = o.vid%3 + 1
			}
		}
		id.fid = fmt.Sprintf("%d,%x%08x", id.vid, id.key, id.cookie)
		dup := false
		for _, o := range s.ids {
			if o.fid == id.fid {
				dup = true
			}
		}
		if !dup {
			s.ids = append(s.ids, id)
		}
	}
	s.dir = filepath.Join(r.Dir, "cache0")
	_ = os.MkdirAll(s.dir, 0755)
	s.open()
	defer func() {
		if s.c != nil {
			s.c.Shutdown()
			simkit.Wait()
		}
	}()
	l0, l1, l2 := s.c.VerifLimits()
	r.Log("C31 unit=%d units=%d maxent=%d ids=%d collide=%v limits=%d/%d/%d", s.unit, s.units, s.maxEnt, len(s.ids), collide, l0, l1, l2)
	for i := range p.Steps {
		st := &p.Steps[i]
		s.op++
		switch st.Kind {
		case "set":
			s.set(st)
		case "get":
			s.get(st)
		case "slice":
			s.slice(st)
		case "restart":
			s.restart()
		case "crash":
			s.crash(st)
		}
		simkit.Wait() // the memory tier's worker settles (promotions, evictions)
		if r.Violated() || r.Res.HarnessError != "" {
			return
		}
	}
	// end of run: every id is looked up once more, whole and from offset 0
	for i := range s.ids {
		s.op++
		s.lookup(i, 0, "final")
		if r.Violated() {
			return
		}
	}
}

// ---------------------------------------------------------------- open / restart

func (s *sess31) volumeFiles() []string {
	var names []string
	ents, _ := os.ReadDir(s.dir)
	for _, e := range ents {
		if strings.HasSuffix(e.Name(), ".dat") {
			names = append(names, strings.TrimSuffix(e.Name(), ".dat"))
		}
	}
	sort.Strings(names)
	return names
}

var c31Epoch = time.Date(2001, 1, 1, 0, 0, 0, 0, time.UTC)

// stampTimes sets the file times the loader compares (newest .dat first; LevelDB LOG newer than .idx = trusted)
// from the harness's record of which operation touched which file: real mtimes are real time and may tie.
func (s *sess31) stampTimes(forceFresh map[string]int64) {
	for _, name := range s.volumeFiles() {
		t := s.vt[name]
		if t == nil {
			t = &volTimes{}
			s.vt[name] = t
		}
		at := func(op int, plus int) time.Time {
			return c31Epoch.Add(time.Duration(op)*10*time.Second + time.Duration(plus)*time.Second)
		}
		base := filepath.Join(s.dir, name)
		_ = os.Chtimes(base+".dat", at(t.touch, 0), at(t.touch, 0))
		idxT, logT := at(t.idxTouch, 1), at(t.open, 2)
		switch forceFresh[name] {
		case 1: // trust the LevelDB directory
			logT = idxT.Add(5 * time.Second)
		case 2: // rebuild it from the index file
			logT = idxT.Add(-5 * time.Second)
		}
		_ = os.Chtimes(base+".idx", idxT, idxT)
		_ = os.Chtimes(filepath.Join(base+".ldb", "LOG"), logT, logT)
	}
}

func (s *sess31) open() {
	existed := map[string]bool{}
	for _, n := range s.volumeFiles() {
		existed[n] = true
	}
	s.c = chunk_cache.NewTieredChunkCache(s.maxEnt, s.dir, s.units, s.unit)
	simkit.Wait()
	for _, n := range s.volumeFiles() {
		t := s.vt[n]
		if t == nil {
			t = &volTimes{}
			s.vt[n] = t
		}
		t.open = s.op
		if !existed[n] {
			// created now, in index order: later files are newer
			t.touch, t.idxTouch = s.op, s.op
		}
	}
	s.inMem = map[string]bool{}
	layers := s.c.VerifLayers()
	if len(layers) != 3 {
		s.r.HarnessError("cache has %d layers", len(layers))
	}
}

func (s *sess31) restart() {
	s.r.Log("RESTART clean")
	s.c.Shutdown()
	simkit.Wait()
	s.stampTimes(nil)
	s.open()
	s.restarts++
	s.r.Probe("restart")
	s.r.NonTrivial()
	s.r.Abs("restart")
}

func copyTree(src, dst string) error {
	return filepath.Walk(src, func(p string, info os.FileInfo, err error) error {
		if err != nil {
			return err
		}
		rel, _ := filepath.Rel(src, p)
		to := filepath.Join(dst, rel)
		if info.IsDir() {
			return os.MkdirAll(to, 0755)
		}
		in, err := os.Open(p)
		if err != nil {
			return err
		}
		defer in.Close()
		out, err := os.Create(to)
		if err != nil {
			return err
		}
		defer out.Close()
		_, err = io.Copy(out, in)
		return err
	})
}

// crash: the directory as it is while the cache is live is copied; in the copy one volume's .dat and/or .idx
// keeps only a prefix; the cache is reopened on the copy. The old incarnation is shut down only after the copy.
func (s *sess31) crash(st *simkit.Step) {
	s.gen++
	nd := filepath.Join(s.r.Dir, fmt.Sprintf("cache%d", s.gen))
	if err := copyTree(s.dir, nd); err != nil {
		s.r.HarnessError("copy cache dir: %v", err)
		return
	}
	s.c.Shutdown()
	simkit.Wait()
	s.dir = nd
	rng := simkit.StepRand(st, 3)
	names := s.volumeFiles()
	var cands []string
	for _, n := range names {
		if fi, err := os.Stat(filepath.Join(nd, n+".dat")); err == nil && fi.Size() > 0 {
			cands = append(cands, n)
		}
	}
	what := ""
	force := map[string]int64{}
	if len(cands) > 0 {
		victim := cands[rng.Intn(len(cands))]
		cut := func(ext string, permille int64, align int64) int64 {
			f := filepath.Join(nd, victim+ext)
			fi, err := os.Stat(f)
			if err != nil {
				return -1
			}
			to := fi.Size() * permille / 1000
			if align > 1 && st.Int("ragged") == 0 {
				to -= to % align
			}
			_ = os.Truncate(f, to)
			return to
		}
		mode := st.Int("what") // 0 dat, 1 idx, 2 both
		var dl, il int64 = -1, -1
		if mode == 0 || mode == 2 {
			dl = cut(".dat", st.Int("dat"), 1)
			what = "dat"
			s.r.Fault("torn-cache-dat")
		}
		if mode == 1 || mode == 2 {
			il = cut(".idx", st.Int("idx"), 16)
			if what != "" {
				what += "+"
			}
			what += "idx"
			s.r.Fault("torn-cache-idx")
		}
		force[victim] = st.Int("fresh")
		s.r.Log("CRASH victim=%s dat->%d idx->%d fresh=%d", victim, dl, il, st.Int("fresh"))
		s.r.Probe("torn-cache-file")
	} else {
		s.r.Log("CRASH nothing to tear")
	}
	if what != "" {
		if s.torn == "" || s.torn == what {
			s.torn = what
		} else {
			s.torn = "dat+idx"
		}
	}
	s.stampTimes(force)
	s.open()
	s.restarts++
	s.r.NonTrivial()
	s.r.Abs("crash:" + what)
}

// ---------------------------------------------------------------- operations

func heads(layers [][]chunk_cache.VerifVolume) []string {
	var h []string
	for _, l := range layers {
		if len(l) > 0 {
			h = append(h, filepath.Base(l[0].FileName))
		} else {
			h = append(h, "")
		}
	}
	return h
}

func (s *sess31) set(st *simkit.Step) {
	i := int(st.Int("id")) % len(s.ids)
	id := s.ids[i]
	size := int(st.Int("size"))
	if size < 0 {
		size = 0
	}
	if st.Int("again") == 0 && len(s.values[id.fid]) > 0 {
		// this configuration stores every id once (tiny memory tier: re-storing a present key makes the ccache worker's
		// order of "delete old" / "promote new" — and with it which entries are pruned — a scheduler choice)
		s.r.Count("set-skipped-already-stored")
		return
	}
	data := value(id.fid, st.Int("ver"), size)
	known := false
	for _, v := range s.values[id.fid] {
		if bytes.Equal(v, data) {
			known = true
		}
	}
	if !known {
		s.values[id.fid] = append(s.values[id.fid], data)
	}
	before := heads(s.c.VerifLayers())
	buf := append([]byte{}, data...)
	s.c.SetChunk(id.fid, buf)
	for k := range buf {
		buf[k] = 0xEE // callers reuse their buffers
	}
	layersAfter := s.c.VerifLayers()
	after := heads(layersAfter)
	l0, l1, _ := s.c.VerifLimits()
	layer := 2
	if uint64(size) <= l0 {
		layer = 0
		s.inMem[id.fid] = true
	} else if uint64(size) <= l1 {
		layer = 1
	}
	rot := false
	if layer < len(after) && after[layer] != "" {
		t := s.vt[after[layer]]
		if t == nil {
			t = &volTimes{}
			s.vt[after[layer]] = t
		}
		if before[layer] != after[layer] {
			rot = true
			t.open = s.op // reset: files truncated, LevelDB directory recreated
			s.r.Probe("cache-rotation")
			s.r.Probe(fmt.Sprintf("cache-rotation-layer%d", layer))
		}
		t.touch, t.idxTouch = s.op, s.op
		if len(layersAfter[layer]) > 0 && int64(size) > layersAfter[layer][0].SizeLimit {
			s.r.Probe("chunk-larger-than-cache-volume")
		}
	}
	s.r.Probe(fmt.Sprintf("set-layer%d", layer))
	s.r.Log("SET %s size=%d ver=%d layer=%d rot=%v", id.fid, size, st.Int("ver"), layer, rot)
	s.r.Abs(fmt.Sprintf("set:%d:%v", layer, rot))
}

func (s *sess31) relation(fid string, other string) string {
	a, _ := needle.ParseFileIdFromString(fid)
	b, _ := needle.ParseFileIdFromString(other)
	if a == nil || b == nil {
		return "unparsable"
	}
	if a.Key != b.Key {
		return "other-key"
	}
	switch {
	case a.VolumeId == b.VolumeId:
		return "same-key-same-volume-other-cookie"
	case a.Cookie == b.Cookie:
		return "same-key-other-volume-same-cookie"
	}
	return "same-key-other-volume-other-cookie"
}

func (s *sess31) tornSuffix() string {
	if strings.Contains(s.torn, "dat") {
		return "/after-torn-data-file" // the volume's data file lost a suffix that its index still describes
	}
	if s.torn != "" {
		return "/after-torn-" + s.torn
	}
	return ""
}

// judge decides one non-empty lookup result. off is the slice offset (0 for whole-chunk lookups);
// maxLen < 0 means no upper bound (whole-chunk lookup); minLen is the least acceptable length.
func (s *sess31) judge(api string, fid string, got []byte, off int, minLen int, maxLen int, memHit []byte) bool {
	matches := func(v []byte) bool {
		return off+len(got) <= len(v) && bytes.Equal(got, v[off:off+len(got)])
	}
	tier := "disk"
	if len(memHit) > 0 && off+len(got) <= len(memHit) && bytes.Equal(got, memHit[off:off+len(got)]) {
		tier = "mem"
	}
	for _, v := range s.values[fid] {
		if !matches(v) {
			continue
		}
		// bytes of this id: the length must be what was asked for
		switch {
		case len(got) < minLen:
			s.r.Violate("wrong-length", tier+"/shorter-than-requested", "%s(%s) wanted at least %d bytes and got %d (of a %d-byte value)", api, fid, minLen, len(got), len(v))
			return false
		case maxLen >= 0 && len(got) > maxLen:
			s.r.Violate("wrong-length", tier+"/longer-than-requested", "%s(%s) offset %d wanted at most %d bytes and got %d", api, fid, off, maxLen, len(got))
			return false
		case maxLen >= 0 && len(got) < maxLen && off+len(got) != len(v):
			continue // short, and not because the value ends: maybe another stored value explains it
		}
		return true
	}
	// not a stored value of this id: whose bytes are they?
	var others []string
	for o := range s.values {
		if o != fid {
			others = append(others, o)
		}
	}
	sort.Strings(others)
	// several ids may hold matching bytes (short values): ids sharing the needle key explain a hit first
	best, bestRel := "", ""
	for _, o := range others {
		for _, v := range s.values[o] {
			if matches(v) {
				rel := s.relation(fid, o)
				if best == "" || (bestRel == "other-key" && rel != "other-key") {
					best, bestRel = o, rel
				}
			}
		}
	}
	if best != "" {
		key := tier + "/" + bestRel
		if bestRel == "other-key" {
			key += s.tornSuffix()
		}
		s.r.Violate("foreign-bytes", key, "%s(%s) offset %d returned %d bytes that were stored under %s, never under %s (restarts so far %d, torn %q)", api, fid, off, len(got), best, fid, s.restarts, s.torn)
		return false
	}
	for _, v := range s.values[fid] {
		if off < len(v) && len(got) > 0 && off+len(got) > len(v) && bytes.Equal(got[:len(v)-off], v[off:]) {
			s.r.Violate("wrong-length", tier+"/longer-than-stored"+s.tornSuffix(), "%s(%s) offset %d returned %d bytes, only %d were stored", api, fid, off, len(got), len(v))
			return false
		}
	}
	s.r.Violate("garbage-bytes", tier+s.tornSuffix(), "%s(%s) offset %d returned %d bytes (%x...) that match nothing ever stored (restarts so far %d, torn %q)", api, fid, off, len(got), got[:min(8, len(got))], s.restarts, s.torn)
	return false
}

func (s *sess31) peekMem(fid string) []byte {
	m := s.c.VerifMemGet(fid)
	if s.inMem[fid] && m == nil {
		s.r.Probe("memory-eviction")
		delete(s.inMem, fid)
	}
	return m
}

func (s *sess31) lookup(i int, minSize uint64, what string) {
	id := s.ids[i%len(s.ids)]
	mem := s.peekMem(id.fid)
	got := s.c.GetChunk(id.fid, minSize)
	res := "miss"
	if len(got) > 0 {
		res = "hit"
		s.r.NonTrivial()
		if !s.judge("get", id.fid, got, 0, int(minSize), -1, mem) {
			return
		}
		if len(mem) == 0 {
			s.r.Probe("hit-from-disk-tier")
		}
	} else if len(s.values[id.fid]) > 0 {
		s.r.Probe("miss-of-stored-id")
	}
	s.r.Log("GET%s %s min=%d -> %s n=%d h=%x", what, id.fid, minSize, res, len(got), simkit.HashString(string(got))&0xffffff)
	s.r.Abs("get:" + res)
}

func (s *sess31) get(st *simkit.Step) {
	s.lookup(int(st.Int("id")), uint64(st.Int("min")), "")
}

func (s *sess31) slice(st *simkit.Step) {
	id := s.ids[int(st.Int("id"))%len(s.ids)]
	off, length := uint64(st.Int("off")), uint64(st.Int("len"))
	if length == 0 {
		return
	}
	mem := s.peekMem(id.fid)
	got := s.c.GetChunkSlice(id.fid, off, length)
	res := "miss"
	if len(got) > 0 {
		res = "hit"
		s.r.NonTrivial()
		s.r.Probe("slice-hit")
		if !s.judge("slice", id.fid, got, int(off), 0, int(length), mem) {
			return
		}
	}
	s.r.Log("SLICE %s [%d,+%d) -> %s n=%d h=%x", id.fid, off, length, res, len(got), simkit.HashString(string(got))&0xffffff)
	s.r.Abs("slice:" + res)
}

// ---------------------------------------------------------------- generator

func genC31(tier string, seed uint64, idx int) *simkit.Plan {
	rng := simkit.NewRand(seed)
	p := &simkit.Plan{Engine: "mountsim"}
	unit := []int64{16, 64, 256, 1024}[rng.Intn(4)]
	p.SetC("unit", unit)
	p.SetC("units", []int64{4, 16, 32, 64, 128}[rng.Intn(5)])
	again := rng.Chance(1, 3)
	if again {
		p.SetC("maxent", 1024) // re-storing ids needs a memory tier that never prunes (see set)
	} else {
		p.SetC("maxent", []int64{2, 3, 5, 8, 16}[rng.Intn(5)])
	}
	if rng.Chance(1, 4) {
		p.SetC("collide", 1)
	}
	faults := idx%4 == 3
	if faults {
		p.SetC("faults", 1)
	}
	ids := rng.Range(6, 14)
	if !again {
		ids = rng.Range(12, 40)
	}
	p.SetC("ids", int64(ids))
	sizes := []int64{1, 2, 7, 8, 9, unit / 2, unit - 1, unit, unit + 1, 2 * unit, 4*unit - 1, 4 * unit, 4*unit + 1, 6 * unit, 8 * unit, 8*unit + 1, 9 * unit}
	pickSize := func() int64 {
		switch rng.Pick(8, 3, 1) {
		case 0:
			return sizes[rng.Intn(len(sizes))]
		case 1:
			return 1 + rng.Int63n(unit)
		default:
			return 0
		}
	}
	lastSize := map[int]int64{}
	n := rng.Range(8, 32)
	if rng.Chance(1, 10) {
		n = rng.Range(32, 70)
	}
	nextFresh := 0
	for i := 0; i < n; i++ {
		wCrash := 0
		if faults {
			wCrash = 5
		}
		switch rng.Pick(40, 30, 14, 6, wCrash) {
		case 0:
			id := rng.Intn(ids)
			if !again {
				id = nextFresh % ids
				nextFresh++
			}
			sz := pickSize()
			ver := int64(0)
			if again && rng.Chance(1, 4) {
				ver = int64(rng.Intn(3))
			}
			a := 0
			if again {
				a = 1
			}
			p.Add(simkit.St("set", rng.Uint64(), "id", id, "size", sz, "ver", ver, "again", a))
			lastSize[id] = sz
		case 1:
			id := rng.Intn(ids)
			if len(lastSize) > 0 && rng.Chance(4, 5) {
				id = rng.Intn(max(nextFresh, 1)) % ids
			}
			sz := lastSize[id]
			var m int64
			switch rng.Intn(7) {
			case 0:
				m = 0
			case 1:
				m = 1
			case 2:
				m = sz - 1
			case 3:
				m = sz
			case 4:
				m = sz + 1
			case 5:
				m = unit + int64(rng.Intn(2))
			default:
				m = 4*unit + int64(rng.Intn(2))
			}
			if m < 0 {
				m = 0
			}
			p.Add(simkit.St("get", rng.Uint64(), "id", id, "min", m))
		case 2:
			id := rng.Intn(ids)
			sz := lastSize[id]
			off := int64(0)
			if rng.Chance(1, 2) {
				off = rng.Int63n(sz + 2)
			}
			l := 1 + rng.Int63n(sz+2)
			if rng.Chance(1, 3) {
				l = sz - off
			}
			if l <= 0 {
				l = 1
			}
			p.Add(simkit.St("slice", rng.Uint64(), "id", id, "off", off, "len", l))
		case 3:
			p.Add(simkit.St("restart", rng.Uint64()))
		case 4:
			p.Add(simkit.St("crash", rng.Uint64(), "what", rng.Intn(3), "dat", rng.Intn(1001), "idx", rng.Intn(1001), "ragged", rng.Intn(3) == 0, "fresh", rng.Intn(3)))
		}
	}
	return p
}

func shrinkC31(s simkit.Step) []simkit.Step {
	var out []simkit.Step
	for _, f := range []string{"size", "min", "off", "len", "ver"} {
		if v, ok := s.A[f]; ok && v > 0 {
			for _, nv := range []int64{0, v / 2, v - 1} {
				if nv == v || (f == "len" && nv == 0) {
					continue
				}
				c := s
				c.A = map[string]int64{}
				for k, x := range s.A {
					c.A[k] = x
				}
				c.A[f] = nv
				out = append(out, c)
			}
		}
	}
	return out
}
