package cluster

import (
	"mime/multipart"
	"bytes"
	"fmt"
	"io"
	"net/http"
	"strings"
	"time"

	"verifsim/simkit"

	"github.com/chrislusf/seaweedfs/weed/operation"
	"github.com/chrislusf/seaweedfs/weed/security"
	"github.com/chrislusf/seaweedfs/weed/util"
	"github.com/golang-jwt/jwt"
	"google.golang.org/grpc"
)

// C34 — volume server access control with signed tokens (partial: the
// time-dependent part in the running system). The master issues the token in
// Assign; the client uses it after a plan-chosen fake delay straddling
// expires_after_seconds, for the right file, another file, a sub-file suffix,
// with another key, another algorithm, or not at all.

func init() {
	simkit.Register(&simkit.Prop{ID: "C34", Gen: genC34, Exec: execC34})
}

func genC34(tier string, seed uint64, idx int) *simkit.Plan {
	rng := simkit.NewRand(seed)
	p := &simkit.Plan{Engine: "cluster"}
	exp := []int{2, 5, 10, 10, 30, 60}[rng.Intn(6)]
	p.SetC("exp", int64(exp))
	p.SetC("readkey", int64(rng.Intn(2)))
	p.SetC("readexp", int64([]int{3, 10, 60}[rng.Intn(3)]))
	p.SetC("faults", 1)
	n := rng.Range(4, 14)
	assigns := 0
	for i := 0; i < n; i++ {
		if assigns == 0 || rng.Chance(1, 3) {
			assigns++
			p.Add(simkit.St("assign", rng.Uint64()))
			continue
		}
		delay := 0
		switch rng.Pick(3, 4, 2) {
		case 0:
			delay = rng.Intn(3)
		case 1:
			delay = exp + []int{-2, -1, 0, 1, 2, 3}[rng.Intn(6)] // straddle the expiry
		default:
			delay = rng.Range(0, exp*3)
		}
		if delay < 0 {
			delay = 0
		}
		p.Add(simkit.St("use", rng.Uint64(), "i", rng.Intn(assigns), "op", []string{"upload", "upload", "delete", "read"}[rng.Intn(4)],
			"tok", []string{"own", "own", "own", "other", "suffix", "none", "wrongkey", "algnone", "fresh", "garbage", "nbf", "readtok-reused", "prefixclaim"}[rng.Intn(13)], "delay", delay, "ms", rng.Intn(1000)))
	}
	return p
}

type c34file struct {
	fid    string
	url    string
	auth   string
	issued time.Time
	data   []byte // what the volume holds for it according to the accepted operations (nil = nothing)
}

func execC34(r *simkit.Run) {
	p := r.Plan
	r.Res.FaultConfig = true
	v := util.GetViper()
	key, otherKey, readKey := "write-signing-key", "some-other-key", "read-signing-key"
	exp := int(p.C("exp"))
	if exp <= 0 {
		exp = 10
	}
	v.Set("jwt.signing.key", key)
	v.Set("jwt.signing.expires_after_seconds", exp)
	if p.C("readkey") == 1 {
		v.Set("jwt.signing.read.key", readKey)
		v.Set("jwt.signing.read.expires_after_seconds", int(p.C("readexp")))
	} else {
		v.Set("jwt.signing.read.key", "")
	}
	for _, k := range []string{"copy_1", "copy_2", "copy_3", "copy_other"} {
		v.Set("master.volume_growth."+k, 1)
	}
	defer func() {
		v.Set("jwt.signing.key", "")
		v.Set("jwt.signing.read.key", "")
		v.Set("jwt.signing.expires_after_seconds", 10)
	}()
	n := NewNet(r)
	defer n.Close()
	m := StartMaster(n, MasterCfg{Host: "master", Port: 9333, SizeLimitMB: 30})
	vs := StartVS(n, VSCfg{Host: "vs0", Port: 8080, Dir: vsDir(r, 0), DC: "dc0", Rack: "r0", Master: m.Addr})
	time.Sleep(6 * time.Second)
	simkit.Wait()
	masterFn := func() string { return m.Addr }
	var files []*c34file
	readToken := func(fid string) string {
		if p.C("readkey") == 1 {
			return string(security.GenJwt(security.SigningKey(readKey), 3600, fid))
		}
		return ""
	}
	// look at the stored state with a fresh, certainly valid read token
	stored := func(f *c34file) (int, []byte) {
		req, _ := http.NewRequest("GET", "http://"+vs.Addr()+"/"+f.fid, nil)
		if t := readToken(f.fid); t != "" {
			req.Header.Set("Authorization", "BEARER "+t)
		}
		resp, err := n.roundTrip(req)
		if err != nil {
			return 0, nil
		}
		b, _ := io.ReadAll(resp.Body)
		return resp.StatusCode, b
	}
	for i := range p.Steps {
		st := &p.Steps[i]
		switch st.Kind {
		case "assign":
			ar, err := operation.Assign(masterFn, grpc.WithInsecure(), &operation.VolumeAssignRequest{Count: 2, Replication: "000"}) // count 2: the _1 sub-file key belongs to this assignment
			if err != nil {
				r.Log("assign failed: %v", err)
				continue
			}
			if ar.Auth == "" {
				r.Violate("no-token-issued", "assign", "a write signing key is configured but Assign returned no token for %s", ar.Fid)
				return
			}
			files = append(files, &c34file{fid: ar.Fid, url: ar.Url, auth: string(ar.Auth), issued: time.Now()})
			r.Log("assign %s", ar.Fid)
			r.Abs("assign")
		case "use":
			if len(files) == 0 {
				continue
			}
			f := files[int(st.Int("i"))%len(files)]
			// wait until the chosen age of the master-issued token
			target := f.issued.Add(time.Duration(st.Int("delay"))*time.Second + time.Duration(st.Int("ms"))*time.Millisecond)
			if d := time.Until(target); d > 0 {
				time.Sleep(d)
				r.NonTrivial()
			}
			age := time.Since(f.issued)
			op, tokKind := st.Str("op"), st.Str("tok")
			signKey, signExp := key, exp
			if op == "read" {
				signKey, signExp = readKey, int(p.C("readexp"))
			}
			tok := ""
			// expectation: definitely acceptable / definitely not / boundary second (either)
			expect := "reject"
			switch tokKind {
			case "own":
				if op == "read" {
					// the master's assign token is a write token; reads need the read key
					tok = f.auth
					expect = "reject"
				} else {
					tok = f.auth
					switch {
					case age < time.Duration(exp)*time.Second:
						expect = "accept"
					case age >= time.Duration(exp+1)*time.Second:
						expect = "reject"
					default:
						expect = "either"
					}
				}
			case "fresh":
				tok = string(security.GenJwt(security.SigningKey(signKey), signExp, f.fid))
				expect = "accept"
			case "other":
				other := "9," + fmt.Sprintf("%x", st.Seed)[:10]
				for _, g := range files {
					if g != f {
						other = g.fid
					}
				}
				tok = string(security.GenJwt(security.SigningKey(signKey), 3600, other))
			case "suffix":
				tok = string(security.GenJwt(security.SigningKey(signKey), 3600, f.fid))
				expect = "accept-suffix"
			case "none":
			case "wrongkey":
				tok = string(security.GenJwt(security.SigningKey(otherKey), 3600, f.fid))
			case "algnone":
				c := security.SeaweedFileIdClaims{Fid: f.fid}
				tok, _ = jwt.NewWithClaims(jwt.SigningMethodNone, c).SignedString(jwt.UnsafeAllowNoneSignatureType)
			case "garbage":
				tok = "abc.def.ghi"
			case "prefixclaim":
				// right key, unexpired, but the file-id claim is only a PREFIX of the target's id (the id cut short,
				// or just the volume): it names another file, or none
				claim := f.fid[:len(f.fid)-2]
				if st.Seed%2 == 0 {
					claim = f.fid[:strings.Index(f.fid, ",")+1]
				}
				tok = string(security.GenJwt(security.SigningKey(signKey), 3600, claim))
			case "nbf":
				// right key, right file, not expired - but not valid before an hour from now
				c := security.SeaweedFileIdClaims{Fid: f.fid, StandardClaims: jwt.StandardClaims{ExpiresAt: time.Now().Unix() + 7200, NotBefore: time.Now().Unix() + 3600}}
				tok, _ = jwt.NewWithClaims(jwt.SigningMethodHS256, c).SignedString([]byte(signKey))
			case "readtok-reused":
				// a token of the OTHER key domain (read key for writes, write key for reads), used once where it
				// is valid and then presented for this operation
				if op == "read" {
					tok = string(security.GenJwt(security.SigningKey(key), 3600, f.fid))
				} else {
					tok = string(security.GenJwt(security.SigningKey(readKey), 3600, f.fid))
					if p.C("readkey") == 1 {
						req, _ := http.NewRequest("GET", "http://"+f.url+"/"+f.fid, nil)
						req.Header.Set("Authorization", "BEARER "+tok)
						if resp, err := n.roundTrip(req); err == nil {
							io.Copy(io.Discard, resp.Body)
							r.Log("the read token was first used for a GET -> %d", resp.StatusCode)
							if resp.StatusCode == http.StatusUnauthorized {
								r.Violate("valid-token-rejected", "read/fresh-read-token", "GET of %s with a fresh read token was rejected", f.fid)
								return
							}
						}
					}
				}
			}
			if op == "read" && p.C("readkey") == 0 {
				expect = "accept" // no read key configured: reads are open
			}
			target2 := f.fid
			if tokKind == "suffix" {
				target2 = f.fid + "_1"
			}
			beforeCode, beforeData := stored(f)
			accepted := false
			detail := ""
			newData := []byte(fmt.Sprintf("payload-%x", st.Seed))
			switch op {
			case "upload":
				// a raw multipart POST: the verdict is the HTTP status (401 = rejected for its token), not an error text
				var body bytes.Buffer
				mw := multipart.NewWriter(&body)
				fw, _ := mw.CreateFormFile("file", "x.bin")
				fw.Write(newData)
				mw.Close()
				req, _ := http.NewRequest("POST", "http://"+f.url+"/"+target2, &body)
				req.Header.Set("Content-Type", mw.FormDataContentType())
				if tok != "" {
					req.Header.Set("Authorization", "BEARER "+tok)
				}
				resp, err := n.roundTrip(req)
				if err != nil {
					r.HarnessError("upload request: %v", err)
					return
				}
				io.Copy(io.Discard, resp.Body)
				accepted = resp.StatusCode != http.StatusUnauthorized
				if resp.StatusCode >= 300 {
					detail = fmt.Sprint(resp.StatusCode)
				}
			case "delete":
				req, _ := http.NewRequest("DELETE", "http://"+f.url+"/"+target2, nil)
				if tok != "" {
					req.Header.Set("Authorization", "BEARER "+tok)
				}
				resp, err := n.roundTrip(req)
				if err != nil {
					r.HarnessError("delete request: %v", err)
					return
				}
				io.Copy(io.Discard, resp.Body)
				accepted = resp.StatusCode != http.StatusUnauthorized
				if resp.StatusCode >= 300 && resp.StatusCode != http.StatusNotFound {
					detail = fmt.Sprint(resp.StatusCode)
				}
			case "read":
				req, _ := http.NewRequest("GET", "http://"+f.url+"/"+target2, nil)
				if tok != "" {
					req.Header.Set("Authorization", "BEARER "+tok)
				}
				resp, err := n.roundTrip(req)
				if err == nil {
					accepted = resp.StatusCode != http.StatusUnauthorized
					detail = fmt.Sprint(resp.StatusCode)
					io.Copy(io.Discard, resp.Body)
				}
			}
			r.Log("%s %s token=%s age=%v -> accepted=%v %s (expect %s)", op, target2, tokKind, age.Round(time.Millisecond), accepted, detail, expect)
			r.Abs(fmt.Sprintf("%s:%s:%v", op, tokKind, accepted))
			r.Fault("token:" + tokKind)
			sit := fmt.Sprintf("%s/%s", op, tokKind)
			switch {
			case (expect == "accept" || expect == "accept-suffix") && !accepted:
				r.Violate("valid-token-rejected", sit, "%s of %s with a %s token aged %v (expiry %ds) was rejected (%s)", op, target2, tokKind, age, exp, detail)
				return
			case expect == "reject" && accepted:
				r.Violate("invalid-token-accepted", sit, "%s of %s with a %s token aged %v (expiry %ds) was accepted", op, target2, tokKind, age, exp)
				return
			}
			if tokKind == "suffix" {
				continue // the sub-file is a different needle; the parent is not expected to change
			}
			afterCode, afterData := stored(f)
			if !accepted {
				// rejected before any data is touched
				if afterCode != beforeCode || !bytes.Equal(afterData, beforeData) {
					r.Violate("rejected-request-changed-data", sit, "%s of %s was rejected but the stored blob changed: before http %d (%d bytes), after http %d (%d bytes)", op, f.fid, beforeCode, len(beforeData), afterCode, len(afterData))
					return
				}
			} else if op == "upload" && detail == "" && !bytes.Equal(afterData, newData) {
				r.Violate("accepted-upload-not-stored", sit, "upload of %s was accepted but a read returns http %d with %d bytes", f.fid, afterCode, len(afterData))
				return
			} else if op == "delete" && detail == "" && afterCode != http.StatusNotFound && beforeCode == http.StatusOK {
				r.Violate("accepted-delete-not-applied", sit, "delete of %s was accepted but a read still returns http %d", f.fid, afterCode)
				return
			}
		}
	}
	_ = strings.ToUpper
}
