package cluster

import (
	"runtime"
	"context"
	"fmt"
	"sort"
	"strings"

	"verifsim/simkit"

	"github.com/chrislusf/seaweedfs/weed/pb/master_pb"
	"github.com/chrislusf/seaweedfs/weed/pb/volume_server_pb"
	"github.com/chrislusf/seaweedfs/weed/storage/needle"
	"github.com/chrislusf/seaweedfs/weed/storage/types"
	"github.com/chrislusf/seaweedfs/weed/topology"
	"google.golang.org/grpc"
)

// C10 — new volumes are placed according to their replication setting
// (partial: the rule over arbitrary topologies is a function of the topology
// and the RNG draws; the RNG is owned by the simulator and capacity changes
// under heartbeats between growth requests). The real master's volume growth
// runs against modelled volume servers whose AllocateVolume gRPC endpoint
// records what the master really asked for.

func init() {
	simkit.Register(&simkit.Prop{ID: "C10", Gen: genC10, Exec: execC10})
}

type fakeVolumeServer struct {
	volume_server_pb.UnimplementedVolumeServerServer
	id    string
	onReq func(server string, req *volume_server_pb.AllocateVolumeRequest)
}

func (f *fakeVolumeServer) AllocateVolume(ctx context.Context, req *volume_server_pb.AllocateVolumeRequest) (*volume_server_pb.AllocateVolumeResponse, error) {
	f.onReq(f.id, req)
	return &volume_server_pb.AllocateVolumeResponse{}, nil
}

func genC10(tier string, seed uint64, idx int) *simkit.Plan {
	rng := simkit.NewRand(seed)
	p := &simkit.Plan{Engine: "cluster"}
	dcs := rng.Range(1, 3)
	p.SetC("dcs", int64(dcs))
	maxRacks, maxServers := 1, 1
	// topology: per server a step (so that the minimiser can drop servers)
	n := 0
	for d := 0; d < dcs; d++ {
		racks := rng.Range(1, 3)
		if racks > maxRacks {
			maxRacks = racks
		}
		for k := 0; k < racks; k++ {
			servers := rng.Range(1, 4)
			if servers > maxServers {
				maxServers = servers
			}
			for s := 0; s < servers; s++ {
				max := rng.Range(1, 6)
				used := rng.Intn(max + 2)
				if rng.Chance(1, 2) {
					used = rng.Intn(max/2 + 1)
				}
				ssd := 0
				if rng.Chance(1, 3) {
					ssd = rng.Range(1, 3)
				}
				ec := 0
				if rng.Chance(1, 5) {
					ec = rng.Range(1, 25)
				}
				p.Add(simkit.St("server", rng.Uint64(), "n", n, "dc", d, "rack", k, "max", max, "used", used, "ssd", ssd, "ssdused", rng.Intn(ssd+1), "ec", ec, "remote", rng.Intn(3)/2))
				n++
			}
		}
	}
	p.SetC("servers", int64(n))
	grows := rng.Range(3, 10)
	for i := 0; i < grows; i++ {
		rp := fmt.Sprintf("%d%d%d", rng.Intn(3), rng.Intn(3), rng.Intn(3))
		if rng.Chance(3, 4) {
			// mostly requests the topology can satisfy: digits bounded by what exists
			rp = fmt.Sprintf("%d%d%d", rng.Intn(minI(dcs, 3)), rng.Intn(minI(maxRacks, 3)), rng.Intn(minI(maxServers, 3)))
		}
		pref := rng.Intn(8)
		kind := "grow"
		if rng.Chance(1, 5) {
			// two growth requests at once (two collections, or two /vol/grow calls): the second is started
			// while the first one's AllocateVolume request is in flight
			kind = "grow2"
		}
		p.Add(simkit.St(kind, rng.Uint64(), "rp", rp, "ssd", rng.Intn(5)/4, "pref", pref, "prefn", rng.Intn(n+1)))
		if rng.Chance(1, 2) {
			p.Add(simkit.St("change", rng.Uint64(), "n", rng.Intn(n), "delta", rng.Range(-2, 2)))
		}
	}
	return p
}

type c10server struct {
	*mserver
	dcI, rackI int
}

func execC10(r *simkit.Run) {
	p := r.Plan
	n := NewNet(r)
	defer n.Close()
	m := NewMaster(MasterCfg{Host: "master", Port: 9333, SizeLimitMB: 100})
	t := &topoRun{r: r, prop: "C10", m: m, ecDefs: map[uint32]mec{}}
	simkit.Wait()
	var servers []*c10server
	type alloc struct {
		server string
		vid    uint32
		rp     string
		disk   string
	}
	var allocs []alloc
	nextVid := uint32(1000)
	vg := topology.NewDefaultVolumeGrowth()
	byID := map[string]*c10server{}
	free := func(s *c10server, disk string) int64 {
		var vols, remote, ec int64
		for _, v := range s.reg.vols {
			if normDisk(v.Disk) == normDisk(disk) {
				vols++
				if v.Remote {
					remote++
				}
			}
		}
		for _, e := range s.reg.ecs {
			if normDisk(e.Disk) == normDisk(disk) {
				ec += int64(bitsCount(e.Bits))
			}
		}
		// slots taken by EC shards as the system itself publishes them (Disk.FreeSpace, shown on the
		// master's status page): one slot per ten shards plus one
		used := vols - remote
		if ec > 0 {
			used += ec/10 + 1
		}
		return int64(s.reg.max[disk]) - used
	}
	for i := range p.Steps {
		st := &p.Steps[i]
		switch st.Kind {
		case "server":
			idn := len(servers)
			s := &c10server{mserver: &mserver{idx: idn, ip: fmt.Sprintf("vs%d", idn), port: 8080, dc: fmt.Sprintf("dc%d", st.Int("dc")), rack: fmt.Sprintf("rack%d", st.Int("rack"))}, dcI: int(st.Int("dc")), rackI: int(st.Int("rack"))}
			s.actual = vsState{vols: map[uint32]mvol{}, ecs: map[uint32]mec{}, max: map[string]uint32{"": uint32(st.Int("max"))}}
			if st.Int("ssd") > 0 {
				s.actual.max["ssd"] = uint32(st.Int("ssd"))
			}
			for k := int64(0); k < st.Int("used"); k++ {
				nextVid++
				s.actual.vols[nextVid] = mvol{Id: nextVid, Rp: "000", Size: 10, Remote: st.Int("remote") == 1 && k == 0}
			}
			for k := int64(0); k < st.Int("ssdused"); k++ {
				nextVid++
				s.actual.vols[nextVid] = mvol{Id: nextVid, Rp: "000", Size: 10, Disk: "ssd"}
			}
			if ec := st.Int("ec"); ec > 0 {
				nextVid++
				bits := uint32(0)
				for b := int64(0); b < ec && b < 14; b++ {
					bits |= 1 << uint(b)
				}
				s.actual.ecs[nextVid] = mec{nextVid, "", bits, ""}
				if ec > 14 {
					nextVid++
					bits2 := uint32(0)
					for b := int64(0); b < ec-14 && b < 14; b++ {
						bits2 |= 1 << uint(b)
					}
					s.actual.ecs[nextVid] = mec{nextVid, "", bits2, ""}
				}
			}
			servers = append(servers, s)
			t.servers = append(t.servers, s.mserver)
			byID[s.id()] = s
			fv := &fakeVolumeServer{id: s.id(), onReq: func(server string, req *volume_server_pb.AllocateVolumeRequest) {
				allocs = append(allocs, alloc{server, req.VolumeId, req.Replication, req.DiskType})
			}}
			n.ServeGRPC(fmt.Sprintf("%s:%d", s.ip, s.port+10000), func(gs *grpc.Server) { volume_server_pb.RegisterVolumeServerServer(gs, fv) })
			t.connect(s.mserver)
			r.Log("server %s dc=%s rack=%s max=%v vols=%d ec=%d", s.id(), s.dc, s.rack, s.actual.max, len(s.actual.vols), len(s.actual.ecs))
			r.Abs("server")
		case "change":
			if len(servers) == 0 {
				continue
			}
			s := servers[int(st.Int("n"))%len(servers)]
			d := st.Int("delta")
			for ; d > 0; d-- {
				nextVid++
				s.actual.vols[nextVid] = mvol{Id: nextVid, Rp: "000", Size: 10}
			}
			for ; d < 0; d++ {
				for _, vid := range sortedU32(s.actual.vols) {
					if vid > 1000 { // only pre-existing filler volumes, never one the master grew
						delete(s.actual.vols, vid)
						break
					}
				}
			}
			t.applyFull(s.mserver, s.actual, true)
			t.send(s.mserver, t.fullMsg(s.mserver, s.actual, true))
			r.Log("heartbeat %s now %d volumes", s.id(), len(s.actual.vols))
			r.Abs("change")
			r.NonTrivial()
		case "grow", "grow2":
			if len(servers) == 0 {
				continue
			}
			rpS := st.Str("rp")
			rp := rpOf(rpS)
			disk := ""
			if st.Int("ssd") == 1 {
				disk = "ssd"
			}
			opt := &topology.VolumeGrowOption{ReplicaPlacement: rp, Ttl: needle.EMPTY_TTL, DiskType: types.ToDiskType(disk)}
			ps := servers[int(st.Int("prefn"))%len(servers)]
			switch st.Int("pref") {
			case 1:
				opt.DataCenter = ps.dc
			case 2:
				opt.DataCenter, opt.Rack = ps.dc, ps.rack
			case 3:
				opt.DataCenter, opt.Rack, opt.DataNode = ps.dc, ps.rack, ps.id()
			case 4:
				opt.DataCenter = "no-such-dc"
			}
			x, y, z := rp.DiffDataCenterCount, rp.DiffRackCount, rp.SameRackCount
			sit := fmt.Sprintf("rp=%d%d%d", min1(x), min1(y), min1(z))
			if opt.DataCenter != "" {
				sit += "+pref"
			}
			// judge one growth request's allocations against the registered state at that moment
			judge := func(got []alloc, err error, tag string) bool {
				exists := c10exists(servers, free, disk, x, y, z, opt)
				var names []string
				for _, a := range got {
					names = append(names, a.server)
				}
				r.Log("grow%s rp=%s disk=%q pref=%s/%s/%s -> err=%v allocated=%v (valid set exists: %v)", tag, rpS, disk, opt.DataCenter, opt.Rack, opt.DataNode, err != nil, names, exists)
				r.Abs(fmt.Sprintf("grow%s:%s:%v:%v", tag, rpS, err == nil, exists))
				if !exists && len(got) > 0 {
					r.Violate("allocated-although-no-valid-placement", sit+tag, "replication %s disk %q preference %s/%s/%s: no valid server set exists but the master allocated volume %d on %v", rpS, disk, opt.DataCenter, opt.Rack, opt.DataNode, got[0].vid, names)
					return false
				}
				switch {
				case len(got) > 0:
					r.Count("grows-allocated")
				case exists:
					r.Count("grows-refused-although-a-valid-set-exists")
				default:
					r.Count("grows-refused-no-valid-set")
				}
				if len(got) == 0 {
					return true
				}
				if why := c10valid(got[0].vid, names, byID, free, disk, x, y, z, opt); why != "" {
					class := "wrong-placement"
					if err != nil {
						class = "partial-placement"
					}
					r.Violate(class, sit+tag, "replication %s disk %q preference %s/%s/%s: volume %d allocated on %v (grow err=%v): %s", rpS, disk, opt.DataCenter, opt.Rack, opt.DataNode, got[0].vid, names, err, why)
					return false
				}
				for _, a := range got {
					if a.vid != got[0].vid || a.rp != rpS || normDisk(a.disk) != normDisk(disk) {
						r.Violate("wrong-allocation-request", sit+tag, "allocation request %+v does not match the grow request (rp %s disk %q vid %d)", a, rpS, disk, got[0].vid)
						return false
					}
					// the modelled server now has the volume (and reports it from now on)
					s := byID[a.server]
					s.actual.vols[a.vid] = mvol{Id: a.vid, Rp: rpS, Disk: disk}
					s.reg.vols[a.vid] = mvol{Id: a.vid, Rp: rpS, Disk: disk}
				}
				return true
			}
			before := len(allocs)
			if st.Kind == "grow" {
				_, err := vg.GrowByCountAndType(grpc.WithInsecure(), 1, opt, m.MS.Topo)
				simkit.Wait()
				if !judge(allocs[before:], err, "") {
					return
				}
				break
			}
			// grow2: request A parks at its first AllocateVolume; request B (same option) is started meanwhile
			n.Gate("/volume_server_pb.VolumeServer/AllocateVolume")
			var errA, errB error
			doneA, doneB := make(chan struct{}), make(chan struct{})
			go func() { _, errA = vg.GrowByCountAndType(grpc.WithInsecure(), 1, opt, m.MS.Topo); close(doneA) }()
			simkit.Wait()
			isDone := func(c chan struct{}) bool {
				select {
				case <-c:
					return true
				default:
					return false
				}
			}
			inFlight := len(n.Pending())
			go func() { _, errB = vg.GrowByCountAndType(grpc.WithInsecure(), 1, opt, m.MS.Topo); close(doneB) }()
			// B may be waiting for the growth lock (a sync.Mutex, which the bubble does not treat as parked), so
			// no quiescence wait from here on: spin, and see whether B gets as far as its own allocation request
			overlapped := false
			for i := 0; i < 20000 && inFlight > 0 && !isDone(doneB); i++ {
				if len(n.Pending()) > inFlight {
					overlapped = true
					break
				}
				runtime.Gosched()
			}
			n.Ungate()
			for i := 0; !(isDone(doneA) && isDone(doneB)); i++ {
				for _, msg := range n.Pending() {
					n.Release(msg, Verdict{Kind: "ok"})
				}
				runtime.Gosched()
				if i > 50000000 {
					r.HarnessError("concurrent growth requests did not finish")
					return
				}
			}
			simkit.Wait()
			r.NonTrivial()
			if inFlight > 0 {
				r.Fault("second-growth-request-while-first-allocation-in-flight")
			}
			if overlapped {
				r.Probe("second-growth-request-searched-while-first-allocation-in-flight")
			}
			// allocations grouped by volume id in order of first arrival; each group is judged in turn
			var order []uint32
			groups := map[uint32][]alloc{}
			for _, a := range allocs[before:] {
				if _, ok := groups[a.vid]; !ok {
					order = append(order, a.vid)
				}
				groups[a.vid] = append(groups[a.vid], a)
			}
			errs := []error{errA, errB}
			if len(order) > 2 {
				r.Violate("wrong-allocation-request", sit+"/concurrent", "two growth requests for one volume each allocated %d volume ids", len(order))
				return
			}
			nOK := 0
			for _, e := range errs {
				if e == nil {
					nOK++
				}
			}
			for gi, vid := range order {
				var e error
				if gi >= nOK {
					e = fmt.Errorf("growth request failed")
				}
				if !judge(groups[vid], e, "/concurrent") {
					return
				}
			}
			for gi := len(order); gi < 2; gi++ {
				if !judge(nil, fmt.Errorf("growth request failed"), "/concurrent") {
					return
				}
			}
		}
		if r.Violated() || r.Res.HarnessError != "" {
			return
		}
	}
	for _, s := range t.servers {
		if s.stream != nil {
			close(s.stream.in)
		}
	}
	simkit.Wait()
	_ = master_pb.Heartbeat{}
}

func min1(v int) int {
	if v > 1 {
		return 2
	}
	return v
}

// c10valid checks one allocated set against the xyz rule; "" = valid.
func c10valid(vid uint32, names []string, byID map[string]*c10server, free func(*c10server, string) int64, disk string, x, y, z int, opt *topology.VolumeGrowOption) string {
	if len(names) != 1+x+y+z {
		return fmt.Sprintf("%d servers instead of %d", len(names), 1+x+y+z)
	}
	seen := map[string]bool{}
	byDc := map[string][]*c10server{}
	for _, nm := range names {
		if seen[nm] {
			return "server " + nm + " chosen twice"
		}
		seen[nm] = true
		s := byID[nm]
		if s == nil {
			return "unknown server " + nm
		}
		if free(s, disk) < 1 {
			return fmt.Sprintf("server %s has no free slot for disk type %q (max %d)", nm, disk, s.reg.max[disk])
		}
		byDc[s.dc] = append(byDc[s.dc], s)
	}
	if len(byDc) != x+1 {
		return fmt.Sprintf("%d data centers instead of %d", len(byDc), x+1)
	}
	mainDc := ""
	for dc, ss := range byDc {
		if len(ss) == 1+y+z && (mainDc == "" || dc == opt.DataCenter) {
			mainDc = dc
		} else if len(ss) != 1 && len(ss) != 1+y+z {
			return fmt.Sprintf("data center %s holds %d replicas", dc, len(ss))
		}
	}
	if mainDc == "" {
		return "no data center holds the 1+y+z main replicas"
	}
	for dc, ss := range byDc {
		if dc != mainDc && len(ss) != 1 {
			return fmt.Sprintf("other data center %s holds %d replicas", dc, len(ss))
		}
	}
	byRack := map[string][]*c10server{}
	for _, s := range byDc[mainDc] {
		byRack[s.rack] = append(byRack[s.rack], s)
	}
	if len(byRack) != y+1 {
		return fmt.Sprintf("%d racks in the main data center instead of %d", len(byRack), y+1)
	}
	mainRack := ""
	for rk, ss := range byRack {
		if len(ss) == z+1 && (mainRack == "" || rk == opt.Rack) {
			mainRack = rk
		}
	}
	if mainRack == "" {
		return "no rack holds the z+1 same-rack replicas"
	}
	for rk, ss := range byRack {
		if rk != mainRack && len(ss) != 1 {
			return fmt.Sprintf("other rack %s holds %d replicas", rk, len(ss))
		}
	}
	if opt.DataCenter != "" && mainDc != opt.DataCenter {
		return "requested data center " + opt.DataCenter + " not honoured (main is " + mainDc + ")"
	}
	if opt.Rack != "" && mainRack != opt.Rack {
		return "requested rack " + opt.Rack + " not honoured (main is " + mainRack + ")"
	}
	if opt.DataNode != "" && !seen[opt.DataNode] {
		return "requested server " + opt.DataNode + " not among " + strings.Join(names, ",")
	}
	return ""
}

// c10exists: brute force over the (small) topology.
func c10exists(servers []*c10server, free func(*c10server, string) int64, disk string, x, y, z int, opt *topology.VolumeGrowOption) bool {
	type rackKey struct{ dc, rack string }
	freeIn := map[rackKey][]*c10server{}
	dcs := map[string]bool{}
	for _, s := range servers {
		if s.reg == nil {
			continue
		}
		dcs[s.dc] = true
		if free(s, disk) >= 1 {
			freeIn[rackKey{s.dc, s.rack}] = append(freeIn[rackKey{s.dc, s.rack}], s)
		}
	}
	dcHasFree := func(dc string) bool {
		for k, ss := range freeIn {
			if k.dc == dc && len(ss) > 0 {
				return true
			}
		}
		return false
	}
	var dcList []string
	for dc := range dcs {
		dcList = append(dcList, dc)
	}
	sort.Strings(dcList)
	for _, mainDc := range dcList {
		if opt.DataCenter != "" && mainDc != opt.DataCenter {
			continue
		}
		others := 0
		for _, dc := range dcList {
			if dc != mainDc && dcHasFree(dc) {
				others++
			}
		}
		if others < x {
			continue
		}
		// main rack with z+1 free servers (containing the preferred node), y other racks with a free server
		for k, ss := range freeIn {
			if k.dc != mainDc || len(ss) < z+1 {
				continue
			}
			if opt.Rack != "" && k.rack != opt.Rack {
				continue
			}
			if opt.DataNode != "" {
				has := false
				for _, s := range ss {
					if s.id() == opt.DataNode {
						has = true
					}
				}
				if !has {
					continue
				}
			}
			otherRacks := 0
			for k2, ss2 := range freeIn {
				if k2.dc == mainDc && k2.rack != k.rack && len(ss2) > 0 {
					otherRacks++
				}
			}
			if otherRacks >= y {
				return true
			}
		}
	}
	return false
}
