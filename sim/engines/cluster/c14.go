package cluster

import (
	"bytes"
	"fmt"
	"sort"
	"strings"
	"time"

	"verifsim/simkit"

	"github.com/chrislusf/seaweedfs/weed/operation"
	"github.com/chrislusf/seaweedfs/weed/pb/volume_server_pb"
	"github.com/chrislusf/seaweedfs/weed/storage/needle"
	"github.com/chrislusf/seaweedfs/weed/util"
	"google.golang.org/grpc"
)

// C14 — vacuum rounds keep replicas consistent and writable.
//
// Real master + 1-3 real volume servers holding one replicated volume with
// garbage; the master's own Topology.Vacuum runs in a goroutine while every
// Vacuum* RPC parks on the simulated network. For each (replica, phase) the
// plan picks ok / request dropped / response lost / delayed past the phase
// time-out, and the completion order.

func init() {
	simkit.Register(&simkit.Prop{ID: "C14", Gen: genC14, Exec: execC14})
}

const vacPrefix = "/volume_server_pb.VolumeServer/VacuumVolume"

func genC14(tier string, seed uint64, idx int) *simkit.Plan {
	rng := simkit.NewRand(seed)
	p := &simkit.Plan{Engine: "cluster"}
	replicas := rng.Range(1, 3)
	p.SetC("replicas", int64(replicas))
	faults := idx%3 != 0
	if faults {
		p.SetC("faults", 1)
	}
	nBlobs := rng.Range(3, 8)
	for i := 0; i < nBlobs; i++ {
		p.Add(simkit.St("put", rng.Uint64(), "size", rng.Range(50, 3000)))
	}
	// garbage above the 30% threshold in most runs, below it in some
	nDel := rng.Range(0, nBlobs)
	if rng.Chance(3, 4) && nDel < nBlobs/2+1 {
		nDel = nBlobs/2 + 1
	}
	straddle := replicas > 1 && rng.Chance(1, 4)
	if straddle {
		// replicas on different sides of the threshold: most blobs deleted on ONE replica only
		// (a replica that missed deletes, or was compacted more recently than its peers)
		nDel = rng.Intn(2) * rng.Intn(2)
	}
	for i := 0; i < nDel; i++ {
		p.Add(simkit.St("del", rng.Uint64(), "i", i))
	}
	if straddle {
		rep := rng.Intn(replicas)
		for i := nDel; i < nBlobs-rng.Intn(2); i++ {
			p.Add(simkit.St("del1", rng.Uint64(), "i", i, "replica", rep))
		}
	}
	if replicas > 1 && rng.Chance(1, 3) {
		// replicas whose garbage differs: a delete that reached one replica only (as after a partially failed delete)
		for i, n := 0, rng.Range(1, nBlobs); i < n; i++ {
			p.Add(simkit.St("del1", rng.Uint64(), "i", rng.Intn(nBlobs), "replica", rng.Intn(replicas)))
		}
	}
	if rng.Chance(1, 6) {
		p.Add(simkit.St("readonly", rng.Uint64(), "replica", rng.Intn(replicas)))
	}
	if replicas > 1 && rng.Chance(1, 6) {
		p.Add(simkit.St("down", rng.Uint64(), "replica", rng.Intn(replicas)))
	}
	// verdict table for the round
	round := simkit.St("vacuum", rng.Uint64())
	round.A = map[string]int64{}
	for r := 0; r < replicas; r++ {
		for ph, name := range []string{"check", "compact", "commit", "cleanup"} {
			v := 0 // ok
			if faults && rng.Chance(1, 4) {
				v = 1 + rng.Intn(3) // 1 drop, 2 lostack, 3 delay past time-out
				if ph >= 2 && v == 3 {
					v = 1 + rng.Intn(2) // commit and cleanup are sequential without a time-out
				}
			}
			round.A[fmt.Sprintf("%s%d", name, r)] = int64(v)
		}
	}
	round.A["writes"] = int64(rng.Intn(3))
	if rng.Chance(1, 5) {
		// further vacuum requests arrive while the round is running (the periodic ticker plus volume.vacuum / /vol/vacuum calls)
		round.A["extra"] = int64(rng.Range(1, 3))
	}
	p.Add(round)
	for i, n := 0, rng.Range(0, 2); i < n; i++ {
		p.Add(simkit.St("put", rng.Uint64(), "size", rng.Range(50, 500)))
	}
	if rng.Chance(1, 3) {
		second := simkit.St("vacuum", rng.Uint64())
		second.A = map[string]int64{"writes": 0}
		p.Add(second)
	}
	return p
}

type c14blob struct {
	fid      string
	data     []byte
	deleted  bool
	diverged bool // deleted on one replica only by the plan: replicas legitimately differ on it
}

func execC14(r *simkit.Run) {
	p := r.Plan
	r.Res.FaultConfig = p.C("faults") == 1
	v := util.GetViper()
	for _, k := range []string{"copy_1", "copy_2", "copy_3", "copy_other"} {
		v.Set("master.volume_growth."+k, 1)
	}
	n := NewNet(r)
	defer n.Close()
	m := StartMaster(n, MasterCfg{Host: "master", Port: 9333, SizeLimitMB: 30})
	replicas := int(p.C("replicas"))
	if replicas < 1 {
		replicas = 1
	}
	var vss []*VS
	for i := 0; i < replicas; i++ {
		vss = append(vss, StartVS(n, VSCfg{Host: fmt.Sprintf("vs%d", i), Port: 8080, Dir: vsDir(r, i), DC: "dc0", Rack: "r0", Master: m.Addr}))
	}
	time.Sleep(6 * time.Second)
	simkit.Wait()
	rp := fmt.Sprintf("00%d", replicas-1)
	masterFn := func() string { return m.Addr }
	var blobs []*c14blob
	var vid needle.VolumeId
	downed := map[int]bool{}
	put := func(st *simkit.Step) (ok bool) {
		ar, err := operation.Assign(masterFn, grpc.WithInsecure(), &operation.VolumeAssignRequest{Count: 1, Replication: rp})
		if err != nil {
			r.Log("assign failed: %v", err)
			r.Abs("put:noassign")
			return false
		}
		data := simkit.StepRand(st, 3).Bytes(int(st.Int("size")))
		copy(data, fmt.Sprintf("%08x", uint32(st.Seed)))
		_, err = operation.UploadData("http://"+ar.Url+"/"+ar.Fid, "", false, data, false, "application/octet-stream", nil, "")
		if err != nil {
			r.Log("upload %s failed: %v", ar.Fid, err)
			r.Abs("put:fail")
			return false
		}
		if f, perr := needle.ParseFileIdFromString(ar.Fid); perr == nil && vid == 0 {
			vid = f.VolumeId // the first volume is the subject of the vacuum rounds
		}
		blobs = append(blobs, &c14blob{fid: ar.Fid, data: data})
		r.Log("put %s len=%d", ar.Fid, len(data))
		r.Abs("put:ok")
		return true
	}
	writable := func(vid needle.VolumeId) bool {
		for _, l := range m.MS.Topo.VerifLayouts() {
			for _, w := range l.Writables {
				if needle.VolumeId(w) == vid {
					return true
				}
			}
		}
		return false
	}
	for i := range p.Steps {
		st := &p.Steps[i]
		switch st.Kind {
		case "put":
			put(st)
		case "del":
			i := int(st.Int("i"))
			if i < len(blobs) && !blobs[i].deleted {
				lr, _ := operation.LookupFileId(masterFn, blobs[i].fid)
				if err := util.Delete(lr, ""); err == nil {
					blobs[i].deleted = true
					r.Log("delete %s", blobs[i].fid)
					r.Abs("del")
				} else {
					r.Log("delete %s failed: %v", blobs[i].fid, err)
				}
			}
		case "del1":
			// delete on one replica only (type=replicate is what a primary sends to its replicas)
			i, rep := int(st.Int("i")), int(st.Int("replica"))%len(vss)
			if i < len(blobs) && !downed[rep] {
				err := util.Delete("http://"+vss[rep].Addr()+"/"+blobs[i].fid+"?type=replicate", "")
				r.Log("delete %s on replica %d only: err=%v", blobs[i].fid, rep, err)
				r.Abs("del1")
				r.Fault("replicas-with-different-garbage")
				blobs[i].diverged = true
			}
		case "down":
			rep := int(st.Int("replica")) % len(vss)
			if !downed[rep] {
				downed[rep] = true
				vss[rep].S.StopHeartbeat()
				n.SetDown(vss[rep].Host, true)
				time.Sleep(12 * time.Second) // the master notices the end of the heartbeat stream
				simkit.Wait()
				r.Log("volume server %d is down", rep)
				r.Abs("down")
				r.Fault("replica-server-down")
			}
		case "readonly":
			rep := int(st.Int("replica")) % len(vss)
			if vid != 0 {
				operation.WithVolumeServerClient(vss[rep].Addr(), grpc.WithInsecure(), func(c volume_server_pb.VolumeServerClient) error {
					_, err := c.VolumeMarkReadonly(ctxBg(), &volume_server_pb.VolumeMarkReadonlyRequest{VolumeId: uint32(vid)})
					return err
				})
				time.Sleep(6 * time.Second) // let the heartbeat report it
				simkit.Wait()
				r.Log("replica %d marked read-only", rep)
				r.Abs("readonly")
			}
		case "vacuum":
			if vid == 0 {
				continue
			}
			c14round(r, n, m, vss, vid, st, writable, func() bool {
				ws := simkit.St("put", simkit.Mix(st.Seed, 99), "size", 100)
				return put(&ws)
			})
		}
		if r.Violated() || r.Res.HarnessError != "" {
			return
		}
	}
	c14compare(r, vss, blobs, downed, "end")
}

func c14compare(r *simkit.Run, vss []*VS, blobs []*c14blob, downed map[int]bool, when string) {
	// (ii) replicas hold equal live content: read every key from every replica
	for _, b := range blobs {
		if b.diverged {
			continue
		}
		var firstDesc string
		first := true
		for i, v := range vss {
			if downed[i] {
				continue
			}
			data, _, err := util.Get("http://" + v.Addr() + "/" + b.fid)
			desc := ""
			switch {
			case err != nil:
				desc = "error:" + firstWord(err.Error())
			default:
				desc = fmt.Sprintf("ok:%d:%x", len(data), simkit.HashString(string(data)))
			}
			if first {
				firstDesc, first = desc, false
			} else if desc != firstDesc {
				r.Violate("replicas-differ", "after-vacuum-round", "%s: %s reads as %s on %s but %s on %s", when, b.fid, firstDesc, vss[0].Addr(), desc, v.Addr())
				return
			}
			if !b.deleted && (err != nil || !bytes.Equal(data, b.data)) {
				r.Violate("live-blob-lost", "after-vacuum-round", "%s: %s (never deleted) reads as %s on %s", when, b.fid, desc, v.Addr())
				return
			}
		}
	}
}

func firstWord(s string) string {
	if i := strings.IndexAny(s, " :"); i > 0 {
		return s[:i]
	}
	return s
}

func c14round(r *simkit.Run, n *Net, m *Master, vss []*VS, vid needle.VolumeId, st *simkit.Step, writableOf func(needle.VolumeId) bool, tryWrite func() bool) {
	rng := simkit.StepRand(st, 5)
	writable := func() bool { return writableOf(vid) }
	before := writable()
	// what each replica's compaction really did in this round, seen at the wire
	compactAcked := map[string]bool{}
	commitSent := map[string]bool{}
	phaseOf := func(method string) string {
		switch {
		case strings.HasSuffix(method, "VacuumVolumeCheck"):
			return "check"
		case strings.HasSuffix(method, "VacuumVolumeCompact"):
			return "compact"
		case strings.HasSuffix(method, "VacuumVolumeCommit"):
			return "commit"
		case strings.HasSuffix(method, "VacuumVolumeCleanup"):
			return "cleanup"
		}
		return ""
	}
	replicaOf := func(dest string) int {
		for i, v := range vss {
			if strings.HasPrefix(dest, v.Host+":") {
				return i
			}
		}
		return -1
	}
	n.Gate(vacPrefix)
	done := make(chan struct{})
	go func() {
		m.MS.Topo.Vacuum(grpc.WithInsecure(), 0.3, 0)
		close(done)
	}()
	extra := int(st.Int("extra"))
	var extraDone []chan struct{}
	r.Log("vacuum round starts (writable before: %v)", before)
	r.Abs("vacuum")
	r.NonTrivial()
	finished := false
	writes := int(st.Int("writes"))
	for iter := 0; iter < 200; iter++ {
		simkit.Wait()
		select {
		case <-done:
			finished = true
		default:
		}
		pend := n.Pending()
		if len(pend) == 0 {
			if finished {
				break
			}
			// nothing parked and the round not finished: only timers can make progress
			time.Sleep(10 * time.Second)
			continue
		}
		for ; extra > 0; extra-- {
			// another vacuum request while the round is in progress: it has to bounce off the running one
			ed := make(chan struct{})
			extraDone = append(extraDone, ed)
			go func() {
				m.MS.Topo.Vacuum(grpc.WithInsecure(), 0.3, 0)
				close(ed)
			}()
			simkit.Wait()
			r.Log("another vacuum request arrives while the round is running")
			r.Fault("vacuum-request-while-a-round-is-running")
			pend = n.Pending()
		}
		// choose who goes next
		msg := pend[rng.Intn(len(pend))]
		ph, rep := phaseOf(msg.Method), replicaOf(msg.Dest)
		verdict := Verdict{Kind: "ok"}
		code := st.Int(fmt.Sprintf("%s%d", ph, rep))
		switch {
		case msg.Phase == "req" && code == 1:
			verdict.Kind = "drop"
			r.Fault("req-drop:" + ph)
		case msg.Phase == "resp" && code == 2:
			verdict.Kind = "lostack"
			r.Fault("resp-lost:" + ph)
		case msg.Phase == "req" && code == 3:
			verdict.Delay = map[string]time.Duration{"check": 2 * time.Minute, "compact": 5 * time.Minute}[ph]
			r.Fault("delay-past-timeout:" + ph)
		}
		if msg.Phase == "req" && ph == "commit" {
			commitSent[msg.Dest] = true
			if !compactAcked[msg.Dest] {
				r.Violate("commit-without-successful-compact", "replica-compact-not-acked", "commit sent to %s whose compaction did not report success in this round", msg.Dest)
			}
		}
		if msg.Phase == "resp" && ph == "compact" && verdict.Kind == "ok" {
			compactAcked[msg.Dest] = true // (an RPC error from the server side also passes here; see below)
		}
		if msg.Phase == "req" && ph == "cleanup" && verdict.Kind == "ok" {
			compactAcked[msg.Dest] = false // the replica's compaction result is discarded: a later commit has nothing to commit
		}
		r.Log("release %s %s %s -> %s delay=%v", msg.Dest, ph, msg.Phase, verdict.Kind, verdict.Delay)
		r.Abs(fmt.Sprintf("%s:%s:%s", ph, msg.Phase, verdict.Kind))
		n.Release(msg, verdict)
		if writes > 0 && ph == "compact" && msg.Phase == "req" {
			writes--
			simkit.Wait()
			ok := tryWrite()
			r.Log("client write during the round: ok=%v", ok)
		}
	}
	n.Ungate()
	n.ReleaseAll()
	// let delayed requests and late responses drain
	time.Sleep(6 * time.Minute)
	simkit.Wait()
	select {
	case <-done:
	default:
		r.HarnessError("vacuum round did not finish")
		return
	}
	for _, ed := range extraDone {
		select {
		case <-ed:
		default:
			r.HarnessError("an additional vacuum request did not finish")
			return
		}
	}
	afterNow := writable()
	time.Sleep(16 * time.Second) // three heartbeat pulses
	simkit.Wait()
	after := writable()
	r.Log("vacuum round ended (writable right after: %v, after 3 pulses: %v)", afterNow, after)
	// (iii) writable afterwards exactly when it would be writable had no vacuum been attempted
	if before != after {
		var fs []string
		for k, v := range r.Res.Faults {
			if v > 0 && (strings.Contains(k, "compact") || strings.Contains(k, "commit") || strings.Contains(k, "check")) {
				fs = append(fs, k)
			}
		}
		sort.Strings(fs)
		key := "no-fault"
		if len(fs) > 0 {
			key = fs[0]
			if i := strings.Index(key, ":"); i > 0 {
				key = "after-failed-" + key[i+1:]
			}
		}
		r.Violate("writability-changed-by-vacuum", key, "volume %d was writable=%v before the round and is writable=%v three heartbeats after it (faults: %v)", vid, before, after, fs)
	}
}
