package cluster

import (
	"bytes"
	"fmt"
	"io"
	"net/http"
	"os"
	"regexp"
	"sort"
	"strings"
	"time"

	"verifsim/simkit"

	"github.com/chrislusf/seaweedfs/weed/operation"
	"github.com/chrislusf/seaweedfs/weed/pb/volume_server_pb"
	"github.com/chrislusf/seaweedfs/weed/storage/needle"
	"github.com/chrislusf/seaweedfs/weed/util"
	"google.golang.org/grpc"
)

// C40 — replicated writes leave every replica with the same blob.
//
// Real master + 2-3 real volume servers; uploads (names and mimes that do or
// do not trigger client-side compression, pairs, TTL, ts, manifest flag),
// overwrites and deletes go to the primary through the real client library;
// every HTTP request parks on the simulated network and the plan decides, per
// replica request and attempt, ok / dropped / response lost / delayed, and the
// completion order. After every operation the client saw succeed, every
// replica must hold the same outcome for that file id.

func init() {
	simkit.Register(&simkit.Prop{ID: "C40", Gen: genC40, Exec: execC40})
}

func genC40(tier string, seed uint64, idx int) *simkit.Plan {
	rng := simkit.NewRand(seed)
	p := &simkit.Plan{Engine: "cluster"}
	replicas := rng.Range(2, 3)
	p.SetC("replicas", int64(replicas))
	rps := map[int][]string{2: {"001", "010"}, 3: {"002", "011", "020"}}[replicas]
	p.SetCS("rp", rps[rng.Intn(len(rps))])
	faults := idx%2 == 1
	if faults {
		p.SetC("faults", 1)
	}
	n := rng.Range(3, 10)
	puts := 0
	for i := 0; i < n; i++ {
		frate := 0
		if faults && rng.Chance(1, 2) {
			frate = rng.Range(1, 3) // how many of ten replica messages get a fault
		}
		// a replica that is unreachable for the first k replica requests of the operation: 3 = the primary's own
		// retries are used up and the CLIENT retries the whole operation, 9 = every client attempt fails
		failn := 0
		if faults && rng.Chance(1, 4) {
			failn = []int{1, 3, 3, 4, 6, 9}[rng.Intn(6)]
		}
		switch x := rng.Intn(10); {
		case x < 6 || puts == 0:
			puts++
			p.Add(simkit.St("put", rng.Uint64(), "size", []int{1, 30, 200, 2000, 20000}[rng.Intn(5)], "kind", rng.Intn(5), "pairs", rng.Intn(3), "ttl", rng.Intn(4), "ts", rng.Intn(3), "cm", rng.Intn(8)/7, "frate", frate, "failn", failn))
		case x < 8:
			p.Add(simkit.St("overwrite", rng.Uint64(), "i", rng.Intn(puts), "size", []int{1, 30, 2000}[rng.Intn(3)], "kind", rng.Intn(5), "frate", frate, "failn", failn))
		default:
			p.Add(simkit.St("del", rng.Uint64(), "i", rng.Intn(puts), "frate", frate, "failn", failn))
		}
	}
	return p
}

type c40blob struct {
	fid     string
	primary string
	ok      bool // the last operation on it was reported successful
	deleted bool
	failedDelete bool // an earlier delete of it was reported failed (replicas may have diverged then)
}

func execC40(r *simkit.Run) {
	p := r.Plan
	r.Res.FaultConfig = p.C("faults") == 1
	v := util.GetViper()
	for _, k := range []string{"copy_1", "copy_2", "copy_3", "copy_other"} {
		v.Set("master.volume_growth."+k, 1)
	}
	n := NewNet(r)
	defer n.Close()
	m := StartMaster(n, MasterCfg{Host: "master", Port: 9333, SizeLimitMB: 30})
	replicas := int(p.C("replicas"))
	if replicas < 2 {
		replicas = 2
	}
	rp := p.CS("rp")
	if rp == "" {
		rp = "001"
	}
	// racks so that the placement is satisfiable: 00z same rack; 0y0 y other racks; 011 one of each
	rackOf := func(i int) string {
		switch rp {
		case "010", "020":
			return fmt.Sprintf("r%d", i)
		case "011":
			return fmt.Sprintf("r%d", i/2)
		}
		return "r0"
	}
	var vss []*VS
	for i := 0; i < replicas; i++ {
		vss = append(vss, StartVS(n, VSCfg{Host: fmt.Sprintf("vs%d", i), Port: 8080, Dir: vsDir(r, i), DC: "dc0", Rack: rackOf(i), Master: m.Addr}))
	}
	time.Sleep(6 * time.Second)
	simkit.Wait()
	masterFn := func() string { return m.Addr }
	var blobs []*c40blob

	// pump runs one client operation to completion under the message scheduler
	pump := func(st *simkit.Step, op func() error) error {
		rng := simkit.StepRand(st, 9)
		frate := int(st.Int("frate"))
		failn, replReqs := int(st.Int("failn")), 0
		n.Gate("HTTP POST", "HTTP DELETE")
		defer n.Ungate()
		done := make(chan error, 1)
		go func() { done <- op() }()
		var result error
		finished := false
		for iter := 0; iter < 400; iter++ {
			simkit.Wait()
			if !finished {
				select {
				case result = <-done:
					finished = true
				default:
				}
			}
			pend := n.Pending()
			if len(pend) == 0 {
				if finished {
					break
				}
				time.Sleep(time.Second) // retries of the client library run on the fake clock
				continue
			}
			if len(pend) >= 2 {
				r.Probe("two-or-more-messages-pending")
				r.NonTrivial()
			}
			msg := pend[rng.Intn(len(pend))]
			verdict := Verdict{Kind: "ok"}
			if strings.HasSuffix(msg.Method, "#replicate") && msg.Phase == "req" {
				replReqs++
			}
			if strings.HasSuffix(msg.Method, "#replicate") && msg.Phase == "req" && replReqs <= failn {
				verdict.Kind = "drop"
				r.Fault("replica-req-drop")
				r.Fault("replica-unreachable-for-first-requests")
			} else if strings.HasSuffix(msg.Method, "#replicate") && frate > 0 && rng.Intn(10) < frate {
				switch rng.Intn(3) {
				case 0:
					if msg.Phase == "req" {
						verdict.Kind = "drop"
						r.Fault("replica-req-drop")
					}
				case 1:
					if msg.Phase == "resp" {
						verdict.Kind = "lostack"
						r.Fault("replica-resp-lost")
					}
				default:
					verdict.Delay = time.Duration(rng.Range(1, 5)) * time.Second
					r.Fault("replica-delay")
				}
			}
			r.Log("release %s %s %s -> %s delay=%v", msg.Dest, strings.SplitN(msg.Method, " ", 3)[1], msg.Phase, verdict.Kind, verdict.Delay)
			r.Abs(fmt.Sprintf("%v:%s:%s", strings.HasSuffix(msg.Method, "#replicate"), msg.Phase, verdict.Kind))
			n.Release(msg, verdict)
		}
		if !finished {
			n.Ungate()
			n.ReleaseAll()
			time.Sleep(30 * time.Second)
			simkit.Wait()
			select {
			case result = <-done:
			default:
				r.HarnessError("client operation never returned")
			}
		}
		// late (delayed) messages of this operation drain before the next one starts
		n.Ungate()
		n.ReleaseAll()
		time.Sleep(10 * time.Second)
		simkit.Wait()
		return result
	}

	upload := func(st *simkit.Step, url string) error {
		rng := simkit.StepRand(st, 3)
		size := int(st.Int("size"))
		var data []byte
		name, mime := "", ""
		switch st.Int("kind") {
		case 0: // compressible text with a text mime: the client library gzips it
			data = bytes.Repeat([]byte(fmt.Sprintf("line %08x of text\n", uint32(st.Seed))), size/20+1)[:size]
			name, mime = "a.txt", "text/plain"
		case 1: // incompressible bytes
			data = rng.Bytes(size)
			name, mime = "b.bin", "application/octet-stream"
		case 2: // compressible but with a name that says already compressed
			data = bytes.Repeat([]byte("zzzz"), size/4+1)[:size]
			name, mime = "c.zip", "application/zip"
		case 3: // no name, no mime
			data = rng.Bytes(size)
		default: // json
			data = []byte(fmt.Sprintf(`{"seed":"%x","pad":"%s"}`, st.Seed, strings.Repeat("x", size)))
			name, mime = "d.json", "application/json"
		}
		if len(data) >= 8 {
			copy(data, fmt.Sprintf("%08x", uint32(st.Seed)))
		}
		pairs := map[string]string{}
		for i := 0; i < int(st.Int("pairs")); i++ {
			pairs[fmt.Sprintf("Seaweed-K%d", i)] = fmt.Sprintf("v%d-%x", i, st.Seed&0xff)
		}
		q := []string{}
		if t := []string{"", "", "3m", "1h"}[st.Int("ttl")%4]; t != "" {
			q = append(q, "ttl="+t)
		}
		if st.Int("ts") == 1 {
			q = append(q, "ts=915148800")
		}
		if st.Int("cm") == 1 {
			q = append(q, "cm=true")
		}
		u := url
		if len(q) > 0 {
			u += "?" + strings.Join(q, "&")
		}
		_, err := operation.UploadData(u, name, false, data, false, mime, pairs, "")
		return err
	}

	for i := range p.Steps {
		st := &p.Steps[i]
		switch st.Kind {
		case "put":
			ar, err := operation.Assign(masterFn, grpc.WithInsecure(), &operation.VolumeAssignRequest{Count: 1, Replication: rp})
			if err != nil {
				r.Log("assign failed: %v", err)
				continue
			}
			b := &c40blob{fid: ar.Fid, primary: ar.Url}
			blobs = append(blobs, b)
			err = pump(st, func() error { return upload(st, "http://"+ar.Url+"/"+ar.Fid) })
			b.ok = err == nil
			r.Log("put %s via %s -> err=%v", b.fid, b.primary, err)
			r.Abs(fmt.Sprintf("put:%v", err == nil))
			c40check(r, n, vss, b, "put")
		case "overwrite":
			if len(blobs) == 0 {
				continue
			}
			b := blobs[int(st.Int("i"))%len(blobs)]
			err := pump(st, func() error { return upload(st, "http://"+b.primary+"/"+b.fid) })
			b.ok = err == nil
			if err == nil {
				b.deleted = false
			}
			r.Log("overwrite %s -> err=%v", b.fid, err)
			r.Abs(fmt.Sprintf("overwrite:%v", err == nil))
			c40check(r, n, vss, b, "overwrite")
		case "del":
			if len(blobs) == 0 {
				continue
			}
			b := blobs[int(st.Int("i"))%len(blobs)]
			err := pump(st, func() error { return util.Delete("http://"+b.primary+"/"+b.fid, "") })
			b.ok = err == nil
			if err == nil {
				b.deleted = true
			} else {
				b.failedDelete = true
			}
			r.Log("delete %s -> err=%v", b.fid, err)
			r.Abs(fmt.Sprintf("del:%v", err == nil))
			c40check(r, n, vss, b, "delete")
		}
		if r.Violated() || r.Res.HarnessError != "" {
			return
		}
	}
}

// replicaView is everything a client can learn about a file id from one replica.
func replicaView(n *Net, v *VS, fid string) string {
	req, _ := http.NewRequest("GET", "http://"+v.Addr()+"/"+fid, nil)
	resp, err := n.roundTrip(req)
	if err != nil {
		return "unreachable:" + err.Error()
	}
	body, _ := io.ReadAll(resp.Body)
	resp.Body.Close()
	var hs []string
	for k, vals := range resp.Header {
		switch k {
		case "Date", "Server", "Accept-Ranges", "Content-Length":
			continue
		}
		hs = append(hs, k+"="+strings.Join(vals, ","))
	}
	sort.Strings(hs)
	if os.Getenv("VERIF_C40_DEBUG") != "" {
		req2, _ := http.NewRequest("GET", "http://"+v.Addr()+"/"+fid, nil)
		req2.Header.Set("Accept-Encoding", "gzip")
		if resp2, err2 := n.roundTrip(req2); err2 == nil {
			b2, _ := io.ReadAll(resp2.Body)
			fmt.Fprintf(os.Stdout, "DEBUG %s %s: enc=%q rawlen=%d raw=%x ct=%q\n", v.Addr(), fid, resp2.Header.Get("Content-Encoding"), len(b2), b2[:minI(len(b2), 40)], resp2.Header.Get("Content-Type"))
		}
	}
	view := fmt.Sprintf("http %d len=%d hash=%x headers[%s]", resp.StatusCode, len(body), simkit.HashString(string(body)), strings.Join(hs, "; "))
	if resp.StatusCode >= 400 {
		view = fmt.Sprintf("http %d", resp.StatusCode) // error bodies carry server names and timings
	}
	// needle-level fields that the GET does not expose: ttl, stored last-modified, checksum
	if f, err := needle.ParseFileIdFromString(fid); err == nil {
		operation.WithVolumeServerClient(v.Addr(), grpc.WithInsecure(), func(c volume_server_pb.VolumeServerClient) error {
			st, err := c.VolumeNeedleStatus(ctxBg(), &volume_server_pb.VolumeNeedleStatusRequest{VolumeId: uint32(f.VolumeId), NeedleId: uint64(f.Key)})
			if err != nil {
				view += " needle[absent]"
			} else {
				view += fmt.Sprintf(" needle[cookie=%x lm=%d crc=%x ttl=%s]", st.Cookie, st.LastModified, st.Crc, st.Ttl)
			}
			return nil
		})
	}
	return view
}

func c40check(r *simkit.Run, n *Net, vss []*VS, b *c40blob, after string) {
	if !b.ok {
		r.Probe("operation-reported-failed")
		return // nothing is demanded for operations reported failed
	}
	first := ""
	for i, v := range vss {
		view := replicaView(n, v, b.fid)
		r.Log("  %s on %s: %s", b.fid, v.Addr(), view)
		if i == 0 {
			first = view
			continue
		}
		if view != first {
			key := after
			if stripLM(view) == stripLM(first) && r.Res.Faults["replica-req-drop"]+r.Res.Faults["replica-resp-lost"] > 0 {
				key = "last-modified-differs-after-a-retried-upload"
			} else if after == "delete" && b.failedDelete {
				key = "delete-retried-after-a-failed-delete"
			} else if after != "delete" && b.failedDelete && bodyOf(view) != "" && bodyOf(view) == bodyOf(first) {
				// same bytes everywhere, different metadata: a replica that missed the failed delete still held the
				// blob and answered the identical upload "unchanged" (recorded under C01), the others stored it afresh
				key = "identical-upload-unchanged-on-a-replica-that-missed-a-failed-delete"
			} else if r.Res.Faults["replica-req-drop"]+r.Res.Faults["replica-resp-lost"]+r.Res.Faults["replica-delay"] > 0 {
				key += ":with-replica-faults"
			}
			r.Violate("replicas-differ-after-success", key, "%s of %s was reported successful, but %s holds {%s} while %s holds {%s}", after, b.fid, vss[0].Addr(), first, v.Addr(), view)
			return
		}
	}
	if b.deleted && !strings.HasPrefix(first, "http 404") {
		r.Violate("deleted-blob-still-served", after, "delete of %s was reported successful, replicas answer {%s}", b.fid, first)
	}
}

func minI(a, b int) int {
	if a < b {
		return a
	}
	return b
}

var bodyRe = regexp.MustCompile(`^http 200 len=\d+ hash=[0-9a-f]+`)

// bodyOf extracts status, length and hash of the body from a replica view ("" unless it is a 200).
func bodyOf(v string) string { return bodyRe.FindString(v) }

var lmRe = regexp.MustCompile(`(Last-Modified=[^;\]]*|lm=\d+)`)

// stripLM removes the last-modified fields from a replica view.
func stripLM(v string) string { return lmRe.ReplaceAllString(v, "") }
