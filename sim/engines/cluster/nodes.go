package cluster

import (
	"context"
	"fmt"
	"net/http"
	"os"
	"path/filepath"

	"github.com/chrislusf/seaweedfs/weed/pb/filer_pb"
	"github.com/chrislusf/seaweedfs/weed/pb/master_pb"
	"github.com/chrislusf/seaweedfs/weed/pb/volume_server_pb"
	weed_server "github.com/chrislusf/seaweedfs/weed/server"
	"github.com/chrislusf/seaweedfs/weed/storage"
	"github.com/chrislusf/seaweedfs/weed/storage/types"
	"github.com/chrislusf/seaweedfs/weed/util"
	"google.golang.org/grpc"

	"verifsim/simkit"
)

// VS is one real volume server object with its HTTP mux and gRPC service on the simulated network.
type VS struct {
	S    *weed_server.VolumeServer
	Mux  *http.ServeMux
	Host string
	Port int
	Dir  string
}

func (v *VS) Addr() string     { return fmt.Sprintf("%s:%d", v.Host, v.Port) }
func (v *VS) GrpcAddr() string { return fmt.Sprintf("%s:%d", v.Host, v.Port+10000) }

// StartMaster creates a real master and serves its router and gRPC service on the network.
func StartMaster(n *Net, c MasterCfg) *Master {
	m := NewMaster(c)
	n.ServeHTTP(m.Addr, m.Router)
	n.ServeGRPC(fmt.Sprintf("%s:%d", c.Host, c.Port+10000), func(s *grpc.Server) { master_pb.RegisterSeaweedServer(s, m.MS) })
	simkit.Wait()
	return m
}

type VSCfg struct {
	Host     string
	Port     int
	Dir      string
	Max      int
	DC, Rack string
	Master   string
	Pulse    int
	Kind     storage.NeedleMapKind
}

// StartVS creates a real volume server (store, handlers, gRPC service, heartbeat loop).
// Node start-up is serialised: the caller gets control back at quiescence.
func StartVS(n *Net, c VSCfg) *VS {
	os.MkdirAll(c.Dir, 0755)
	if c.Pulse == 0 {
		c.Pulse = 5
	}
	if c.Max == 0 {
		c.Max = 8
	}
	mux := http.NewServeMux()
	v := &VS{Mux: mux, Host: c.Host, Port: c.Port, Dir: c.Dir}
	// the gRPC service must be reachable before the server announces itself
	var vs *weed_server.VolumeServer
	vs = weed_server.NewVolumeServer(mux, mux, c.Host, c.Port, fmt.Sprintf("%s:%d", c.Host, c.Port),
		[]string{c.Dir}, []int{c.Max}, []util.MinFreeSpace{{Type: util.AsPercent, Percent: 0}}, []types.DiskType{types.HardDriveType},
		"", c.Kind, []string{c.Master}, c.Pulse, c.DC, c.Rack, nil, false, "proxy", 0, 256, 0)
	v.S = vs
	n.ServeHTTP(v.Addr(), mux)
	n.ServeGRPC(v.GrpcAddr(), func(s *grpc.Server) { volume_server_pb.RegisterVolumeServerServer(s, vs) })
	simkit.Wait()
	return v
}

func vsDir(r *simkit.Run, i int) string { return filepath.Join(r.Dir, fmt.Sprintf("vs%d", i)) }

func ctxBg() context.Context { return context.Background() }

// Filer is one real filer server (HTTP handlers, gRPC service, filer core on a leveldb2 store).
type Filer struct {
	S    *weed_server.FilerServer
	Mux  *http.ServeMux
	Host string
	Port int
}

func (f *Filer) Addr() string { return fmt.Sprintf("%s:%d", f.Host, f.Port) }

type FilerCfg struct {
	Host        string
	Port        int
	Dir         string
	Master      string
	MaxMB       int
	InlineLimit int64
}

func StartFiler(n *Net, c FilerCfg) (*Filer, error) {
	os.MkdirAll(c.Dir, 0755)
	mux := http.NewServeMux()
	fs, err := weed_server.NewFilerServer(mux, mux, &weed_server.FilerOption{Masters: []string{c.Master}, DefaultReplication: "000", MaxMB: c.MaxMB,
		DirListingLimit: 1000, DefaultLevelDbDir: c.Dir, Host: c.Host, Port: uint32(c.Port), SaveToFilerLimit: c.InlineLimit})
	if err != nil {
		return nil, err
	}
	f := &Filer{S: fs, Mux: mux, Host: c.Host, Port: c.Port}
	n.ServeHTTP(f.Addr(), mux)
	n.ServeGRPC(fmt.Sprintf("%s:%d", c.Host, c.Port+10000), func(s *grpc.Server) { filer_pb.RegisterSeaweedFilerServer(s, fs) })
	simkit.Wait()
	return f, nil
}
