package cluster

import (
	"fmt"
	"sort"
	"strings"

	"verifsim/simkit"

	"github.com/chrislusf/seaweedfs/weed/wdclient"
	"google.golang.org/grpc"
)

// C35 — clients' volume location cache mirrors master updates.
//
// The real vidMap (inside a MasterClient that is never connected) receives
// add/remove notifications in plan order while 2-3 reader actors look volumes
// up; a reader's lookup is two scheduler steps (obtain the location list,
// consume it later), so updates land between them.

func init() {
	simkit.Register(&simkit.Prop{ID: "C35", Gen: genC35, Exec: execC35})
}

func genC35(tier string, seed uint64, idx int) *simkit.Plan {
	rng := simkit.NewRand(seed)
	p := &simkit.Plan{Engine: "cluster"}
	p.SetCS("dc", []string{"", "dc1", "dc1", "dc2"}[rng.Intn(4)])
	if idx%4 == 3 {
		genC35Session(rng, p)
		return p
	}
	readers := rng.Range(2, 3)
	p.SetC("readers", int64(readers))
	vids := rng.Range(1, 3)
	servers := rng.Range(2, 5)
	n := rng.Range(8, 40)
	for i := 0; i < n; i++ {
		vid := 1 + rng.Intn(vids)
		srv := rng.Intn(servers)
		switch x := rng.Intn(100); {
		case x < 30:
			p.Add(simkit.St("add", rng.Uint64(), "vid", vid, "srv", srv))
		case x < 50:
			p.Add(simkit.St("del", rng.Uint64(), "vid", vid, "srv", srv))
		case x < 65:
			p.Add(simkit.St("lookup", rng.Uint64(), "vid", vid))
		case x < 83:
			p.Add(simkit.St("get", rng.Uint64(), "reader", rng.Intn(readers), "vid", vid))
		default:
			p.Add(simkit.St("use", rng.Uint64(), "reader", rng.Intn(readers)))
		}
	}
	return p
}

func execC35(r *simkit.Run) {
	p := r.Plan
	if p.C("mode") == 1 {
		execC35Session(r)
		return
	}
	dc := p.CS("dc")
	mc := wdclient.NewMasterClient(grpc.WithInsecure(), "client", "client-host", 0, dc, nil)
	dcOf := func(srv int64) string { return []string{"dc1", "dc2", "", "dc1", "dc2"}[srv%5] }
	locOf := func(srv int64) wdclient.Location {
		return wdclient.Location{Url: fmt.Sprintf("vs%d:8080", srv), PublicUrl: fmt.Sprintf("vs%d.pub:8080", srv), DataCenter: dcOf(srv)}
	}
	ref := map[uint32]map[string]wdclient.Location{}
	type held struct {
		vid   uint32
		locs  []wdclient.Location
		snap  []wdclient.Location
		found bool
	}
	readers := make([]*held, int(p.C("readers"))+1)
	refList := func(vid uint32) []string {
		var out []string
		for u := range ref[vid] {
			out = append(out, u)
		}
		sort.Strings(out)
		return out
	}
	for i := range p.Steps {
		st := &p.Steps[i]
		vid := uint32(st.Int("vid"))
		switch st.Kind {
		case "add":
			loc := locOf(st.Int("srv"))
			mc.VerifAdd(vid, loc)
			if ref[vid] == nil {
				ref[vid] = map[string]wdclient.Location{}
			}
			ref[vid][loc.Url] = loc
			r.Log("add vid=%d %s", vid, loc.Url)
			r.Abs("add")
		case "del":
			loc := locOf(st.Int("srv"))
			mc.VerifDelete(vid, loc)
			delete(ref[vid], loc.Url)
			r.Log("del vid=%d %s", vid, loc.Url)
			r.Abs("del")
		case "lookup":
			urls, err := mc.LookupVolumeServerUrl(fmt.Sprint(vid))
			want := refList(vid)
			r.Log("lookup vid=%d -> %v err=%v (registered %v)", vid, urls, err, want)
			r.Abs(fmt.Sprintf("lookup:%d:%v", len(urls), err == nil))
			if len(want) == 0 {
				if err == nil {
					r.Violate("found-without-locations", "lookup-after-last-location-removed", "lookup of volume %d succeeded with %d urls although no location is currently added (not-found expected)", vid, len(urls))
					return
				}
				continue
			}
			if err != nil {
				r.Violate("registered-volume-not-found", "lookup", "lookup of volume %d failed (%v) although %v are added", vid, err, want)
				return
			}
			got := append([]string{}, urls...)
			sort.Strings(got)
			if strings.Join(got, ",") != strings.Join(want, ",") {
				r.Violate("lookup-differs-from-added", "lookup", "lookup of volume %d returned %v, currently added are %v", vid, urls, want)
				return
			}
			// same-data-center locations first
			if dc != "" {
				seenOther := false
				for _, u := range urls {
					same := ref[vid][u].DataCenter == dc
					if !same {
						seenOther = true
					} else if seenOther {
						r.Violate("same-datacenter-not-first", "lookup", "lookup of volume %d returned %v: a location of the client's data center %q comes after one of another", vid, urls, dc)
						return
					}
				}
			}
		case "get":
			rd := int(st.Int("reader")) % len(readers)
			locs, found := mc.GetLocations(vid)
			readers[rd] = &held{vid: vid, locs: locs, snap: append([]wdclient.Location{}, locs...), found: found}
			r.Log("reader %d obtains locations of vid=%d: %d entries", rd, vid, len(locs))
			r.Abs("get")
			r.NonTrivial()
		case "use":
			rd := int(st.Int("reader")) % len(readers)
			h := readers[rd]
			if h == nil {
				continue
			}
			// the list a lookup handed out must still be what it was: no duplicated, lost or torn entries
			for j := range h.locs {
				if h.locs[j] != h.snap[j] {
					var now, then []string
					for k := range h.locs {
						now = append(now, h.locs[k].Url)
						then = append(then, h.snap[k].Url)
					}
					r.Violate("torn-location-list", "list-handed-out-before-a-later-delete", "reader %d: the location list of volume %d it obtained earlier was %v and now reads %v (entry %d changed underneath it)", rd, h.vid, then, now, j)
					return
				}
			}
			r.Log("reader %d consumes its list of vid=%d: intact", rd, h.vid)
			r.Abs("use")
			readers[rd] = nil
		}
	}
}
