package cluster

import (
	"bytes"
	"errors"
	"fmt"
	"io"
	"mime/multipart"
	"net/http"
	"path/filepath"
	"strings"
	"time"

	"verifsim/simkit"

	"github.com/chrislusf/seaweedfs/weed/util"
)

// C25 — filer HTTP writes store exactly the request body.
//
// Real master + real volume server + real filer (HTTP handlers, leveldb2
// store) on the simulated network. PUT / POST with bodies around the inline
// and chunk boundaries, appends, read back through the filer's GET handler.
// Faults: the request body fails after k bytes; the filer's Assign RPC to the
// master is dropped; chunk uploads to the volume server are dropped or lose
// their response (the client library's retries run on the fake clock).

func init() {
	simkit.Register(&simkit.Prop{ID: "C25", Gen: genC25, Exec: execC25})
}

const mb = 1024 * 1024

func genC25(tier string, seed uint64, idx int) *simkit.Plan {
	rng := simkit.NewRand(seed)
	p := &simkit.Plan{Engine: "cluster"}
	inline := []int{0, 0, 64, 1024}[rng.Intn(4)]
	p.SetC("inline", int64(inline))
	faults := idx%2 == 1
	if faults {
		p.SetC("faults", 1)
	}
	sizes := func() int {
		switch rng.Pick(4, 2, 3, 1) {
		case 0: // around the inline limit and tiny
			return []int{0, 1, inline - 1, inline, inline + 1, 100, 5000}[rng.Intn(7)]
		case 1:
			return rng.Range(1, 200000)
		case 2: // around one chunk (1 MB)
			return mb + []int{-1, 0, 1, -4096, 4096}[rng.Intn(5)]
		}
		return 2*mb + []int{-1, 0, 1, 500}[rng.Intn(4)]
	}
	n := rng.Range(3, 9)
	for i := 0; i < n; i++ {
		path := []string{"/a.bin", "/d/b.txt", "/d/e/c"}[rng.Intn(3)]
		sz := sizes()
		if sz < 0 {
			sz = 0
		}
		kind := []string{"put", "put", "post", "append", "append"}[rng.Intn(5)]
		st := simkit.St(kind, rng.Uint64(), "path", path, "size", sz)
		if faults && rng.Chance(1, 3) {
			switch rng.Intn(3) {
			case 0:
				cut := 0
				if sz > 0 {
					switch rng.Intn(4) {
					case 0:
						cut = rng.Intn(minI(sz, 100) + 1)
					case 1:
						cut = minI(sz, mb) // on the chunk boundary
					case 2:
						cut = sz - 1
					default:
						cut = rng.Intn(sz)
					}
				}
				st.A["bodyfail"] = 1
				st.A["cut"] = int64(cut)
			case 1:
				st.A["assigndrop"] = int64(rng.Range(1, 4))
			default:
				st.A["uploadfault"] = int64(rng.Range(1, 3))
			}
		}
		p.Add(st)
		p.Add(simkit.St("get", rng.Uint64(), "path", path))
	}
	return p
}

type failingReader struct {
	data []byte
	pos  int
	cut  int
}

func (f *failingReader) Read(p []byte) (int, error) {
	if f.pos >= f.cut {
		return 0, errors.New("simnet: connection reset by peer while reading the request body")
	}
	n := copy(p, f.data[f.pos:f.cut])
	f.pos += n
	return n, nil
}
func (f *failingReader) Close() error { return nil }

func execC25(r *simkit.Run) {
	p := r.Plan
	r.Res.FaultConfig = p.C("faults") == 1
	v := util.GetViper()
	for _, k := range []string{"copy_1", "copy_2", "copy_3", "copy_other"} {
		v.Set("master.volume_growth."+k, 2)
	}
	n := NewNet(r)
	defer n.Close()
	m := StartMaster(n, MasterCfg{Host: "master", Port: 9333, SizeLimitMB: 100})
	StartVS(n, VSCfg{Host: "vs0", Port: 8080, Dir: vsDir(r, 0), DC: "dc0", Rack: "r0", Master: m.Addr, Max: 20})
	time.Sleep(6 * time.Second)
	simkit.Wait()
	f, err := StartFiler(n, FilerCfg{Host: "filer", Port: 8888, Dir: filepath.Join(r.Dir, "filerdb"), Master: m.Addr, MaxMB: 1, InlineLimit: p.C("inline")})
	if err != nil {
		r.HarnessError("start filer: %v", err)
		return
	}
	time.Sleep(3 * time.Second)
	simkit.Wait()
	model := map[string][]byte{}
	get := func(path string) (int, []byte) {
		req, _ := http.NewRequest("GET", "http://"+f.Addr()+path, nil)
		resp, err := n.roundTrip(req)
		if err != nil {
			return 0, nil
		}
		b, _ := io.ReadAll(resp.Body)
		return resp.StatusCode, b
	}
	checkPath := func(path, tag string, alts ...[]byte) bool {
		code, body := get(path)
		for _, want := range alts {
			if want == nil && code == http.StatusNotFound {
				return true
			}
			if want != nil && code == http.StatusOK && bytes.Equal(body, want) {
				return true
			}
		}
		var desc []string
		for _, a := range alts {
			if a == nil {
				desc = append(desc, "absent")
			} else {
				desc = append(desc, fmt.Sprintf("%d bytes (%x)", len(a), simkit.HashString(string(a))&0xffffff))
			}
		}
		class, key := "stored-bytes-differ", tag
		if code == http.StatusOK && len(alts) > 0 {
			for _, a := range alts {
				if a != nil && len(body) < len(a) && bytes.Equal(body, a[:len(body)]) {
					class = "truncated-file"
				}
			}
		}
		r.Violate(class, key, "%s %s: GET answers http %d with %d bytes (%x); expected %s", tag, path, code, len(body), simkit.HashString(string(body))&0xffffff, strings.Join(desc, " or "))
		return false
	}
	for i := range p.Steps {
		st := &p.Steps[i]
		path := st.Str("path")
		switch st.Kind {
		case "get":
			old, ok := model[path]
			if !ok {
				old = nil
			}
			if !checkPath(path, "read", old) {
				return
			}
			r.Abs("get")
		case "put", "post", "append":
			data := simkit.StepRand(st, 3).Bytes(int(st.Int("size")))
			if len(data) >= 8 {
				copy(data, fmt.Sprintf("%08x", uint32(st.Seed)))
			}
			before, existed := model[path]
			url := "http://" + f.Addr() + path
			if st.Kind == "append" {
				url += "?op=append"
			}
			var req *http.Request
			var body io.Reader = bytes.NewReader(data)
			bodyFail := st.Int("bodyfail") == 1
			if st.Kind == "post" {
				var buf bytes.Buffer
				mw := multipart.NewWriter(&buf)
				fw, _ := mw.CreateFormFile("file", filepath.Base(path))
				fw.Write(data)
				mw.Close()
				raw := buf.Bytes()
				body = bytes.NewReader(raw)
				if bodyFail {
					// cut inside the file part
					body = &failingReader{data: raw, cut: minI(len(raw)-1, int(st.Int("cut"))+150)}
				}
				req, _ = http.NewRequest("POST", url, body)
				req.Header.Set("Content-Type", mw.FormDataContentType())
			} else {
				if bodyFail {
					body = &failingReader{data: data, cut: int(st.Int("cut"))}
				}
				method := "PUT"
				req, _ = http.NewRequest(method, url, body)
				req.Header.Set("Content-Type", "application/octet-stream")
				req.ContentLength = int64(len(data))
			}
			if bodyFail {
				req.Header.Set("X-Verif-Stream-Body", "1")
				r.Fault("body-fails-midway")
			}
			// network faults for this request
			if k := int(st.Int("assigndrop")); k > 0 {
				n.Gate("/master_pb.Seaweed/Assign")
			}
			if k := int(st.Int("uploadfault")); k > 0 {
				n.Gate("HTTP POST /")
			}
			type result struct {
				code int
				err  error
			}
			done := make(chan result, 1)
			go func() {
				resp, err := n.roundTrip(req)
				if err != nil {
					done <- result{0, err}
					return
				}
				io.Copy(io.Discard, resp.Body)
				done <- result{resp.StatusCode, nil}
			}()
			rng := simkit.StepRand(st, 11)
			dropsLeft := int(st.Int("assigndrop")) + int(st.Int("uploadfault"))
			var res result
			finished := false
			for iter := 0; iter < 300; iter++ {
				simkit.Wait()
				if !finished {
					select {
					case res = <-done:
						finished = true
					default:
					}
				}
				pend := n.Pending()
				if len(pend) == 0 {
					if finished {
						break
					}
					time.Sleep(500 * time.Millisecond)
					continue
				}
				msg := pend[rng.Intn(len(pend))]
				verdict := Verdict{Kind: "ok"}
				if dropsLeft > 0 && strings.HasPrefix(msg.Dest, "vs") || dropsLeft > 0 && strings.Contains(msg.Method, "Assign") {
					if msg.Phase == "req" && rng.Chance(1, 2) {
						verdict.Kind = "drop"
						dropsLeft--
						r.Fault("drop:" + map[bool]string{true: "assign", false: "chunk-upload"}[strings.Contains(msg.Method, "Assign")])
					} else if msg.Phase == "resp" && rng.Chance(1, 2) {
						verdict.Kind = "lostack"
						dropsLeft--
						r.Fault("lost-response:" + map[bool]string{true: "assign", false: "chunk-upload"}[strings.Contains(msg.Method, "Assign")])
					}
				}
				n.Release(msg, verdict)
			}
			n.Ungate()
			n.ReleaseAll()
			if !finished {
				select {
				case res = <-done:
				case <-time.After(2 * time.Minute):
					r.HarnessError("filer request never returned")
					return
				}
			}
			ok := res.err == nil && res.code >= 200 && res.code < 300
			r.Log("%s %s len=%d bodyfail=%v -> http %d err=%v", st.Kind, path, len(data), bodyFail, res.code, res.err)
			r.Abs(fmt.Sprintf("%s:%v:%v", st.Kind, bodyFail, ok))
			want := data
			if st.Kind == "append" && existed {
				want = append(append([]byte{}, before...), data...)
			}
			sit := st.Kind
			if len(data) <= int(p.C("inline")) {
				sit += "/inline"
			} else if len(data) > mb {
				sit += "/multi-chunk"
			} else {
				sit += "/one-chunk"
			}
			switch {
			case ok && bodyFail && int(st.Int("cut")) < len(data):
				r.Violate("failed-body-reported-success", sit, "%s %s: the body failed after %d of %d bytes but the filer answered http %d", st.Kind, path, st.Int("cut"), len(data), res.code)
				return
			case ok:
				model[path] = want
				if !checkPath(path, "after-"+sit, want) {
					return
				}
			default:
				// reported failure: the entry is unchanged or absent, or (lost response) completely written; never truncated
				var alts [][]byte
				if existed {
					alts = append(alts, before)
				} else {
					alts = append(alts, nil)
				}
				if !bodyFail {
					alts = append(alts, want)
				}
				code, bodyNow := get(path)
				matched := false
				for _, a := range alts {
					if a == nil && code == http.StatusNotFound || a != nil && code == http.StatusOK && bytes.Equal(bodyNow, a) {
						matched = true
						if a != nil {
							model[path] = a
						}
					}
				}
				if !matched {
					checkPath(path, "after-failed-"+sit, alts...)
					return
				}
				r.Probe("request-reported-failed")
			}
		}
	}
}
