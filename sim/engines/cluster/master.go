package cluster

import (
	"verifsim/simkit"
	"github.com/gorilla/mux"

	weed_server "github.com/chrislusf/seaweedfs/weed/server"
	"github.com/chrislusf/seaweedfs/weed/util"
)

// Master is one real master server object (router, topology, sequencer,
// volume growth, vacuum loop, gRPC service implementation).
type Master struct {
	MS     *weed_server.MasterServer
	Router *mux.Router
	Raft   *RaftStub
	Addr   string
}

type MasterCfg struct {
	Host             string
	Port             int
	SizeLimitMB      uint
	ReplicationAsMin bool
	Garbage          float64
	SequencerType    string
}

func NewMaster(c MasterCfg) *Master {
	v := util.GetViper()
	v.Set("master.replication.treat_replication_as_minimums", c.ReplicationAsMin)
	if c.SequencerType == "" {
		c.SequencerType = "memory"
	}
	v.Set("master.sequencer.type", c.SequencerType)
	if c.Garbage == 0 {
		c.Garbage = 0.3
	}
	r := mux.NewRouter()
	ms := weed_server.NewMasterServer(r, &weed_server.MasterOption{Host: c.Host, Port: c.Port, MetaFolder: "", VolumeSizeLimitMB: c.SizeLimitMB,
		DefaultReplicaPlacement: "000", GarbageThreshold: c.Garbage}, nil)
	name := c.Host + ":" + itoa(c.Port)
	stub := NewRaftStub(name, ms.Topo)
	stub.peers = []*RaftStub{stub}
	// NewMasterServer has started the topology's background loops, which read Topo.RaftServer without
	// synchronisation (as in production, where the field is set seconds later). Let them reach their first
	// sleep before the field is written: on several threads a torn read of the interface value was observed
	// about once in 50000 runs (a nil pointer inside a non-nil interface).
	simkit.Wait()
	ms.Topo.RaftServer = stub
	return &Master{MS: ms, Router: r, Raft: stub, Addr: name}
}

func itoa(i int) string {
	if i == 0 {
		return "0"
	}
	neg := i < 0
	if neg {
		i = -i
	}
	var b []byte
	for i > 0 {
		b = append([]byte{byte('0' + i%10)}, b...)
		i /= 10
	}
	if neg {
		b = append([]byte{'-'}, b...)
	}
	return string(b)
}
