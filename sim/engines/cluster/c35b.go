package cluster

import (
	"errors"
	"fmt"
	"sort"
	"strings"
	"time"

	"verifsim/simkit"

	"github.com/chrislusf/seaweedfs/weed/pb/master_pb"
	"github.com/chrislusf/seaweedfs/weed/wdclient"
	"google.golang.org/grpc"
)

// C35, session mode — the real MasterClient.KeepConnectedToMaster loop runs
// against two stub masters on the simulated network. Each stub does what the
// real master's KeepConnected does for a new client: it streams the CURRENT
// state (one message per volume server with its volume ids) and then the
// changes. The plan changes the cluster's truth, ends the stream of the
// master in charge (fail-over: the client moves on to the next master), and
// lets changes happen while the client is between masters. Whenever the
// client is connected and everything sent has been delivered, its lookups
// must return exactly the truth.

type stubSession struct {
	master string
	send   chan *master_pb.VolumeLocation
	end    chan struct{}
	sent   int
}

type stubMaster struct {
	master_pb.UnimplementedSeaweedServer
	addr     string
	sessions chan *stubSession
}

func (m *stubMaster) KeepConnected(stream master_pb.Seaweed_KeepConnectedServer) error {
	if _, err := stream.Recv(); err != nil {
		return err
	}
	s := &stubSession{master: m.addr, send: make(chan *master_pb.VolumeLocation), end: make(chan struct{})}
	m.sessions <- s
	for {
		select {
		case vl := <-s.send:
			if err := stream.Send(vl); err != nil {
				return err
			}
		case <-s.end:
			return errors.New("master is going away")
		}
	}
}

func genC35Session(rng *simkit.Rand, p *simkit.Plan) {
	p.SetC("mode", 1)
	vids := rng.Range(1, 3)
	servers := rng.Range(2, 4)
	n := rng.Range(8, 30)
	for i := 0; i < n; i++ {
		vid := 1 + rng.Intn(vids)
		srv := rng.Intn(servers)
		switch x := rng.Intn(100); {
		case x < 35:
			p.Add(simkit.St("add", rng.Uint64(), "vid", vid, "srv", srv))
		case x < 55:
			p.Add(simkit.St("del", rng.Uint64(), "vid", vid, "srv", srv))
		case x < 75:
			p.Add(simkit.St("lookup", rng.Uint64(), "vid", vid))
		case x < 90:
			// the master in charge goes away; 0-3 changes happen before the client has found the next one
			p.Add(simkit.St("failover", rng.Uint64(), "changes", rng.Intn(4), "vid", vid, "srv", srv, "a", rng.Intn(1<<16)))
		default:
			p.Add(simkit.St("adv", rng.Uint64(), "sec", rng.Range(1, 5)))
		}
	}
	p.Add(simkit.St("lookup", rng.Uint64(), "vid", 1))
	p.Add(simkit.St("lookup", rng.Uint64(), "vid", 2))
}

func execC35Session(r *simkit.Run) {
	p := r.Plan
	dc := p.CS("dc")
	n := NewNet(r)
	defer n.Close()
	masters := []string{"m0:9333", "m1:9333"}
	sessions := make(chan *stubSession, 8)
	for _, a := range masters {
		sm := &stubMaster{addr: a, sessions: sessions}
		host := strings.Split(a, ":")[0]
		n.ServeGRPC(host+":19333", func(gs *grpc.Server) { master_pb.RegisterSeaweedServer(gs, sm) })
	}
	dcOf := func(srv int64) string { return []string{"dc1", "dc2", "", "dc1", "dc2"}[srv%5] }
	urlOf := func(srv int64) string { return fmt.Sprintf("vs%d:8080", srv) }
	truth := map[uint32]map[int64]bool{} // vid -> servers
	mc := wdclient.NewMasterClient(grpc.WithInsecure(), "client", "client-host", 0, dc, masters)
	go mc.KeepConnectedToMaster()
	// the client's reconnect loop outlives the run: take the network away and let it settle in its
	// one-second sleep before the bubble ends (also when the run stops at a violation)
	defer func() {
		n.Close()
		time.Sleep(5 * time.Second)
		simkit.Wait()
	}()
	var cur *stubSession
	// waitSession lets the client find a master and streams the current truth to it, as the real master does
	waitSession := func() bool {
		for i := 0; i < 20 && cur == nil; i++ {
			simkit.Wait()
			select {
			case cur = <-sessions:
			default:
				time.Sleep(time.Second)
			}
		}
		if cur == nil {
			r.HarnessError("the client never connected to a master")
			return false
		}
		bySrv := map[int64][]uint32{}
		for vid, ss := range truth {
			for s := range ss {
				bySrv[s] = append(bySrv[s], vid)
			}
		}
		var srvs []int64
		for s := range bySrv {
			srvs = append(srvs, s)
		}
		sort.Slice(srvs, func(i, j int) bool { return srvs[i] < srvs[j] })
		for _, s := range srvs {
			vids := bySrv[s]
			sort.Slice(vids, func(i, j int) bool { return vids[i] < vids[j] })
			cur.send <- &master_pb.VolumeLocation{Url: urlOf(s), PublicUrl: urlOf(s), DataCenter: dcOf(s), NewVids: vids}
		}
		simkit.Wait()
		r.Log("client connected to %s; current state streamed (%d servers)", cur.master, len(srvs))
		return true
	}
	change := func(add bool, vid uint32, srv int64) {
		if truth[vid] == nil {
			truth[vid] = map[int64]bool{}
		}
		if add == truth[vid][srv] {
			return // the master only reports changes
		}
		if add {
			truth[vid][srv] = true
		} else {
			delete(truth[vid], srv)
		}
		if cur != nil {
			vl := &master_pb.VolumeLocation{Url: urlOf(srv), PublicUrl: urlOf(srv), DataCenter: dcOf(srv)}
			if add {
				vl.NewVids = []uint32{vid}
			} else {
				vl.DeletedVids = []uint32{vid}
			}
			cur.send <- vl
			simkit.Wait()
		}
		r.Log("%s vid=%d %s (client connected: %v)", map[bool]string{true: "add", false: "del"}[add], vid, urlOf(srv), cur != nil)
	}
	if !waitSession() {
		return
	}
	failovers := 0
	for i := range p.Steps {
		st := &p.Steps[i]
		vid := uint32(st.Int("vid"))
		switch st.Kind {
		case "add":
			change(true, vid, st.Int("srv"))
			r.Abs("add")
		case "del":
			change(false, vid, st.Int("srv"))
			r.Abs("del")
		case "adv":
			time.Sleep(time.Duration(st.Int("sec")) * time.Second)
			simkit.Wait()
			r.Abs("adv")
		case "failover":
			close(cur.end)
			old := cur.master
			cur = nil
			failovers++
			rng := simkit.StepRand(st, 3)
			for k := 0; k < int(st.Int("changes")); k++ {
				change(rng.Chance(1, 3), uint32(1+rng.Intn(3)), int64(rng.Intn(4)))
			}
			if !waitSession() {
				return
			}
			r.Log("fail-over #%d: %s went away, the client is now on %s", failovers, old, cur.master)
			r.Abs("failover")
			r.Fault("master-failover")
			r.NonTrivial()
		case "lookup":
			urls, err := mc.LookupVolumeServerUrl(fmt.Sprint(vid))
			var want []string
			for s := range truth[vid] {
				want = append(want, urlOf(s))
			}
			sort.Strings(want)
			sit := "steady"
			if failovers > 0 {
				sit = "after-master-failover"
			}
			r.Log("lookup vid=%d -> %v err=%v (truth %v)", vid, urls, err, want)
			r.Abs(fmt.Sprintf("lookup:%d:%v", len(urls), err == nil))
			if len(want) == 0 {
				if err == nil {
					r.Violate("found-without-locations", sit, "lookup of volume %d succeeded with %v although no server holds it (fail-overs so far: %d)", vid, urls, failovers)
					return
				}
				continue
			}
			if err != nil {
				r.Violate("registered-volume-not-found", sit, "lookup of volume %d failed (%v) although %v hold it (fail-overs so far: %d)", vid, err, want, failovers)
				return
			}
			got := append([]string{}, urls...)
			sort.Strings(got)
			if strings.Join(got, ",") != strings.Join(want, ",") {
				r.Violate("lookup-differs-from-added", sit, "lookup of volume %d returned %v, the servers holding it are %v (fail-overs so far: %d)", vid, urls, want, failovers)
				return
			}
			if dc != "" {
				seenOther := false
				for _, u := range urls {
					var srv int64
					fmt.Sscanf(u, "vs%d:", &srv)
					if dcOf(srv) != dc {
						seenOther = true
					} else if seenOther {
						r.Violate("same-datacenter-not-first", sit, "lookup of volume %d returned %v: a location of the client's data center %q comes after one of another (fail-overs so far: %d)", vid, urls, dc, failovers)
						return
					}
				}
			}
		}
	}
}
