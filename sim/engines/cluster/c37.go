package cluster

import (
	"bytes"
	"fmt"
	"os"
	"path/filepath"
	"sort"
	"time"

	"verifsim/simkit"

	"github.com/chrislusf/seaweedfs/weed/operation"
	"github.com/chrislusf/seaweedfs/weed/pb/volume_server_pb"
	"github.com/chrislusf/seaweedfs/weed/storage"
	"github.com/chrislusf/seaweedfs/weed/storage/backend"
	"github.com/chrislusf/seaweedfs/weed/storage/needle"
	"github.com/chrislusf/seaweedfs/weed/storage/super_block"
	"github.com/chrislusf/seaweedfs/weed/storage/types"
	"github.com/chrislusf/seaweedfs/weed/util"
	"google.golang.org/grpc"
)

// C37 — incremental volume backup converges to the source.
//
// Source: a volume on a real volume server (uploads and deletes over HTTP,
// compaction + commit through the vacuum RPCs). Backup: the steps of
// `weed backup` (sync status, local compaction when the source revision moved,
// reset when the local copy is longer, IncrementalBackup) on a local volume
// that pulls through the real VolumeIncrementalCopy stream over the simulated
// network. The stream's receive side is gated, so source writes are released
// while the copy stream is open.

func init() {
	simkit.Register(&simkit.Prop{ID: "C37", Gen: genC37, Exec: execC37})
}

func genC37(tier string, seed uint64, idx int) *simkit.Plan {
	rng := simkit.NewRand(seed)
	p := &simkit.Plan{Engine: "cluster"}
	keys := rng.Range(2, 8)
	n := rng.Range(4, 24)
	ascending := rng.Chance(1, 2) // keys first written in ascending order (what a sequencer produces) or arbitrary
	p.SetC("ascending", b2i64(ascending))
	next := 0
	// one run in eight moves megabytes, so that an increment spans several blocks of the copy stream (2 MiB each)
	big := rng.Chance(1, 8)
	for i := 0; i < n; i++ {
		switch x := rng.Intn(100); {
		case x < 45:
			k := 1 + rng.Intn(keys)
			if ascending && next < keys && rng.Chance(2, 3) {
				next++
				k = next
			}
			size := []int{1, 20, 300, 3000}[rng.Intn(4)]
			if big && rng.Chance(1, 2) {
				size = []int{700000, 1100000, 2200000}[rng.Intn(3)] + rng.Intn(4096)
			}
			p.Add(simkit.St("put", rng.Uint64(), "key", k, "size", size))
		case x < 60:
			p.Add(simkit.St("del", rng.Uint64(), "key", 1+rng.Intn(keys)))
		case x < 70:
			p.Add(simkit.St("compact", rng.Uint64()))
		case x < 75:
			p.Add(simkit.St("adv", rng.Uint64(), "sec", rng.Range(1, 100)))
		default:
			during := rng.Intn(3)
			if big {
				during = 0 // (megabyte increments and writes landing inside the open stream are explored in separate runs)
			}
			p.Add(simkit.St("backup", rng.Uint64(), "during", during, "dkey", 1+rng.Intn(keys)))
		}
	}
	p.Add(simkit.St("backup", rng.Uint64(), "during", 0))
	return p
}

func b2i64(b bool) int64 {
	if b {
		return 1
	}
	return 0
}

const incCopy = "/volume_server_pb.VolumeServer/VolumeIncrementalCopy"

func execC37(r *simkit.Run) {
	p := r.Plan
	v := util.GetViper()
	for _, k := range []string{"copy_1", "copy_2", "copy_3", "copy_other"} {
		v.Set("master.volume_growth."+k, 1)
	}
	n := NewNet(r)
	defer n.Close()
	m := StartMaster(n, MasterCfg{Host: "master", Port: 9333, SizeLimitMB: 30})
	vs := StartVS(n, VSCfg{Host: "vs0", Port: 8080, Dir: vsDir(r, 0), DC: "dc0", Rack: "r0", Master: m.Addr})
	time.Sleep(6 * time.Second)
	simkit.Wait()
	masterFn := func() string { return m.Addr }
	ar, err := operation.Assign(masterFn, grpc.WithInsecure(), &operation.VolumeAssignRequest{Count: 1, Replication: "000"})
	if err != nil {
		r.HarnessError("assign: %v", err)
		return
	}
	f0, _ := needle.ParseFileIdFromString(ar.Fid)
	vid := f0.VolumeId
	fidOf := func(key int64) string {
		return needle.NewFileId(vid, uint64(key), uint32(0x5000+key)).String()
	}
	model := map[int64][]byte{} // live blobs of the source
	backupDir := filepath.Join(r.Dir, "backup")
	os.MkdirAll(backupDir, 0755)
	compactions, backups := 0, 0
	// recorded root cause (after-source-compaction): compaction rewrites the live records in KEY order and
	// keeps their append timestamps, and the incremental copy binary-searches the index by timestamp. It
	// bites only when that order is not the order of the timestamps; otherwise the situation gets its own key.
	writeSeq, seqCounter, hazard := map[int64]int{}, 0, false
	// second recorded root cause: a delete whose tombstone the source compacts away before the next backup
	// run is never seen by the backup (the documented local compaction keeps the backup's own live copy)
	pendingDeletes, lostDeletes := 0, false

	doBackup := func(st *simkit.Step) error {
		// the steps of command/backup.go runBackup
		stats, err := operation.GetVolumeSyncStatus(vs.Addr(), grpc.WithInsecure(), uint32(vid))
		if err != nil {
			return fmt.Errorf("sync status: %v", err)
		}
		ttl, _ := needle.ReadTTL(stats.Ttl)
		rp, _ := super_block.NewReplicaPlacementFromString(stats.Replication)
		bv, err := storage.NewVolume(backupDir, backupDir, "", vid, storage.NeedleMapInMemory, rp, ttl, 0, 0)
		if err != nil {
			return fmt.Errorf("open backup volume: %v", err)
		}
		if bv.SuperBlock.CompactionRevision < uint16(stats.CompactRevision) {
			r.Probe("backup-compacts-locally")
			if err = bv.Compact2(0, 0); err != nil {
				return fmt.Errorf("local compact: %v", err)
			}
			if err = bv.CommitCompact(); err != nil {
				return fmt.Errorf("local commit: %v", err)
			}
			bv.SuperBlock.CompactionRevision = uint16(stats.CompactRevision)
			bv.DataBackend.WriteAt(bv.SuperBlock.Bytes(), 0)
		}
		datSize, _, _ := bv.FileStat()
		r.Log("backup run: source tail=%d revision=%d idx=%d; local dat=%d revision=%d", stats.TailOffset, stats.CompactRevision, stats.IdxFileSize, datSize, bv.SuperBlock.CompactionRevision)
		if os.Getenv("VERIF_C37_DEBUG") != "" {
			for _, f := range []string{filepath.Join(vsDir(r, 0), "1.dat"), filepath.Join(backupDir, "1.dat")} {
				if fh, err := os.Open(f); err == nil {
					df := backend.NewDiskFile(fh)
					storage.ScanVolumeFileFrom(needle.Version3, df, 8, &dbgScanner{f: f})
					fh.Close()
				}
			}
		}
		if datSize > stats.TailOffset {
			r.Probe("backup-discards-local-copy")
			bv.Destroy()
			bv, err = storage.NewVolume(backupDir, backupDir, "", vid, storage.NeedleMapInMemory, rp, ttl, 0, 0)
			if err != nil {
				return fmt.Errorf("recreate backup volume: %v", err)
			}
		}
		defer bv.Close()
		// pull, with the stream gated so that source operations can be released while it is open
		n.Gate(incCopy)
		done := make(chan error, 1)
		go func() { done <- bv.IncrementalBackup(vs.Addr(), grpc.WithInsecure()) }()
		during := int(st.Int("during"))
		var res error
		finished := false
		for iter := 0; iter < 100; iter++ {
			simkit.Wait()
			if !finished {
				select {
				case res = <-done:
					finished = true
				default:
				}
			}
			pend := n.Pending()
			if len(pend) == 0 {
				if finished {
					break
				}
				time.Sleep(time.Second)
				continue
			}
			if during > 0 {
				// a source write lands while the copy stream is open
				during--
				key := st.Int("dkey")
				ws := simkit.St("put", simkit.Mix(st.Seed, uint64(during)), "key", key, "size", 40)
				data := payload37(&ws)
				if _, err := operation.UploadData("http://"+vs.Addr()+"/"+fidOf(key), "", false, data, false, "application/octet-stream", nil, ""); err == nil {
					model[key] = data
					seqCounter++
					writeSeq[key] = seqCounter
					r.Log("put key=%d during the copy stream", key)
					r.Probe("source-write-while-stream-open")
					r.NonTrivial()
				}
			}
			n.Release(pend[0], Verdict{Kind: "ok"})
		}
		n.Ungate()
		n.ReleaseAll()
		if !finished {
			select {
			case res = <-done:
			case <-time.After(time.Minute):
				return fmt.Errorf("incremental backup never returned")
			}
		}
		return res
	}

	situation := func() string {
		switch {
		case compactions > 0 && hazard:
			return "after-source-compaction"
		case compactions > 0 && lostDeletes:
			return "delete-compacted-away-at-the-source-before-the-next-backup"
		case compactions > 0:
			return "after-source-compaction-that-kept-timestamp-order"
		}
		return "no-source-compaction"
	}
	compare := func(tag string) {
		// open the backup through a Store and compare every key with the source
		bs := storage.NewStore(nil, 9999, "backup", "backup:9999", []string{backupDir}, []int{8}, []util.MinFreeSpace{{Type: util.AsPercent, Percent: 0}}, "", storage.NeedleMapInMemory, []types.DiskType{types.HardDriveType})
		defer bs.Close()
		if bs.GetVolume(vid) == nil {
			r.Violate("backup-volume-unloadable", tag, "the backup volume does not load after backup run %d", backups)
			return
		}
		keys := make([]int64, 0)
		for k := int64(1); k <= 9; k++ {
			keys = append(keys, k)
		}
		sort.Slice(keys, func(i, j int) bool { return keys[i] < keys[j] })
		for _, k := range keys {
			nd := new(needle.Needle)
			nd.Id = types.Uint64ToNeedleId(uint64(k))
			_, rerr := bs.ReadVolumeNeedle(vid, nd, nil)
			want, live := model[k]
			sit := situation()
			switch {
			case live && rerr != nil:
				r.Violate("backup-misses-live-blob", sit, "%s: key %d is live on the source (%d bytes) but the backup answers %v (backup run %d, source compactions %d)", tag, k, len(want), rerr, backups, compactions)
				return
			case live && !bytes.Equal(nd.Data, want):
				r.Violate("backup-content-differs", sit, "%s: key %d: source holds %d bytes (%x...), backup %d bytes", tag, k, len(want), simkit.HashString(string(want)), len(nd.Data))
				return
			case !live && rerr == nil:
				r.Violate("backup-serves-deleted-blob", sit, "%s: key %d is deleted (or never existed) on the source but the backup serves %d bytes (backup run %d, source compactions %d)", tag, k, len(nd.Data), backups, compactions)
				return
			}
		}
	}

	for i := range p.Steps {
		st := &p.Steps[i]
		switch st.Kind {
		case "put":
			key := st.Int("key")
			data := payload37(st)
			_, err := operation.UploadData("http://"+vs.Addr()+"/"+fidOf(key), "", false, data, false, "application/octet-stream", nil, "")
			if err != nil {
				r.Log("put key=%d failed: %v", key, err)
				continue
			}
			model[key] = data
			seqCounter++
			writeSeq[key] = seqCounter
			r.Log("put key=%d len=%d", key, len(data))
			r.Abs("put")
		case "del":
			key := st.Int("key")
			if err := util.Delete("http://"+vs.Addr()+"/"+fidOf(key), ""); err == nil {
				if _, was := model[key]; was {
					pendingDeletes++
				}
				delete(model, key)
			}
			r.Log("del key=%d", key)
			r.Abs("del")
		case "adv":
			time.Sleep(time.Duration(st.Int("sec")) * time.Second)
			r.Abs("adv")
		case "compact":
			err := operation.WithVolumeServerClient(vs.Addr(), grpc.WithInsecure(), func(c volume_server_pb.VolumeServerClient) error {
				if _, err := c.VacuumVolumeCompact(ctxBg(), &volume_server_pb.VacuumVolumeCompactRequest{VolumeId: uint32(vid)}); err != nil {
					return err
				}
				_, err := c.VacuumVolumeCommit(ctxBg(), &volume_server_pb.VacuumVolumeCommitRequest{VolumeId: uint32(vid)})
				return err
			})
			if err == nil {
				compactions++
				if pendingDeletes > 0 {
					lostDeletes = true
				}
				last := 0
				for k := int64(1); k <= 9; k++ {
					if _, live := model[k]; live {
						if writeSeq[k] < last {
							hazard = true
						}
						last = writeSeq[k]
					}
				}
			}
			r.Log("source compaction err=%v (records out of timestamp order so far: %v)", err, hazard)
			r.Abs("compact")
			r.NonTrivial()
		case "backup":
			backups++
			err := doBackup(st)
			r.Log("backup run %d -> err=%v", backups, err)
			r.Abs(fmt.Sprintf("backup:%v", err == nil))
			if err != nil {
				r.Violate("backup-run-failed", situation(), "backup run %d failed: %v", backups, err)
				return
			}
			pendingDeletes = 0
			if st.Int("during") == 0 {
				compare(fmt.Sprintf("after-backup-%d", backups))
			}
		}
		if r.Violated() || r.Res.HarnessError != "" {
			return
		}
	}
}

func minInt2(a, b int) int {
	if a < b {
		return a
	}
	return b
}

func payload37(st *simkit.Step) []byte {
	data := simkit.StepRand(st, 3).Bytes(int(st.Int("size")))
	if len(data) >= 8 {
		copy(data, fmt.Sprintf("%08x", uint32(st.Seed)))
	}
	return data
}

type dbgScanner struct{ f string }

func (d *dbgScanner) VisitSuperBlock(super_block.SuperBlock) error { return nil }
func (d *dbgScanner) ReadNeedleBody() bool                         { return true }
func (d *dbgScanner) VisitNeedle(n *needle.Needle, offset int64, h, b []byte) error {
	n.ReadNeedleBodyBytes(b, needle.Version3)
	fmt.Printf("DEBUG %s: id=%d offset=%d size=%d appendAtNs=%d\n", d.f, n.Id, offset, n.Size, n.AppendAtNs)
	return nil
}
