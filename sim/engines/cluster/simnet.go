package cluster

import (
	"bytes"
	"context"
	"errors"
	"fmt"
	"io"
	"net"
	"net/http"
	"net/http/httptest"
	"sort"
	"strings"
	"sync"
	"time"

	"verifsim/simkit"

	"github.com/chrislusf/seaweedfs/weed/operation"
	"github.com/chrislusf/seaweedfs/weed/pb"
	"github.com/chrislusf/seaweedfs/weed/util"
	"github.com/golang/protobuf/proto"
	"google.golang.org/grpc"
	"google.golang.org/grpc/codes"
	"google.golang.org/grpc/status"
	"google.golang.org/grpc/test/bufconn"
)

// Net is the simulated network of one run. gRPC: every connection made
// through pb.GrpcDial (hook H1) is dialled to an in-memory listener and passes
// client interceptors; HTTP: every request made through util.Get/Post/... and
// operation.HttpClient is routed to the registered in-process handler.
// Messages whose method matches a gated prefix park before send and before
// the response is handed back; the root goroutine releases them one at a time
// with a verdict drawn from the plan.
type Net struct {
	r         *simkit.Run
	mu        sync.Mutex
	listeners map[string]*bufconn.Listener
	servers   []*grpc.Server
	handlers  map[string]http.Handler
	down      map[string]bool
	gated     []string
	pending   []*Msg
	ord       int
	// Observe, when set, sees every gRPC unary call (method, destination, request) as it is issued.
	Observe func(dest, method string, req interface{})
	// ObserveHTTP sees every HTTP request as it is issued.
	ObserveHTTP func(req *http.Request)
}

// Msg is one parked message (request or response phase of a call).
type Msg struct {
	Dest    string
	Method  string
	Phase   string // "req" or "resp"
	Hash    uint64
	Ord     int
	verdict chan Verdict
}

type Verdict struct {
	Kind  string // ok, drop (request never reaches the server), lostack (server executed, caller sees Unavailable)
	Delay time.Duration
}

var currentNet *Net
var httpSeamOnce sync.Once

type netRoundTripper struct{}

func (netRoundTripper) RoundTrip(req *http.Request) (*http.Response, error) {
	n := currentNet
	if n == nil {
		return nil, errors.New("simnet: no network installed")
	}
	return n.roundTrip(req)
}

type netHTTPClient struct{}

func (netHTTPClient) Do(req *http.Request) (*http.Response, error) {
	return netRoundTripper{}.RoundTrip(req)
}

func NewNet(r *simkit.Run) *Net {
	n := &Net{r: r, listeners: map[string]*bufconn.Listener{}, handlers: map[string]http.Handler{}, down: map[string]bool{}}
	currentNet = n
	httpSeamOnce.Do(func() {
		util.Transport.RegisterProtocol("http", netRoundTripper{})
	})
	operation.HttpClient = netHTTPClient{}
	operation.VerifResetCaches()
	pb.VerifResetGrpcClients()
	pb.VerifDialOptions = func(address string) []grpc.DialOption {
		return []grpc.DialOption{
			grpc.WithContextDialer(func(ctx context.Context, addr string) (net.Conn, error) { return n.dial(ctx, addr) }),
			grpc.WithUnaryInterceptor(n.unary),
			grpc.WithStreamInterceptor(n.stream),
		}
	}
	return n
}

func (n *Net) Close() {
	for _, s := range n.servers {
		s.Stop()
	}
	pb.VerifResetGrpcClients()
	// SUT goroutines that outlive the run (reconnect loops) must not reach the real network nor the next
	// run's network: until the next NewNet every dial fails at once
	pb.VerifDialOptions = func(address string) []grpc.DialOption {
		return []grpc.DialOption{grpc.WithContextDialer(func(ctx context.Context, addr string) (net.Conn, error) {
			return nil, errors.New("simulated network is gone")
		})}
	}
	currentNet = nil
}

// ServeGRPC starts a gRPC server on the in-memory listener of addr.
func (n *Net) ServeGRPC(addr string, register func(s *grpc.Server)) {
	l := bufconn.Listen(1 << 20)
	n.mu.Lock()
	n.listeners[addr] = l
	n.mu.Unlock()
	s := pb.NewGrpcServer()
	register(s)
	n.servers = append(n.servers, s)
	go s.Serve(l)
}

func (n *Net) ServeHTTP(addr string, h http.Handler) {
	n.mu.Lock()
	n.handlers[addr] = h
	n.mu.Unlock()
}

func (n *Net) SetDown(addr string, down bool) {
	n.mu.Lock()
	n.down[addr] = down
	n.mu.Unlock()
}

func (n *Net) isDown(addr string) bool {
	n.mu.Lock()
	defer n.mu.Unlock()
	host := addr
	if i := strings.LastIndex(addr, ":"); i > 0 {
		host = addr[:i]
	}
	return n.down[addr] || n.down[host]
}

func (n *Net) dial(ctx context.Context, addr string) (net.Conn, error) {
	n.mu.Lock()
	l := n.listeners[addr]
	n.mu.Unlock()
	if l == nil || n.isDown(addr) {
		return nil, fmt.Errorf("simnet: %s unreachable", addr)
	}
	return l.Dial()
}

// Gate makes calls whose method (gRPC full method or "HTTP <METHOD> <path prefix>") starts with one of the prefixes park.
func (n *Net) Gate(prefixes ...string) {
	n.mu.Lock()
	n.gated = append(n.gated, prefixes...)
	n.mu.Unlock()
}

func (n *Net) Ungate() {
	n.mu.Lock()
	n.gated = nil
	n.mu.Unlock()
}

func (n *Net) isGated(method string) bool {
	n.mu.Lock()
	defer n.mu.Unlock()
	for _, p := range n.gated {
		if strings.HasPrefix(method, p) {
			return true
		}
	}
	return false
}

func (n *Net) park(dest, method, phase string, hash uint64) Verdict {
	m := &Msg{Dest: dest, Method: method, Phase: phase, Hash: hash, verdict: make(chan Verdict, 1)}
	n.mu.Lock()
	n.ord++
	m.Ord = n.ord
	n.pending = append(n.pending, m)
	n.mu.Unlock()
	v := <-m.verdict
	if v.Delay > 0 {
		time.Sleep(v.Delay)
	}
	return v
}

// Pending returns the parked messages in canonical order (call after simkit.Wait()).
func (n *Net) Pending() []*Msg {
	n.mu.Lock()
	defer n.mu.Unlock()
	out := append([]*Msg{}, n.pending...)
	sort.SliceStable(out, func(i, j int) bool {
		a, b := out[i], out[j]
		if a.Dest != b.Dest {
			return a.Dest < b.Dest
		}
		if a.Method != b.Method {
			return a.Method < b.Method
		}
		if a.Phase != b.Phase {
			return a.Phase < b.Phase
		}
		if a.Hash != b.Hash {
			return a.Hash < b.Hash
		}
		return a.Ord < b.Ord
	})
	return out
}

// Release lets one parked message continue with a verdict.
func (n *Net) Release(m *Msg, v Verdict) {
	n.mu.Lock()
	for i, p := range n.pending {
		if p == m {
			n.pending = append(n.pending[:i], n.pending[i+1:]...)
			break
		}
	}
	n.mu.Unlock()
	m.verdict <- v
}

// ReleaseAll releases everything parked with "ok" until nothing is pending.
func (n *Net) ReleaseAll() {
	for {
		simkit.Wait()
		p := n.Pending()
		if len(p) == 0 {
			return
		}
		for _, m := range p {
			n.Release(m, Verdict{Kind: "ok"})
		}
	}
}

func hashMsg(req interface{}) uint64 {
	if pm, ok := req.(proto.Message); ok {
		if b, err := proto.Marshal(pm); err == nil {
			return simkit.HashString(string(b))
		}
	}
	return 0
}

func (n *Net) unary(ctx context.Context, method string, req, reply interface{}, cc *grpc.ClientConn, invoker grpc.UnaryInvoker, opts ...grpc.CallOption) error {
	dest := cc.Target()
	if f := n.Observe; f != nil {
		f(dest, method, req)
	}
	if n.isDown(dest) {
		return status.Error(codes.Unavailable, "simnet: "+dest+" unreachable")
	}
	if !n.isGated(method) {
		return invoker(ctx, method, req, reply, cc, opts...)
	}
	h := hashMsg(req)
	if v := n.park(dest, method, "req", h); v.Kind == "drop" {
		return status.Error(codes.Unavailable, "simnet: request dropped")
	}
	err := invoker(ctx, method, req, reply, cc, opts...)
	if v := n.park(dest, method, "resp", h); v.Kind == "lostack" {
		return status.Error(codes.Unavailable, "simnet: response lost")
	}
	return err
}

// roundTrip serves an HTTP request by calling the destination's handler in the caller's goroutine.
func (n *Net) roundTrip(req *http.Request) (*http.Response, error) {
	if f := n.ObserveHTTP; f != nil {
		f(req)
	}
	dest := req.URL.Host
	n.mu.Lock()
	h := n.handlers[dest]
	n.mu.Unlock()
	if h == nil || n.isDown(dest) {
		return nil, fmt.Errorf("dial tcp %s: connect: connection refused", dest)
	}
	method := "HTTP " + req.Method + " " + req.URL.Path
	if req.URL.Query().Get("type") == "replicate" {
		method += "#replicate"
	}
	gated := n.isGated(method)
	var hash uint64
	if gated {
		hash = simkit.HashString(req.URL.String())
		if v := n.park(dest, method, "req", hash); v.Kind == "drop" {
			return nil, fmt.Errorf("dial tcp %s: i/o timeout", dest)
		}
	}
	rec := httptest.NewRecorder()
	// the server side sees its own copy of the request
	sreq := req.Clone(req.Context())
	sreq.RequestURI = req.URL.RequestURI()
	sreq.RemoteAddr = "client:1"
	if req.Body != nil && req.Header.Get("X-Verif-Stream-Body") != "" {
		// the harness wants the server to read the body as a stream (it fails part-way)
		sreq.Header.Del("X-Verif-Stream-Body")
		sreq.Body = req.Body
	} else if req.Body != nil {
		body, err := io.ReadAll(req.Body)
		req.Body.Close()
		if err != nil {
			return nil, err
		}
		sreq.Body = io.NopCloser(bytes.NewReader(body))
		sreq.ContentLength = int64(len(body))
	}
	h.ServeHTTP(rec, sreq)
	if gated {
		if v := n.park(dest, method, "resp", hash); v.Kind == "lostack" {
			return nil, fmt.Errorf("read tcp %s: connection reset by peer (response lost)", dest)
		}
	}
	resp := rec.Result()
	resp.Request = req
	return resp, nil
}

// stream gates the receive side of client streams whose method is gated: every
// RecvMsg parks (phase "recv") until the root goroutine releases it; verdict
// "drop" makes the stream fail with Unavailable at that point (stream cut).
func (n *Net) stream(ctx context.Context, desc *grpc.StreamDesc, cc *grpc.ClientConn, method string, streamer grpc.Streamer, opts ...grpc.CallOption) (grpc.ClientStream, error) {
	dest := cc.Target()
	if n.isDown(dest) {
		return nil, status.Error(codes.Unavailable, "simnet: "+dest+" unreachable")
	}
	cs, err := streamer(ctx, desc, cc, method, opts...)
	if err != nil || !n.isGated(method) {
		return cs, err
	}
	return &gatedStream{ClientStream: cs, n: n, dest: dest, method: method}, nil
}

type gatedStream struct {
	grpc.ClientStream
	n      *Net
	dest   string
	method string
	count  uint64
}

func (g *gatedStream) RecvMsg(m interface{}) error {
	g.count++
	if v := g.n.park(g.dest, g.method, "recv", g.count); v.Kind == "drop" {
		return status.Error(codes.Unavailable, "simnet: stream cut")
	}
	return g.ClientStream.RecvMsg(m)
}
