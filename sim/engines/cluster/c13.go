package cluster

import (
	"context"
	"errors"
	"fmt"
	"net"
	"os"
	"path/filepath"
	"sort"
	"strconv"
	"time"

	"verifsim/simkit"

	"github.com/chrislusf/seaweedfs/weed/pb"
	"github.com/chrislusf/seaweedfs/weed/pb/master_pb"
	"github.com/chrislusf/seaweedfs/weed/sequence"
	"github.com/chrislusf/seaweedfs/weed/storage/needle"
	"go.etcd.io/etcd/client"
	"google.golang.org/grpc"
)

// C13 — file keys and volume ids are never handed out twice.
//
// Component mode: the real sequencers (memory, snowflake, etcd over an
// in-memory compare-and-swap KeysAPI with injectable errors) driven by
// scheduler-ordered NextFileId / SetMax calls, instance restarts and clock
// moves. System mode: one or two real masters in one raft-stub group, modelled
// volume servers reporting the largest key in use, assigns with any counts
// through the real Assign handler, keys actually written by clients, leader
// hand-overs with assignments not yet written, volume ids through NextVolumeId.

func init() {
	simkit.Register(&simkit.Prop{ID: "C13", Gen: genC13, Exec: execC13})
}

// unreachableDial makes every gRPC connection attempt of the SUT fail at once
// (engines whose volume servers are only modelled must never touch a real socket).
func unreachableDial() {
	pb.VerifResetGrpcClients()
	pb.VerifDialOptions = func(address string) []grpc.DialOption {
		return []grpc.DialOption{grpc.WithContextDialer(func(ctx context.Context, addr string) (net.Conn, error) {
			return nil, errors.New("simnet: " + addr + " unreachable")
		})}
	}
}

// ---- in-memory etcd v2 KeysAPI

type fakeEtcd struct {
	vals    map[string]string
	idx     uint64
	failGet int
	failSet int
	casRace int // the next n Set calls find the value changed underneath them (a concurrent writer)
	fired   func(string)
}

func (f *fakeEtcd) Get(ctx context.Context, key string, opts *client.GetOptions) (*client.Response, error) {
	if f.failGet > 0 {
		f.failGet--
		f.fired("etcd-get-error")
		return nil, errors.New("etcd cluster is unavailable")
	}
	v, ok := f.vals[key]
	if !ok {
		return nil, client.Error{Code: client.ErrorCodeKeyNotFound, Message: "Key not found"}
	}
	return &client.Response{Action: "get", Node: &client.Node{Key: key, Value: v, ModifiedIndex: f.idx}}, nil
}

func (f *fakeEtcd) Set(ctx context.Context, key, value string, opts *client.SetOptions) (*client.Response, error) {
	if f.failSet > 0 {
		f.failSet--
		f.fired("etcd-set-error")
		return nil, errors.New("etcd cluster is unavailable")
	}
	cur, ok := f.vals[key]
	if f.casRace > 0 && ok && opts != nil && opts.PrevValue != "" {
		// a concurrent writer (another master) moved the value: bump it and fail the compare
		f.casRace--
		f.fired("etcd-cas-conflict")
		n, _ := strconv.ParseUint(cur, 10, 64)
		f.vals[key] = strconv.FormatUint(n+37, 10)
		f.idx++
		return nil, client.Error{Code: client.ErrorCodeTestFailed, Message: "Compare failed"}
	}
	if opts != nil && opts.PrevValue != "" && (!ok || cur != opts.PrevValue) {
		return nil, client.Error{Code: client.ErrorCodeTestFailed, Message: "Compare failed"}
	}
	f.vals[key] = value
	f.idx++
	return &client.Response{Action: "set", Node: &client.Node{Key: key, Value: value, ModifiedIndex: f.idx}}, nil
}

func (f *fakeEtcd) Create(ctx context.Context, key, value string) (*client.Response, error) {
	if _, ok := f.vals[key]; ok {
		return nil, client.Error{Code: client.ErrorCodeNodeExist, Message: "Key already exists"}
	}
	f.vals[key] = value
	f.idx++
	return &client.Response{Action: "create", Node: &client.Node{Key: key, Value: value}}, nil
}
func (f *fakeEtcd) Delete(ctx context.Context, key string, opts *client.DeleteOptions) (*client.Response, error) {
	delete(f.vals, key)
	return &client.Response{Action: "delete"}, nil
}
func (f *fakeEtcd) CreateInOrder(ctx context.Context, dir, value string, opts *client.CreateInOrderOptions) (*client.Response, error) {
	return nil, errors.New("not supported")
}
func (f *fakeEtcd) Update(ctx context.Context, key, value string) (*client.Response, error) {
	return f.Set(ctx, key, value, nil)
}
func (f *fakeEtcd) Watcher(key string, opts *client.WatcherOptions) client.Watcher { return nil }

// ---- history of assignments

type assignment struct {
	vol   uint32
	key   uint64
	count uint64
	by    string
	seq   uint64
}

type c13run struct {
	r       *simkit.Run
	assigns []assignment
	used    map[uint32]map[uint64]bool // keys actually written, per volume
	kind    string
	sawCountAbove1 bool
}

// record checks a new assignment against everything handed out or written before.
func (c *c13run) record(a assignment, situation string) {
	r := c.r
	r.Count("assignments")
	if a.count > 1 {
		c.sawCountAbove1 = true
	}
	end := a.key + a.count
	for _, b := range c.assigns {
		if b.vol != a.vol {
			continue
		}
		if a.key < b.key+b.count && b.key < end {
			key := c.causeKey(situation, a.key == 0 || b.key == 0)
			r.Violate("overlapping-key-ranges", key, "assignment #%d by %s = volume %d keys [%d,%d) overlaps assignment #%d by %s = [%d,%d)", a.seq, a.by, a.vol, a.key, end, b.seq, b.by, b.key, b.key+b.count)
			return
		}
	}
	for k := range c.used[a.vol] {
		if k >= a.key && k < end {
			r.Violate("assigned-key-already-used", c.causeKey(situation, a.key == 0), "assignment #%d by %s = volume %d keys [%d,%d) contains key %d which is already written in that volume", a.seq, a.by, a.vol, a.key, end, k)
			return
		}
	}
	c.assigns = append(c.assigns, a)
}

// causeKey names the recorded root cause a violation matches, or the plain situation.
func (c *c13run) causeKey(situation string, zeroKey bool) string {
	switch {
	case c.kind == "snowflake" && c.sawCountAbove1:
		return "snowflake:count-ignored"
	case c.kind == "etcd" && zeroKey:
		return "etcd:error-returns-zero"
	}
	return c.kind + ":" + situation
}

func genC13(tier string, seed uint64, idx int) *simkit.Plan {
	rng := simkit.NewRand(seed)
	p := &simkit.Plan{Engine: "cluster"}
	mode := idx % 4 // 0 memory, 1 snowflake, 2 etcd, 3 system (masters + heartbeats + leader changes)
	p.SetC("mode", int64(mode))
	faults := rng.Chance(1, 2)
	if faults {
		p.SetC("faults", 1)
	}
	counts := func() int {
		switch rng.Pick(5, 3, 1, 1) {
		case 0:
			return 1
		case 1:
			return rng.Range(2, 10)
		case 2:
			return rng.Range(400, 1100) // around the etcd batch size of 500
		}
		return 0 // "0" means 1 on the wire
	}
	n := rng.Range(6, 40)
	if mode == 1 && rng.Chance(2, 3) {
		// snowflake: the recorded finding (count ignored) ends every run that asks for more than one key;
		// most runs ask for single keys so that the rest of the sequencer gets its turn
		counts = func() int { return 1 }
	}
	if mode != 3 {
		insts := 1
		if mode == 2 {
			insts = rng.Range(1, 2)
		}
		p.SetC("insts", int64(insts))
		for i := 0; i < n; i++ {
			switch x := rng.Intn(100); {
			case x < 60:
				c := counts()
				if c == 0 {
					c = 1
				}
				p.Add(simkit.St("next", rng.Uint64(), "inst", rng.Intn(insts), "count", c))
			case x < 78:
				p.Add(simkit.St("setmax", rng.Uint64(), "inst", rng.Intn(insts), "v", rng.Intn(3000), "rel", rng.Intn(3)))
			case x < 86:
				p.Add(simkit.St("adv", rng.Uint64(), "ms", []int{1, 1, 2, 1000, 60000}[rng.Intn(5)]))
			case x < 92 && mode == 2:
				p.Add(simkit.St("restart", rng.Uint64(), "inst", rng.Intn(insts)))
			case faults && mode == 2:
				p.Add(simkit.St("etcdfault", rng.Uint64(), "kind", []string{"get", "set", "cas"}[rng.Intn(3)], "n", rng.Range(1, 2)))
			default:
				p.Add(simkit.St("next", rng.Uint64(), "inst", rng.Intn(insts), "count", 1))
			}
		}
		return p
	}
	masters := rng.Range(1, 2)
	servers := rng.Range(1, 3)
	vols := rng.Range(1, 3)
	p.SetC("masters", int64(masters))
	p.SetC("servers", int64(servers))
	p.SetC("vols", int64(vols))
	// a KeepConnected client that is slow to take location updates: heartbeat handlers park in their
	// broadcast, and assigns run while they are parked (hold=1) until the next step that needs the stream
	slow := rng.Chance(1, 2)
	if slow {
		p.SetC("slowclient", 1)
	}
	hold := func() int {
		if slow && rng.Chance(1, 2) {
			return 1
		}
		return 0
	}
	for i := 0; i < n; i++ {
		switch x := rng.Intn(100); {
		case x < 40:
			p.Add(simkit.St("assign", rng.Uint64(), "count", counts()))
		case x < 62:
			p.Add(simkit.St("write", rng.Uint64(), "pick", rng.Intn(1000), "j", rng.Intn(1000)))
		case x < 78:
			p.Add(simkit.St("hb", rng.Uint64(), "node", rng.Intn(servers), "hold", hold()))
		case x < 84:
			p.Add(simkit.St("nextvid", rng.Uint64()))
		case x < 88:
			p.Add(simkit.St("adv", rng.Uint64(), "ms", []int{1, 200, 5000}[rng.Intn(3)]))
		case masters > 1:
			p.Add(simkit.St("leader", rng.Uint64(), "m", rng.Intn(masters), "rehb", rng.Intn(3), "hold", hold()))
		default:
			p.Add(simkit.St("assign", rng.Uint64(), "count", 1))
		}
	}
	return p
}

func execC13(r *simkit.Run) {
	p := r.Plan
	r.Res.FaultConfig = p.C("faults") == 1
	c := &c13run{r: r, used: map[uint32]map[uint64]bool{}}
	unreachableDial()
	defer func() { pb.VerifDialOptions = nil; pb.VerifResetGrpcClients() }()
	switch p.C("mode") {
	case 0, 1, 2:
		c.component(int(p.C("mode")))
	default:
		c.system()
	}
}

func (c *c13run) component(mode int) {
	r := c.r
	p := r.Plan
	c.kind = []string{"memory", "snowflake", "etcd"}[mode]
	etcd := &fakeEtcd{vals: map[string]string{}, fired: func(k string) { r.Fault(k) }}
	insts := make([]sequence.Sequencer, int(p.C("insts")))
	mk := func(i int) sequence.Sequencer {
		switch mode {
		case 0:
			return sequence.NewMemorySequencer()
		case 1:
			s, err := sequence.NewSnowflakeSequencer(fmt.Sprintf("master%d:9333", i))
			if err != nil {
				r.HarnessError("snowflake: %v", err)
				return nil
			}
			return s
		default:
			dir := filepath.Join(r.Dir, fmt.Sprintf("m%d", i))
			os.MkdirAll(dir, 0755)
			s, err := sequence.VerifNewEtcdSequencer(etcd, dir)
			if err != nil {
				return nil // a failed start is a failed start, not a hand-out
			}
			return s
		}
	}
	for i := range insts {
		insts[i] = mk(i)
	}
	maxSeen := uint64(0) // largest key reported as in use so far
	seq := uint64(0)
	generatedThisMs := 0
	for i := range p.Steps {
		st := &p.Steps[i]
		inst := int(st.Int("inst"))
		if inst >= len(insts) {
			inst = 0
		}
		switch st.Kind {
		case "next":
			if insts[inst] == nil {
				continue
			}
			if mode == 1 {
				generatedThisMs++
				if generatedThisMs > 3000 {
					time.Sleep(time.Millisecond) // snowflake spins when a millisecond is exhausted; the fake clock would never move
					generatedThisMs = 0
				}
			}
			count := uint64(st.Int("count"))
			failedBefore := r.Res.Faults["etcd-get-error"] + r.Res.Faults["etcd-set-error"]
			id := insts[inst].NextFileId(count)
			seq++
			r.Log("next inst=%d count=%d -> %d", inst, count, id)
			r.Abs(fmt.Sprintf("next:%v", count > 1))
			if count > 1 {
				c.sawCountAbove1 = true
			}
			situation := "plain"
			if r.Res.Faults["etcd-get-error"]+r.Res.Faults["etcd-set-error"] > failedBefore {
				situation = "after-etcd-error"
			}
			if id <= maxSeen && len(c.assigns) >= 0 && maxSeen > 0 && r.Res.Violation == nil {
				// every key <= maxSeen was reported in use by a volume server
				if id != 0 || situation != "plain" || true {
					r.Violate("assigned-key-already-used", c.causeKey(situation, id == 0), "NextFileId(%d) returned %d although keys up to %d were reported in use (SetMax)", count, id, maxSeen)
					return
				}
			}
			c.record(assignment{vol: 1, key: id, count: count, by: fmt.Sprintf("inst%d", inst), seq: seq}, situation)
		case "setmax":
			if insts[inst] == nil {
				continue
			}
			v := uint64(st.Int("v"))
			if mode == 2 {
				// keys in a volume were handed out by this sequence, or are foreign and larger than
				// everything it has reserved so far; a never-handed-out key inside a reserved
				// window cannot be reported by a volume server
				hi := uint64(0)
				if s := etcd.vals[sequence.EtcdKeySequence]; s != "" {
					hi, _ = strconv.ParseUint(s, 10, 64)
				}
				v += hi
			}
			if st.Int("rel") > 0 && len(c.assigns) > 0 {
				// what a heartbeat really carries: a key that was handed out and then written
				last := c.assigns[len(c.assigns)-1]
				v = last.key + last.count - 1
			}
			fb := r.Res.Faults["etcd-get-error"] + r.Res.Faults["etcd-set-error"] + r.Res.Faults["etcd-cas-conflict"]
			for _, in := range insts { // every master hears every volume server
				if in != nil {
					in.SetMax(v)
				}
			}
			if r.Res.Faults["etcd-get-error"]+r.Res.Faults["etcd-set-error"]+r.Res.Faults["etcd-cas-conflict"] > fb {
				// the report was lost to an injected etcd error; the volume server repeats it with
				// its next heartbeat, so it only counts once it got through
				r.Probe("setmax-lost-to-etcd-error")
				continue
			}
			if v > maxSeen {
				maxSeen = v
			}
			r.Log("setmax %d", v)
			r.Abs("setmax")
		case "adv":
			time.Sleep(time.Duration(st.Int("ms")) * time.Millisecond)
			generatedThisMs = 0
			r.Abs("adv")
			r.NonTrivial()
		case "restart":
			if mode == 2 {
				insts[inst] = mk(inst)
				r.Log("restart inst=%d ok=%v", inst, insts[inst] != nil)
				r.Abs("restart")
				r.Fault("sequencer-restart")
			}
		case "etcdfault":
			switch st.Str("kind") {
			case "get":
				etcd.failGet = int(st.Int("n"))
			case "set":
				etcd.failSet = int(st.Int("n"))
			default:
				etcd.casRace = int(st.Int("n"))
			}
			r.Abs("etcdfault:" + st.Str("kind"))
		}
		if r.Violated() {
			return
		}
	}
}

func (c *c13run) system() {
	r := c.r
	p := r.Plan
	c.kind = "cluster-memory-sequencer"
	nm, ns, nv := int(p.C("masters")), int(p.C("servers")), int(p.C("vols"))
	var masters []*Master
	var stubs []*RaftStub
	for i := 0; i < nm; i++ {
		m := NewMaster(MasterCfg{Host: fmt.Sprintf("master%d", i), Port: 9333, SizeLimitMB: 100})
		masters = append(masters, m)
		stubs = append(stubs, m.Raft)
	}
	for _, s := range stubs {
		s.peers = stubs
	}
	leader := 0
	SetLeader(stubs, masters[0].Addr)
	t := &topoRun{r: r, prop: "C13", ecDefs: map[uint32]mec{}}
	maxKey := make([]uint64, ns) // largest key written on each modelled server
	for n := 0; n < ns; n++ {
		s := &mserver{idx: n, ip: fmt.Sprintf("vs%d", n), port: 8080, dc: "dc0", rack: "r0"}
		s.actual = vsState{vols: map[uint32]mvol{}, ecs: map[uint32]mec{}, max: map[string]uint32{"": 20}}
		for v := 1; v <= nv; v++ {
			if (v+n)%ns == 0 || ns == 1 {
				s.actual.vols[uint32(v)] = mvol{Id: uint32(v), Rp: "000", Size: 1000}
			}
		}
		t.servers = append(t.servers, s)
	}
	holder := func(vol uint32) int {
		for i, s := range t.servers {
			if _, ok := s.actual.vols[vol]; ok {
				return i
			}
		}
		return 0
	}
	// slow KeepConnected client
	var clientChans []chan *master_pb.VolumeLocation
	if p.C("slowclient") == 1 {
		for _, m := range masters {
			ch := make(chan *master_pb.VolumeLocation)
			m.MS.VerifAddClientChan("slow@client:1", ch)
			clientChans = append(clientChans, ch)
		}
	}
	drain := func() {
		for progress := true; progress; {
			progress = false
			simkit.Wait()
			for _, ch := range clientChans {
				select {
				case <-ch:
					progress = true
					r.Probe("slow-client-took-a-location-update")
				default:
				}
			}
		}
	}
	reported := make([]uint64, nm) // largest MaxFileKey each master has received in a heartbeat
	connectAll := func() {
		drain()
		t.m = masters[leader]
		for i, s := range t.servers {
			drain()
			if s.stream != nil {
				close(s.stream.in)
				s.stream, s.reg = nil, nil
			}
			simkit.Wait()
			st := &hbStream{in: make(chan *master_pb.Heartbeat), ctx: context.Background(), done: make(chan error, 1)}
			s.stream = st
			m := masters[leader]
			go func() { st.done <- m.MS.SendHeartbeat(st) }()
			reg := vsState{vols: map[uint32]mvol{}, ecs: map[uint32]mec{}, max: map[string]uint32{}}
			s.reg = &reg
			hb := t.fullMsg(s, s.actual, true)
			hb.MaxFileKey = maxKey[i]
			t.send(s, hb)
			if maxKey[i] > reported[leader] {
				reported[leader] = maxKey[i]
			}
		}
	}
	simkit.Wait()
	connectAll()
	drain()
	seq := uint64(0)
	vids := map[uint32]string{}
	sinceLeaderChange := "steady"
	for i := range p.Steps {
		st := &p.Steps[i]
		switch st.Kind {
		case "assign":
			m := masters[leader]
			resp, err := m.MS.Assign(context.Background(), &master_pb.AssignRequest{Count: uint64(st.Int("count")), Replication: "000"})
			if err != nil || resp == nil || resp.Fid == "" {
				r.Log("assign -> err=%v", err)
				r.Abs("assign:fail")
				continue
			}
			fid, perr := needle.ParseFileIdFromString(resp.Fid)
			if perr != nil {
				r.HarnessError("bad fid %q: %v", resp.Fid, perr)
				return
			}
			seq++
			a := assignment{vol: uint32(fid.VolumeId), key: uint64(fid.Key), count: resp.Count, by: m.Addr, seq: seq}
			r.Log("assign by %s -> %s count=%d", m.Addr, resp.Fid, resp.Count)
			r.Abs(fmt.Sprintf("assign:%v", resp.Count > 1))
			situation := sinceLeaderChange
			for k := range c.used[a.vol] {
				if k >= a.key && k < a.key+a.count && k <= reported[leader] {
					// the assigning master had itself received a heartbeat reporting a key at or above this one
					situation = "key-at-or-below-max-file-key-reported-to-the-assigning-master"
				}
			}
			c.record(a, situation)
		case "write":
			if len(c.assigns) == 0 {
				continue
			}
			a := c.assigns[int(st.Int("pick"))%len(c.assigns)]
			k := a.key + uint64(st.Int("j"))%a.count
			if c.used[a.vol] == nil {
				c.used[a.vol] = map[uint64]bool{}
			}
			c.used[a.vol][k] = true
			if h := holder(a.vol); k > maxKey[h] {
				maxKey[h] = k
			}
			r.Log("client writes volume %d key %d", a.vol, k)
			r.Abs("write")
		case "hb":
			n := int(st.Int("node")) % ns
			s := t.servers[n]
			if s.stream != nil {
				drain()
				hb := t.fullMsg(s, s.actual, false)
				hb.MaxFileKey = maxKey[n]
				t.send(s, hb)
				if maxKey[n] > reported[leader] {
					reported[leader] = maxKey[n]
				}
				if st.Int("hold") == 0 {
					drain()
				} else {
					r.Fault("assigns-while-heartbeat-handler-parked-in-broadcast")
				}
				r.Log("heartbeat %s maxFileKey=%d", s.id(), maxKey[n])
				r.Abs("hb")
			}
		case "nextvid":
			vid, err := masters[leader].MS.Topo.NextVolumeId()
			r.Log("NextVolumeId by %s -> %d err=%v", masters[leader].Addr, vid, err)
			r.Abs("nextvid")
			if err == nil {
				r.Count("volume-ids")
				if by, dup := vids[uint32(vid)]; dup {
					r.Violate("volume-id-reused", "next-volume-id:"+sinceLeaderChange, "volume id %d handed out by %s and again by %s", vid, by, masters[leader].Addr)
					return
				}
				vids[uint32(vid)] = masters[leader].Addr
			}
		case "leader":
			nl := int(st.Int("m")) % nm
			if nl == leader {
				continue
			}
			leader = nl
			SetLeader(stubs, masters[leader].Addr)
			r.Log("leader -> %s", masters[leader].Addr)
			r.Abs("leader-change")
			r.Fault("leader-change")
			sinceLeaderChange = "after-leader-change"
			// volume servers follow the leader: they reconnect and report the largest key they hold
			connectAll()
			if st.Int("hold") == 0 {
				drain()
			} else {
				r.Fault("assigns-while-heartbeat-handler-parked-in-broadcast")
			}
		case "adv":
			time.Sleep(time.Duration(st.Int("ms")) * time.Millisecond)
			simkit.Wait()
			r.Abs("adv")
		}
		if r.Violated() || r.Res.HarnessError != "" {
			return
		}
	}
	drain()
	for _, s := range t.servers {
		if s.stream != nil {
			close(s.stream.in)
		}
	}
	drain()
	_ = sort.Ints
}
