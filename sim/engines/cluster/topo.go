package cluster

import (
	"context"
	"fmt"
	"io"
	"sort"
	"strings"
	"time"

	"verifsim/simkit"

	"github.com/chrislusf/seaweedfs/weed/pb/master_pb"
	"github.com/chrislusf/seaweedfs/weed/storage/needle"
	"github.com/chrislusf/seaweedfs/weed/storage/super_block"
	"github.com/chrislusf/seaweedfs/weed/topology"
	"google.golang.org/grpc/metadata"
)

// C11 / C12: the real master (SendHeartbeat handler + topology) fed by
// modelled volume servers. Each modelled server is a goroutine running the
// real ms.SendHeartbeat over an in-memory stream whose messages the plan
// sends one at a time; after each message the master runs to quiescence and
// the reference (recomputed from what is currently registered) is compared.

func init() {
	simkit.Register(&simkit.Prop{ID: "C11", Gen: genTopo("C11"), Exec: execTopo("C11"), Shrink: nil})
	simkit.Register(&simkit.Prop{ID: "C12", Gen: genTopo("C12"), Exec: execTopo("C12"), Shrink: nil})
}

// ---- in-memory heartbeat stream

type hbStream struct {
	in   chan *master_pb.Heartbeat
	out  []*master_pb.HeartbeatResponse
	ctx  context.Context
	done chan error
}

func (s *hbStream) Send(r *master_pb.HeartbeatResponse) error { s.out = append(s.out, r); return nil }
func (s *hbStream) Recv() (*master_pb.Heartbeat, error) {
	hb, ok := <-s.in
	if !ok {
		return nil, io.EOF
	}
	return hb, nil
}
func (s *hbStream) SetHeader(metadata.MD) error  { return nil }
func (s *hbStream) SendHeader(metadata.MD) error { return nil }
func (s *hbStream) SetTrailer(metadata.MD)       {}
func (s *hbStream) Context() context.Context     { return s.ctx }
func (s *hbStream) SendMsg(m interface{}) error  { return nil }
func (s *hbStream) RecvMsg(m interface{}) error  { return nil }

// ---- modelled volume server and reference state

type mvol struct {
	Id         uint32
	Collection string
	Rp         string
	Ttl        string
	Disk       string
	Size       uint64
	RO         bool
	Remote     bool
	OverAtReg  bool // the size was at or above the limit when this replica was registered
}

type mec struct {
	Id         uint32
	Collection string
	Bits       uint32
	Disk       string
}

type vsState struct {
	vols map[uint32]mvol
	ecs  map[uint32]mec
	max  map[string]uint32
}

func (s vsState) clone() vsState {
	c := vsState{vols: map[uint32]mvol{}, ecs: map[uint32]mec{}, max: map[string]uint32{}}
	for k, v := range s.vols {
		c.vols[k] = v
	}
	for k, v := range s.ecs {
		c.ecs[k] = v
	}
	for k, v := range s.max {
		c.max[k] = v
	}
	return c
}

type mserver struct {
	idx      int
	ip       string
	port     int
	dc, rack string
	actual   vsState   // what the modelled server really has
	reg      *vsState  // what the master has been told over the live stream (nil = not connected)
	snap     *vsState  // an older snapshot for stale full heartbeats
	stream   *hbStream
	old      []*hbStream // streams of earlier incarnations still open on the master side
	lastMsg  *master_pb.Heartbeat
	tainted  string // set when a recorded-finding scenario touched this server's registration
}

func (m *mserver) id() string { return fmt.Sprintf("%s:%d", m.ip, m.port) }

type topoRun struct {
	r       *simkit.Run
	prop    string
	m       *Master
	servers []*mserver
	asMin   bool
	limit   uint64
	taint   string
	ecDefs  map[uint32]mec
	prevWritable map[uint32]bool
}

func rpOf(s string) *super_block.ReplicaPlacement {
	rp, _ := super_block.NewReplicaPlacementFromString(s)
	return rp
}

func (v mvol) msg() *master_pb.VolumeInformationMessage {
	t, _ := needle.ReadTTL(v.Ttl)
	m := &master_pb.VolumeInformationMessage{Id: v.Id, Size: v.Size, Collection: v.Collection, ReadOnly: v.RO, ReplicaPlacement: uint32(rpOf(v.Rp).Byte()),
		Version: uint32(needle.CurrentVersion), Ttl: t.ToUint32(), DiskType: v.Disk}
	if v.Remote {
		m.RemoteStorageName, m.RemoteStorageKey = "s3", fmt.Sprintf("k%d", v.Id)
	}
	return m
}

func (v mvol) short() *master_pb.VolumeShortInformationMessage {
	t, _ := needle.ReadTTL(v.Ttl)
	return &master_pb.VolumeShortInformationMessage{Id: v.Id, Collection: v.Collection, ReplicaPlacement: uint32(rpOf(v.Rp).Byte()), Version: uint32(needle.CurrentVersion), Ttl: t.ToUint32(), DiskType: v.Disk}
}

func (e mec) msg() *master_pb.VolumeEcShardInformationMessage {
	return &master_pb.VolumeEcShardInformationMessage{Id: e.Id, Collection: e.Collection, EcIndexBits: e.Bits, DiskType: e.Disk}
}

func sortedU32(m map[uint32]mvol) []uint32 {
	var ks []uint32
	for k := range m {
		ks = append(ks, k)
	}
	sort.Slice(ks, func(i, j int) bool { return ks[i] < ks[j] })
	return ks
}

func sortedEc(m map[uint32]mec) []uint32 {
	var ks []uint32
	for k := range m {
		ks = append(ks, k)
	}
	sort.Slice(ks, func(i, j int) bool { return ks[i] < ks[j] })
	return ks
}

func (t *topoRun) fullMsg(s *mserver, st vsState, withEc bool) *master_pb.Heartbeat {
	hb := &master_pb.Heartbeat{Ip: s.ip, Port: uint32(s.port), PublicUrl: s.id(), DataCenter: s.dc, Rack: s.rack, MaxVolumeCounts: map[string]uint32{}}
	for k, v := range st.max {
		hb.MaxVolumeCounts[k] = v
	}
	for _, k := range sortedU32(st.vols) {
		hb.Volumes = append(hb.Volumes, st.vols[k].msg())
	}
	hb.HasNoVolumes = len(hb.Volumes) == 0
	if withEc {
		for _, k := range sortedEc(st.ecs) {
			hb.EcShards = append(hb.EcShards, st.ecs[k].msg())
		}
		hb.HasNoEcShards = len(hb.EcShards) == 0
	}
	return hb
}

// send delivers one message on the server's live stream and lets the master finish with it.
func (t *topoRun) send(s *mserver, hb *master_pb.Heartbeat) {
	s.stream.in <- hb
	simkit.Wait()
	s.lastMsg = hb
}

func (t *topoRun) connect(s *mserver) {
	st := &hbStream{in: make(chan *master_pb.Heartbeat), ctx: context.Background(), done: make(chan error, 1)}
	s.stream = st
	go func() { st.done <- t.m.MS.SendHeartbeat(st) }()
	reg := vsState{vols: map[uint32]mvol{}, ecs: map[uint32]mec{}, max: map[string]uint32{}}
	if s.reg != nil && s.tainted == "" {
		// (not after an earlier race on this server: there the old stream's end has removed the node, and this
		// connection makes a new one)
		// the previous stream of this server is still registered (reconnect race): the master keeps its node, and a
		// reported max of 0 means "not configured", which changes nothing - so the earlier figures stay in force
		for k, v := range s.reg.max {
			reg.max[k] = v
		}
		// ... and its volumes stay registered on that node: the new stream's first heartbeat is no new registration
		// for them (what was recorded when they were registered, e.g. "oversized", stays as it was)
		for k, v := range s.reg.vols {
			reg.vols[k] = v
		}
	}
	s.reg = &reg
	t.applyFull(s, s.actual, true)
	t.send(s, t.fullMsg(s, s.actual, true))
}

// applyFull / applyDelta update the reference exactly as the statement reads:
// the registered state is what each connected server last reported.
func (t *topoRun) applyFull(s *mserver, st vsState, withEc bool) {
	c := st.clone()
	for vid, v := range c.vols {
		if old, had := s.reg.vols[vid]; had {
			v.OverAtReg = old.OverAtReg
		} else {
			v.OverAtReg = t.limit > 0 && v.Size >= t.limit
		}
		c.vols[vid] = v
	}
	s.reg.vols = c.vols
	if withEc {
		s.reg.ecs = c.ecs
	}
	for k, v := range c.max {
		if v != 0 {
			s.reg.max[k] = v
		}
	}
}

func (t *topoRun) disconnect(s *mserver, st *hbStream) {
	close(st.in)
	simkit.Wait()
}

func (t *topoRun) exec() {
	r := t.r
	p := r.Plan
	for i := range p.Steps {
		st := &p.Steps[i]
		rng := simkit.StepRand(st, 7)
		var s *mserver
		if n := int(st.Int("node")); n >= 0 && n < len(t.servers) {
			s = t.servers[n]
		}
		switch st.Kind {
		case "connect":
			if s.reg == nil {
				t.connect(s)
				r.Log("connect %s", s.id())
				r.Abs("connect")
			}
		case "mutate":
			t.mutate(s, st, rng)
		case "full":
			if s.reg != nil {
				withEc := st.Int("ec") == 1
				t.applyFull(s, s.actual, withEc)
				t.send(s, t.fullMsg(s, s.actual, withEc))
				snap := s.actual.clone()
				if s.snap == nil || rng.Chance(1, 3) {
					s.snap = &snap
				}
				r.Log("full %s vols=%d ec=%v", s.id(), len(s.actual.vols), withEc)
				r.Abs("full")
			}
		case "stalefull":
			if s.reg != nil && s.snap != nil {
				t.applyFull(s, *s.snap, false)
				t.send(s, t.fullMsg(s, *s.snap, false))
				r.Log("stale full %s vols=%d", s.id(), len(s.snap.vols))
				r.Abs("stalefull")
				r.Fault("stale-full-heartbeat")
			}
		case "dup":
			if s.reg != nil && s.lastMsg != nil {
				t.replay(s, s.lastMsg)
				r.Log("dup %s", s.id())
				r.Abs("dup")
				r.Fault("dup-heartbeat")
			}
		case "delta":
			if s.reg != nil {
				t.delta(s, st, rng)
			}
		case "ecdelta":
			if s.reg != nil {
				t.ecDelta(s, st, rng)
			}
		case "disconnect":
			if s.reg != nil {
				t.disconnect(s, s.stream)
				s.reg, s.stream, s.lastMsg = nil, nil, nil
				r.Log("disconnect %s", s.id())
				r.Abs("disconnect")
				r.Fault("disconnect")
			}
		case "reconnect-race":
			// the server comes back before the master noticed the old stream died
			if s.reg != nil {
				old := s.stream
				t.connect(s)
				r.Log("reconnect %s (old stream still open)", s.id())
				t.check("after-reconnect-before-old-stream-ends")
				t.disconnect(s, old)
				r.Log("old stream of %s ends", s.id())
				r.Abs("reconnect-race")
				r.Fault("reconnect-overtakes-unregister")
				s.tainted = "reconnect-overtook-unregister"
			}
		case "adv":
			time.Sleep(time.Duration(st.Int("sec")) * time.Second)
			simkit.Wait()
			r.Log("adv %ds", st.Int("sec"))
			r.Abs("adv")
		}
		if r.Res.HarnessError != "" {
			return
		}
		t.check(st.Kind)
		if r.Violated() {
			return
		}
	}
}

// replay re-sends a message and applies it to the reference again.
func (t *topoRun) replay(s *mserver, hb *master_pb.Heartbeat) {
	if len(hb.Volumes) > 0 || hb.HasNoVolumes {
		vs := map[uint32]mvol{}
		for _, v := range hb.Volumes {
			vs[v.Id] = volFromMsg(v)
		}
		s.reg.vols = vs
	}
	for _, v := range hb.NewVolumes {
		s.reg.vols[v.Id] = volFromShort(v)
	}
	for _, v := range hb.DeletedVolumes {
		delete(s.reg.vols, v.Id)
	}
	if len(hb.EcShards) > 0 || hb.HasNoEcShards {
		es := map[uint32]mec{}
		for _, e := range hb.EcShards {
			es[e.Id] = mec{e.Id, e.Collection, e.EcIndexBits, e.DiskType}
		}
		s.reg.ecs = es
	}
	for _, e := range hb.NewEcShards {
		cur := s.reg.ecs[e.Id]
		s.reg.ecs[e.Id] = mec{e.Id, e.Collection, cur.Bits | e.EcIndexBits, e.DiskType}
	}
	for _, e := range hb.DeletedEcShards {
		if cur, ok := s.reg.ecs[e.Id]; ok {
			cur.Bits &^= e.EcIndexBits
			if cur.Bits == 0 {
				delete(s.reg.ecs, e.Id)
			} else {
				s.reg.ecs[e.Id] = cur
			}
		}
	}
	t.send(s, hb)
}

func volFromMsg(v *master_pb.VolumeInformationMessage) mvol {
	rp, _ := super_block.NewReplicaPlacementFromByte(byte(v.ReplicaPlacement))
	return mvol{Id: v.Id, Collection: v.Collection, Rp: rp.String(), Ttl: needle.LoadTTLFromUint32(v.Ttl).String(), Disk: v.DiskType, Size: v.Size, RO: v.ReadOnly, Remote: v.RemoteStorageName != ""}
}

func volFromShort(v *master_pb.VolumeShortInformationMessage) mvol {
	rp, _ := super_block.NewReplicaPlacementFromByte(byte(v.ReplicaPlacement))
	return mvol{Id: v.Id, Collection: v.Collection, Rp: rp.String(), Ttl: needle.LoadTTLFromUint32(v.Ttl).String(), Disk: v.DiskType}
}

func (t *topoRun) mutate(s *mserver, st *simkit.Step, rng *simkit.Rand) {
	vid := uint32(st.Int("vid"))
	switch st.Str("what") {
	case "add":
		s.actual.vols[vid] = mvol{Id: vid, Collection: st.Str("col"), Rp: st.Str("rp"), Ttl: st.Str("ttl"), Disk: st.Str("disk"), Size: uint64(st.Int("size")), RO: st.Int("ro") == 1}
	case "del":
		delete(s.actual.vols, vid)
	case "ro":
		if v, ok := s.actual.vols[vid]; ok {
			v.RO = st.Int("on") == 1
			s.actual.vols[vid] = v
		}
	case "roremote":
		// a tier upload/download completing within one pulse: read-only and remote flags change together
		if v, ok := s.actual.vols[vid]; ok {
			v.RO = st.Int("on") == 1
			v.Remote = st.Int("on") == 1
			s.actual.vols[vid] = v
		}
	case "size":
		if v, ok := s.actual.vols[vid]; ok {
			v.Size = uint64(st.Int("size"))
			s.actual.vols[vid] = v
		}
	case "remote":
		if v, ok := s.actual.vols[vid]; ok {
			v.Remote = st.Int("on") == 1
			s.actual.vols[vid] = v
		}
	case "max":
		s.actual.max[st.Str("disk")] = uint32(st.Int("n"))
	case "ecadd":
		cur, had := s.actual.ecs[vid]
		disk, col := st.Str("disk"), st.Str("col")
		if had {
			disk, col = cur.Disk, cur.Collection // an EC volume keeps its disk type and collection
		} else if old, ok := t.ecDefs[vid]; ok {
			disk, col = old.Disk, old.Collection
		}
		t.ecDefs[vid] = mec{Disk: disk, Collection: col}
		s.actual.ecs[vid] = mec{vid, col, cur.Bits | uint32(st.Int("bits")), disk}
	case "ecdel":
		if cur, ok := s.actual.ecs[vid]; ok {
			cur.Bits &^= uint32(st.Int("bits"))
			if cur.Bits == 0 {
				delete(s.actual.ecs, vid)
			} else {
				s.actual.ecs[vid] = cur
			}
		}
	}
	t.r.Log("mutate %s %s vid=%d", s.id(), st.Str("what"), vid)
	t.r.Abs("mutate:" + st.Str("what"))
}

// delta sends an incremental heartbeat: volumes present in actual but not yet
// registered are announced as new, registered-but-gone ones as deleted; with
// "stale" the deletion names a volume the master no longer has for this server.
func (t *topoRun) delta(s *mserver, st *simkit.Step, rng *simkit.Rand) {
	hb := &master_pb.Heartbeat{Ip: s.ip, Port: uint32(s.port), MaxVolumeCounts: map[string]uint32{}}
	for _, vid := range sortedU32(s.actual.vols) {
		if _, ok := s.reg.vols[vid]; !ok {
			hb.NewVolumes = append(hb.NewVolumes, s.actual.vols[vid].short())
		}
	}
	for _, vid := range sortedU32(s.reg.vols) {
		if _, ok := s.actual.vols[vid]; !ok {
			hb.DeletedVolumes = append(hb.DeletedVolumes, s.reg.vols[vid].short())
		}
	}
	if st.Int("stale") == 1 {
		// a deletion message that is delivered again / after a full heartbeat already removed the volume
		ghost := mvol{Id: uint32(st.Int("vid")), Collection: st.Str("col"), Rp: st.Str("rp"), Ttl: st.Str("ttl"), Disk: st.Str("disk")}
		_, inActual := s.actual.vols[ghost.Id]
		if _, has := s.reg.vols[ghost.Id]; !has && !inActual {
			hb.DeletedVolumes = append(hb.DeletedVolumes, ghost.short())
			t.r.Fault("stale-incremental-delete")
		}
	}
	if len(hb.NewVolumes) == 0 && len(hb.DeletedVolumes) == 0 {
		return
	}
	t.replay(s, hb)
	t.r.Log("delta %s new=%d deleted=%d", s.id(), len(hb.NewVolumes), len(hb.DeletedVolumes))
	t.r.Abs("delta")
}

func (t *topoRun) ecDelta(s *mserver, st *simkit.Step, rng *simkit.Rand) {
	hb := &master_pb.Heartbeat{Ip: s.ip, Port: uint32(s.port), MaxVolumeCounts: map[string]uint32{}}
	for _, vid := range sortedEc(s.actual.ecs) {
		a := s.actual.ecs[vid]
		add := a.Bits &^ s.reg.ecs[vid].Bits
		if add != 0 {
			hb.NewEcShards = append(hb.NewEcShards, mec{vid, a.Collection, add, a.Disk}.msg())
		}
	}
	for _, vid := range sortedEc(s.reg.ecs) {
		g := s.reg.ecs[vid]
		del := g.Bits &^ s.actual.ecs[vid].Bits
		if del != 0 {
			hb.DeletedEcShards = append(hb.DeletedEcShards, mec{vid, g.Collection, del, g.Disk}.msg())
		}
	}
	if st.Int("stale") == 1 {
		// a late or duplicated deletion: it names shards of a registered EC volume that the master
		// does not hold for this server (any more), possibly together with ones it does hold
		for _, vid := range sortedEc(s.reg.ecs) {
			g := s.reg.ecs[vid]
			ghost := uint32(st.Int("bits")) &^ g.Bits & (1<<14 - 1)
			if ghost != 0 {
				hb.DeletedEcShards = append(hb.DeletedEcShards, mec{vid, g.Collection, ghost, g.Disk}.msg())
				t.r.Fault("stale-ec-shard-delete")
				break
			}
		}
	}
	if len(hb.NewEcShards) == 0 && len(hb.DeletedEcShards) == 0 {
		return
	}
	t.replay(s, hb)
	t.r.Log("ecdelta %s new=%d deleted=%d", s.id(), len(hb.NewEcShards), len(hb.DeletedEcShards))
	t.r.Abs("ecdelta")
}

// ---- oracles

func bitsCount(b uint32) int {
	n := 0
	for ; b != 0; b &= b - 1 {
		n++
	}
	return n
}

func (t *topoRun) check(after string) {
	if t.prop == "C11" {
		t.checkC11(after)
	} else {
		t.checkC12(after)
	}
}

type layoutKey struct{ col, rp, ttl, disk string }

func (t *topoRun) taintOf(ids ...string) string {
	for _, s := range t.servers {
		for _, id := range ids {
			if s.id() == id && s.tainted != "" {
				return s.tainted
			}
		}
	}
	return ""
}

func (t *topoRun) checkC11(after string) {
	defer func() {
		t.prevWritable = map[uint32]bool{}
		for _, l := range t.m.MS.Topo.VerifLayouts() {
			for _, w := range l.Writables {
				t.prevWritable[w] = true
			}
		}
	}()
	if !t.checkC11once(after, false) {
		// The size clause is enforced by the master's periodic sweep (every 1-2 pulses
		// of 5 s), not by the heartbeat itself: give it four pulses of fake time
		// before calling an oversized-but-writable volume a violation.
		time.Sleep(20 * time.Second)
		simkit.Wait()
		t.r.Probe("size-clause-rechecked-after-sweep")
		t.checkC11once(after+"+20s", true)
	}
}

// checkC11once returns false when the only problem found is the size clause and final is false.
func (t *topoRun) checkC11once(after string, final bool) bool {
	r := t.r
	topo := t.m.MS.Topo
	// reference: volume -> registered servers
	type regv struct {
		servers []string
		vols    []mvol
		key     layoutKey
	}
	ref := map[layoutKey]map[uint32]*regv{}
	for _, s := range t.servers {
		if s.reg == nil {
			continue
		}
		for _, vid := range sortedU32(s.reg.vols) {
			v := s.reg.vols[vid]
			k := layoutKey{v.Collection, v.Rp, v.Ttl, normDisk(v.Disk)}
			if ref[k] == nil {
				ref[k] = map[uint32]*regv{}
			}
			if ref[k][vid] == nil {
				ref[k][vid] = &regv{key: k}
			}
			ref[k][vid].servers = append(ref[k][vid].servers, s.id())
			ref[k][vid].vols = append(ref[k][vid].vols, v)
		}
	}
	layouts := topo.VerifLayouts()
	seen := map[layoutKey]bool{}
	for _, l := range layouts {
		k := layoutKey{l.Collection, l.Rp, l.Ttl, normDisk(l.DiskType)}
		seen[k] = true
		// (1) offered for writes only if all registered replicas writable, count matches, below the limit
		for _, w := range l.Writables {
			rv := ref[k][w]
			why := ""
			switch {
			case rv == nil:
				why = "no registered replica"
			default:
				n := len(rv.servers)
				if !(n == l.CopyCount || (t.asMin && n > l.CopyCount)) {
					why = fmt.Sprintf("%d registered replicas, replication %s wants %d", n, l.Rp, l.CopyCount)
				}
				for _, v := range rv.vols {
					if v.RO {
						why = "a registered replica is read-only"
					}
				}
				if why == "" {
					for _, v := range rv.vols {
						if v.Size >= t.limit {
							if v.OverAtReg && !t.prevWritable[w] {
								// the replica was registered oversized, yet the volume has just BECOME writable
								why = fmt.Sprintf("a replica was registered with size %d at or above the limit %d and the volume became writable afterwards", v.Size, t.limit)
								break
							}
							if !final {
								return false
							}
							why = fmt.Sprintf("size %d is at or above the limit %d", v.Size, t.limit)
						}
					}
				}
			}
			if why != "" {
				ids := []string{}
				if rv != nil {
					ids = rv.servers
				}
				key := "writable-but-" + strings.SplitN(why, " ", 3)[0] + "-" + strings.SplitN(why+"  ", " ", 3)[1]
				if tn := t.anyTaint(); tn != "" {
					key = tn
				}
				r.Violate("offered-for-writes-wrongly", key, "after %s: volume %d (layout %v) is offered for writes although %s; registered on %v", after, w, k, why, ids)
				return true
			}
		}
		// (2) lookups return exactly the registered servers
		for vid, got := range l.Locations {
			var want []string
			if rv := ref[k][vid]; rv != nil {
				want = append(want, rv.servers...)
			}
			sort.Strings(want)
			if strings.Join(got, ",") != strings.Join(want, ",") {
				key := "layout-locations"
				if tn := t.anyTaint(); tn != "" {
					key = tn
				}
				r.Violate("lookup-differs-from-registered", key, "after %s: volume %d (layout %v): master has %v, registered servers are %v", after, vid, k, got, want)
				return true
			}
		}
	}
	// registered volumes missing from the master entirely, and the public Lookup API
	for k, vols := range ref {
		vids := make([]uint32, 0, len(vols))
		for vid := range vols {
			vids = append(vids, vid)
		}
		sort.Slice(vids, func(i, j int) bool { return vids[i] < vids[j] })
		for _, vid := range vids {
			rv := vols[vid]
			want := append([]string{}, rv.servers...)
			sort.Strings(want)
			var got []string
			for _, dn := range topo.Lookup(k.col, needle.VolumeId(vid)) {
				got = append(got, string(dn.Id()))
			}
			sort.Strings(got)
			if strings.Join(got, ",") != strings.Join(want, ",") {
				key := "lookup-api"
				if tn := t.anyTaint(); tn != "" {
					key = tn
				}
				r.Violate("lookup-differs-from-registered", key, "after %s: Lookup(%q,%d) = %v, registered servers are %v", after, k.col, vid, got, want)
				return true
			}
			if k.col != "" {
				// a lookup that does not name the collection (clients that only know the file id) finds the volume all the same
				var got2 []string
				for _, dn := range topo.Lookup("", needle.VolumeId(vid)) {
					got2 = append(got2, string(dn.Id()))
				}
				sort.Strings(got2)
				if strings.Join(got2, ",") != strings.Join(want, ",") {
					key := "lookup-api-without-collection"
					if tn := t.anyTaint(); tn != "" {
						key = tn
					}
					r.Violate("lookup-differs-from-registered", key, "after %s: Lookup(\"\",%d) = %v, the volume (collection %q) is registered on %v", after, vid, got2, k.col, want)
					return true
				}
			}
		}
	}
	return true
}

func (t *topoRun) anyTaint() string {
	for _, s := range t.servers {
		if s.tainted != "" {
			return s.tainted
		}
	}
	return ""
}

func normDisk(d string) string {
	d = strings.ToLower(d)
	if d == "hdd" {
		return ""
	}
	return d
}

// checkC12: counters at every level equal the recount of what is registered beneath.
func (t *topoRun) checkC12(after string) {
	r := t.r
	topo := t.m.MS.Topo
	type cnt = topology.VerifCounts
	// recount from the master's own registrations (what ToTopologyInfo lists under each disk)
	// and from the reference; both must agree with the counters.
	info := topo.ToTopologyInfo()
	add := func(m map[string]cnt, k string, c cnt) {
		x := m[k]
		x.Volume += c.Volume
		x.Remote += c.Remote
		x.Active += c.Active
		x.EcShard += c.EcShard
		x.Max += c.Max
		m[k] = x
	}
	refByNode := map[string]map[string]cnt{}
	for _, s := range t.servers {
		if s.reg == nil {
			continue
		}
		m := map[string]cnt{}
		for _, v := range s.reg.vols {
			c := cnt{Volume: 1}
			if v.Remote {
				c.Remote = 1
			}
			add(m, normDisk(v.Disk), c)
		}
		for _, e := range s.reg.ecs {
			add(m, normDisk(e.Disk), cnt{EcShard: int64(bitsCount(e.Bits))})
		}
		for d, n := range s.reg.max {
			add(m, normDisk(d), cnt{Max: int64(n)})
		}
		refByNode[s.id()] = m
	}
	fail := func(level, id, disk, field string, got, want int64, src string) {
		key := level + ":" + field
		if tn := t.anyTaint(); tn != "" {
			key = tn + ":" + field
		}
		r.Violate("count-differs-from-registered", key, "after %s: %s %s disk %q: %s counter is %d, %s gives %d", after, level, id, disk, field, got, src, want)
	}
	cmp := func(level, id string, got map[string]cnt, want map[string]cnt, src string) bool {
		disks := map[string]bool{}
		for d := range got {
			disks[normDisk(d)] = true
		}
		for d := range want {
			disks[d] = true
		}
		var ds []string
		for d := range disks {
			ds = append(ds, d)
		}
		sort.Strings(ds)
		gotN := map[string]cnt{}
		for d, c := range got {
			add(gotN, normDisk(d), c)
		}
		for _, d := range ds {
			g, w := gotN[d], want[d]
			switch {
			case g.Volume != w.Volume:
				fail(level, id, d, "volumeCount", g.Volume, w.Volume, src)
			case g.Remote != w.Remote:
				fail(level, id, d, "remoteVolumeCount", g.Remote, w.Remote, src)
			case g.EcShard != w.EcShard:
				fail(level, id, d, "ecShardCount", g.EcShard, w.EcShard, src)
			case g.Max != w.Max:
				fail(level, id, d, "maxVolumeCount", g.Max, w.Max, src)
			default:
				continue
			}
			return false
		}
		return true
	}
	total := map[string]cnt{}
	var walk func(n topology.Node, level string) map[string]cnt
	walk = func(n topology.Node, level string) map[string]cnt {
		sum := map[string]cnt{}
		if dn, ok := n.(*topology.DataNode); ok {
			want := refByNode[string(dn.Id())]
			if want == nil {
				want = map[string]cnt{}
			}
			if !cmp("server", string(dn.Id()), topology.VerifNodeUsage(dn), want, "the registered state") {
				return nil
			}
			return want
		}
		children := n.Children()
		sort.Slice(children, func(i, j int) bool { return children[i].Id() < children[j].Id() })
		for _, c := range children {
			sub := walk(c, childLevel(level))
			if sub == nil {
				return nil
			}
			for d, x := range sub {
				add(sum, d, x)
			}
		}
		if !cmp(level, string(n.Id()), topology.VerifNodeUsage(n), sum, "the sum over the nodes beneath") {
			return nil
		}
		return sum
	}
	if res := walk(topo, "cluster"); res != nil {
		total = res
	}
	_ = total
	if r.Violated() {
		return
	}
	// what the master lists under each disk must be what is registered (volumes and EC shards)
	for _, dc := range info.DataCenterInfos {
		for _, rk := range dc.RackInfos {
			for _, dn := range rk.DataNodeInfos {
				want := refByNode[dn.Id]
				nv, ne := int64(0), int64(0)
				for _, di := range dn.DiskInfos {
					nv += int64(len(di.VolumeInfos))
					for _, e := range di.EcShardInfos {
						ne += int64(bitsCount(e.EcIndexBits))
					}
				}
				wv, we := int64(0), int64(0)
				for _, c := range want {
					wv += c.Volume
					we += c.EcShard
				}
				if nv != wv || ne != we {
					key := "listed-registrations"
					if tn := t.anyTaint(); tn != "" {
						key = tn + ":listed"
					}
					r.Violate("count-differs-from-registered", key, "after %s: server %s lists %d volumes / %d ec shards, registered are %d / %d", after, dn.Id, nv, ne, wv, we)
					return
				}
			}
		}
	}
}

func childLevel(l string) string {
	switch l {
	case "cluster":
		return "datacenter"
	case "datacenter":
		return "rack"
	}
	return "server"
}

// ---- plan generation and execution

func genTopo(prop string) func(tier string, seed uint64, idx int) *simkit.Plan {
	return func(tier string, seed uint64, idx int) *simkit.Plan {
		rng := simkit.NewRand(seed)
		p := &simkit.Plan{Engine: "cluster"}
		nServers := rng.Range(2, 5)
		p.SetC("servers", int64(nServers))
		p.SetC("asmin", int64(rng.Intn(4)/3))
		p.SetC("limitmb", 1)
		faults := idx%2 == 1
		if faults {
			p.SetC("faults", 1)
		}
		p.SetC("race", int64(rng.Intn(8)/7))
		rps := []string{"000", "001", "010", "000", "001"}
		ttls := []string{"", "", "", "3m"}
		disks := []string{"", "", "ssd"}
		cols := []string{"", "", "c1"}
		nVids := rng.Range(2, 6)
		type vdef struct{ rp, ttl, disk, col string }
		defs := make([]vdef, nVids+1)
		for i := 1; i <= nVids; i++ {
			defs[i] = vdef{rps[rng.Intn(len(rps))], ttls[rng.Intn(len(ttls))], disks[rng.Intn(len(disks))], cols[rng.Intn(len(cols))]}
		}
		for n := 0; n < nServers; n++ {
			p.Add(simkit.St("mutate", rng.Uint64(), "node", n, "what", "max", "disk", "", "n", rng.Range(3, 12)))
			if rng.Chance(1, 3) {
				p.Add(simkit.St("mutate", rng.Uint64(), "node", n, "what", "max", "disk", "ssd", "n", rng.Range(1, 6)))
			}
		}
		addVol := func(n, vid int) simkit.Step {
			d := defs[vid]
			// some replicas appear already full and/or read-only (a restarted server reporting old volumes)
			sz, ro := rng.Intn(300000), 0
			if rng.Chance(1, 4) {
				sz = 1<<20 + rng.Intn(40000) - 3
			}
			if rng.Chance(1, 4) {
				ro = 1
			}
			return simkit.St("mutate", rng.Uint64(), "node", n, "what", "add", "vid", vid, "rp", d.rp, "ttl", d.ttl, "disk", d.disk, "col", d.col, "size", sz, "ro", ro)
		}
		// EC volume ids: usually apart from the normal volumes' ids; in a third of the runs the same ids (a volume
		// that was EC-encoded keeps its id, and the normal copy and the shards coexist for a while)
		ecBase, ecSpan := 50, 3
		if rng.Chance(1, 3) {
			ecBase, ecSpan = 1, nVids
		}
		steps := rng.Range(10, 45)
		for i := 0; i < steps; i++ {
			n := rng.Intn(nServers)
			vid := 1 + rng.Intn(nVids)
			switch x := rng.Intn(100); {
			case x < 14:
				p.Add(simkit.St("connect", rng.Uint64(), "node", n))
			case x < 30:
				p.Add(addVol(n, vid))
			case x < 36:
				p.Add(simkit.St("mutate", rng.Uint64(), "node", n, "what", "del", "vid", vid))
			case x < 43:
				p.Add(simkit.St("mutate", rng.Uint64(), "node", n, "what", "ro", "vid", vid, "on", rng.Intn(2)))
			case x < 49:
				sz := rng.Intn(900000)
				if rng.Chance(1, 3) {
					sz = 1<<20 + rng.Intn(5) - 2
				}
				p.Add(simkit.St("mutate", rng.Uint64(), "node", n, "what", "size", "vid", vid, "size", sz))
			case x < 52:
				what := "remote"
				if rng.Chance(1, 2) {
					what = "roremote"
				}
				p.Add(simkit.St("mutate", rng.Uint64(), "node", n, "what", what, "vid", vid, "on", rng.Intn(2)))
			case x < 55 && prop == "C12":
				p.Add(simkit.St("mutate", rng.Uint64(), "node", n, "what", "max", "disk", disks[rng.Intn(3)], "n", rng.Range(0, 12)))
			case x < 62 && prop == "C12":
				p.Add(simkit.St("mutate", rng.Uint64(), "node", n, "what", "ecadd", "vid", ecBase+rng.Intn(ecSpan), "bits", 1+rng.Intn(1<<14-1), "disk", disks[rng.Intn(3)], "col", defs[vid].col))
				if rng.Chance(1, 2) {
					p.Add(simkit.St("mutate", rng.Uint64(), "node", n, "what", "ecadd", "vid", ecBase+rng.Intn(ecSpan), "bits", 1+rng.Intn(1<<14-1), "disk", "", "col", ""))
				}
			case x < 66 && prop == "C12":
				p.Add(simkit.St("mutate", rng.Uint64(), "node", n, "what", "ecdel", "vid", ecBase+rng.Intn(ecSpan), "bits", 1+rng.Intn(1<<14-1)))
			case x < 70 && prop == "C12":
				if faults && rng.Chance(1, 2) {
					p.Add(simkit.St("ecdelta", rng.Uint64(), "node", n, "stale", 1, "bits", 1+rng.Intn(1<<14-1)))
				} else {
					p.Add(simkit.St("ecdelta", rng.Uint64(), "node", n))
				}
			case x < 84:
				p.Add(simkit.St("full", rng.Uint64(), "node", n, "ec", rng.Intn(2)))
			case x < 92:
				st := simkit.St("delta", rng.Uint64(), "node", n)
				if faults && rng.Chance(1, 4) {
					d := defs[vid]
					st = simkit.St("delta", rng.Uint64(), "node", n, "stale", 1, "vid", vid, "rp", d.rp, "ttl", d.ttl, "disk", d.disk, "col", d.col)
				}
				p.Add(st)
			case x < 95:
				p.Add(simkit.St("disconnect", rng.Uint64(), "node", n))
			case x < 97 && faults:
				p.Add(simkit.St("dup", rng.Uint64(), "node", n))
			case x < 99 && faults:
				p.Add(simkit.St("stalefull", rng.Uint64(), "node", n))
			case faults && p.C("race") == 1:
				p.Add(simkit.St("reconnect-race", rng.Uint64(), "node", n))
			default:
				p.Add(simkit.St("adv", rng.Uint64(), "sec", rng.Range(1, 40)))
			}
		}
		return p
	}
}

func execTopo(prop string) func(r *simkit.Run) {
	return func(r *simkit.Run) {
		p := r.Plan
		m := NewMaster(MasterCfg{Host: "master", Port: 9333, SizeLimitMB: uint(p.C("limitmb")), ReplicationAsMin: p.C("asmin") == 1})
		t := &topoRun{ecDefs: map[uint32]mec{}, r: r, prop: prop, m: m, asMin: p.C("asmin") == 1, limit: uint64(p.C("limitmb")) * 1024 * 1024}
		r.Res.FaultConfig = p.C("faults") == 1
		for n := 0; n < int(p.C("servers")); n++ {
			s := &mserver{idx: n, ip: fmt.Sprintf("vs%d", n), port: 8080, dc: fmt.Sprintf("dc%d", n%2), rack: fmt.Sprintf("r%d", n%3)}
			s.actual = vsState{vols: map[uint32]mvol{}, ecs: map[uint32]mec{}, max: map[string]uint32{"": 8}}
			t.servers = append(t.servers, s)
		}
		simkit.Wait()
		t.exec()
		// end of run: close every stream so that the handler goroutines finish
		for _, s := range t.servers {
			if s.stream != nil {
				close(s.stream.in)
			}
		}
		simkit.Wait()
	}
}
