package cluster

import (
	"bytes"
	"fmt"
	"time"

	"verifsim/simkit"

	"github.com/chrislusf/seaweedfs/weed/operation"
	"github.com/chrislusf/seaweedfs/weed/util"
	"google.golang.org/grpc"
)

// SMOKE is not a property: a one-plan end-to-end exercise of the real master
// and two real volume servers on the simulated network, used by the
// determinism self-test of the cluster engine.
func init() {
	simkit.Register(&simkit.Prop{ID: "SMOKE", Gen: func(tier string, seed uint64, idx int) *simkit.Plan {
		return &simkit.Plan{Engine: "cluster", Steps: []simkit.Step{simkit.St("go", seed)}}
	}, Exec: execSmoke})
}

func execSmoke(r *simkit.Run) {
	n := NewNet(r)
	defer n.Close()
	n.ObserveHTTP = nil
	m := StartMaster(n, MasterCfg{Host: "master", Port: 9333, SizeLimitMB: 30})
	var vss []*VS
	for i := 0; i < 2; i++ {
		vss = append(vss, StartVS(n, VSCfg{Host: fmt.Sprintf("vs%d", i), Port: 8080, Dir: vsDir(r, i), DC: "dc0", Rack: fmt.Sprintf("r%d", i), Master: m.Addr}))
	}
	time.Sleep(6 * time.Second)
	simkit.Wait()
	ar, err := operation.Assign(func() string { return m.Addr }, grpc.WithInsecure(), &operation.VolumeAssignRequest{Count: 1, Replication: "010"})
	if err != nil {
		r.Violate("smoke", "assign", "assign failed: %v", err)
		return
	}
	r.Log("assigned %s at %s", ar.Fid, ar.Url)
	data := bytes.Repeat([]byte("hello "), 10)
	ur, err := operation.UploadData("http://"+ar.Url+"/"+ar.Fid, "a.txt", false, data, false, "text/plain", nil, "")
	if err != nil {
		r.Violate("smoke", "upload", "upload failed: %v", err)
		return
	}
	r.Log("uploaded size=%d", ur.Size)
	for _, v := range vss {
		b, _, err := util.Get("http://" + v.Addr() + "/" + ar.Fid)
		r.Log("read from %s: %d bytes err=%v equal=%v", v.Addr(), len(b), err, bytes.Equal(b, data))
		if err != nil || !bytes.Equal(b, data) {
			r.Violate("smoke", "read", "replica %s does not serve the blob: %v", v.Addr(), err)
		}
	}
	time.Sleep(16 * time.Minute)
	simkit.Wait()
	r.NonTrivial()
	r.Abs("smoke")
}
