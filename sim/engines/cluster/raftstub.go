// Package cluster runs the real master (and volume / filer servers) of
// SeaweedFS inside one synctest bubble on a simulated network.
package cluster

import (
	"github.com/chrislusf/raft"
)

// RaftStub stands in for the raft library: leadership and the MaxVolumeId
// command are decided by the simulator. At most one node reports itself
// leader at a time; Do applies the command locally (and on the peers the
// harness connected), so the stub cannot produce behaviours real raft could not.
type RaftStub struct {
	raft.Server // nil: any method not overridden below panics, which would be a harness error
	name        string
	leader      string
	peers       []*RaftStub
	ctx         interface{}
	listeners   map[string][]raft.EventListener
}

func NewRaftStub(name string, ctx interface{}) *RaftStub {
	return &RaftStub{name: name, leader: name, ctx: ctx, listeners: map[string][]raft.EventListener{}}
}

func (s *RaftStub) Name() string   { return s.name }
func (s *RaftStub) Leader() string { return s.leader }
func (s *RaftStub) State() string {
	if s.leader == s.name {
		return raft.Leader
	}
	return raft.Follower
}
func (s *RaftStub) Context() interface{}         { return s.ctx }
func (s *RaftStub) Peers() map[string]*raft.Peer { return map[string]*raft.Peer{} }
func (s *RaftStub) AddEventListener(t string, l raft.EventListener) {
	s.listeners[t] = append(s.listeners[t], l)
}

type applier interface {
	Apply(raft.Server) (interface{}, error)
}

func (s *RaftStub) Do(c raft.Command) (interface{}, error) {
	if s.leader != s.name {
		return nil, raft.NotLeaderError
	}
	res, err := c.(applier).Apply(s)
	for _, p := range s.peers {
		if p != s {
			c.(applier).Apply(p)
		}
	}
	return res, err
}

// SetLeader changes who every connected stub believes the leader is
// (demote first, then promote: never two leaders).
func SetLeader(stubs []*RaftStub, leader string) {
	for _, s := range stubs {
		if s.leader == s.name && s.name != leader {
			s.leader = ""
		}
	}
	for _, s := range stubs {
		s.leader = leader
	}
}
