package ecsim

import (
	"bytes"
	"fmt"
	"os"
	"path/filepath"
	"time"

	"verifsim/engines/volsim"
	"verifsim/simkit"

	"github.com/chrislusf/seaweedfs/weed/storage"
	ec "github.com/chrislusf/seaweedfs/weed/storage/erasure_coding"
	"github.com/chrislusf/seaweedfs/weed/storage/needle"
	"github.com/chrislusf/seaweedfs/weed/storage/needle_map"
	"github.com/chrislusf/seaweedfs/weed/storage/types"
)

// C06 — erasure coding reconstructs and serves the exact original volume.
//
// Plan: build steps (w, d, fill) produce a genuine volume whose data-file size
// is steered on/around a large/small block-row boundary; the volume is encoded
// by the real encoder (scaled block sizes, or the real constants for small
// volumes); then check steps:
//   read     every indexed record and sampled ranges read back through
//            LocateData(10*shardSize) -> ToShardIdAndOffset -> shard files
//   lose     delete a set of shard files (optionally tear one more), rebuild,
//            compare all 14 files with the originals; > 4 lost must fail
//   loseall  every subset of up to maxk lost shards
//   decode   (real constants) FindDatFileSize, WriteDatFile, WriteIdxFileFromEcIndex,
//            load the decoded volume
//   ecvol    (real constants) real Store + EcVolume: LocateEcShardNeedle and
//            Store.ReadEcShardNeedle, optionally with local shards missing

func init() {
	simkit.Register(&simkit.Prop{ID: "C06", Gen: genC06, Exec: execC06, Shrink: shrinkC06, Refine: refineC06})
}

var smallSizes = []int64{8, 16, 40, 100, 128, 200, 256, 1000}

func genC06(tier string, seed uint64, idx int) *simkit.Plan {
	rng := simkit.NewRand(seed)
	p := &simkit.Plan{Engine: "ecsim"}
	// 0 = scaled block sizes; 1 = real constants, one 10MB row; 2 = real constants, volume around the 10MB row boundary
	real := 0
	switch {
	case idx%32 == 13 || idx%128 == 44: // odd = fault configuration (shard files longer than the 1MB rebuild buffer), even = fault-free
		real = 2
	case idx%16 == 5 || idx%16 == 12:
		real = 1
	}
	p.SetC("real", int64(real))
	fault := idx%2 == 1
	p.SetC("fault", b2i(fault))
	var L, S int64
	if real == 0 {
		S = smallSizes[rng.Intn(len(smallSizes))]
		mults := []int64{4, 8, 10, 16, 32, 100}
		for {
			L = S * mults[rng.Intn(len(mults))]
			if dataShards*L <= 48*1024 {
				break
			}
		}
		// the encoder's copy buffer must divide both block sizes
		var divs []int64
		for d := int64(1); d <= S; d++ {
			if S%d == 0 && (d >= S/8 || d >= 50) {
				divs = append(divs, d)
			}
		}
		p.SetC("buf", divs[rng.Intn(len(divs))])
	} else {
		L, S = ec.ErasureCodingLargeBlockSize, ec.ErasureCodingSmallBlockSize
	}
	p.SetC("L", L)
	p.SetC("S", S)
	rowL, rowS := dataShards*L, dataShards*S

	// the target data-file size
	var target int64
	switch real {
	case 0:
		nLarge := int64(rng.Pick(4, 4, 2, 1))
		var rem int64
		deltas := []int64{-16, -8, 0, 8, 16}
		switch rng.Pick(4, 3, 2, 2, 2) {
		case 0: // around a small-row boundary
			rem = int64(rng.Intn(int(rowL/rowS)+1))*rowS + deltas[rng.Intn(5)]
		case 1: // on / just below the large-row boundary, or just above it
			rem = rowL + []int64{-16, -8, 0, 0, 8, 16}[rng.Intn(6)]
		case 2: // within the last two small rows below the large row
			rem = rowL - int64(rng.Intn(int(2*rowS)))
		case 3: // around a block boundary inside a small row
			rem = int64(rng.Intn(int(rowL/S)+1))*S + deltas[rng.Intn(5)]
		default:
			rem = int64(rng.Intn(int(rowL))) + 1
		}
		target = nLarge*rowL + rem
		if target < 56 {
			target = 56 + int64(rng.Intn(6))*8
		}
	case 1:
		target = int64(rng.Range(200, 2600)) * 1024 // a few blocks of the first (only) row
	case 2:
		target = rowS + []int64{-8, 0, 8, 4096, 8, 4096, 3<<20 + 8}[rng.Intn(7)]
	}
	target -= target % 8
	p.SetC("target", target)

	// build steps: needles of sizes around block and row lengths, overwrites, deletes, then the filler
	keys := 0
	est := int64(8)
	maxNeedles := rng.Range(1, 14)
	for n := 0; n < maxNeedles; n++ {
		var size int64
		switch rng.Pick(4, 3, 2, 2) {
		case 0:
			size = int64(rng.Range(1, 64))
		case 1:
			size = S + int64(rng.Range(-40, 40))
		case 2:
			size = rowS + int64(rng.Range(-60, 60))
		default:
			size = int64(rng.Range(1, 3000))
		}
		if real != 0 {
			size = int64(rng.Range(1, 5000))
		}
		if size < 1 {
			size = 1
		}
		if size > 20000 {
			size = 20000
		}
		if est+size+120 > target-48 {
			break
		}
		s := volsim.GenWriteStep(rng, 1, "w")
		if keys > 0 && rng.Chance(1, 6) {
			s.A["key"] = int64(1 + rng.Intn(keys)) // overwrite: the old record stays in the data file
		} else {
			keys++
			s.A["key"] = int64(keys)
		}
		s.A["size"] = size
		if s.A["name"] > 9 {
			s.A["name"] = 9
		}
		if s.A["mime"] > 10 {
			s.A["mime"] = 10
		}
		p.Add(s)
		est += size + 60 + s.A["name"] + s.A["mime"] + 12*s.A["pairs"]
		if keys > 0 && rng.Chance(1, 6) && est+32 < target-48 {
			p.Add(simkit.St("d", rng.Uint64(), "key", 1+rng.Intn(keys)))
			est += 32
		}
	}
	if real != 0 && rng.Chance(2, 3) {
		// a needle crossing 1MB block boundaries, so that more than shard 0 holds data
		mid := len(p.Steps) / 2
		big := simkit.St("fill", rng.Uint64(), "key", 900, "target", int64(rng.Range(1100, 2200))*1024)
		if big.A["target"] < target-4096 {
			p.Steps = append(p.Steps[:mid], append([]simkit.Step{big}, p.Steps[mid:]...)...)
		}
	}
	p.Add(simkit.St("fill", rng.Uint64(), "key", 1000, "target", target))
	if rng.Chance(1, 5) {
		// the last record is a tombstone: the decoder's size rule drops it
		p.Add(simkit.St("d", rng.Uint64(), "key", 1000-rng.Intn(2)*999))
	}

	if real != 0 && !fault && keys > 0 && rng.Chance(1, 2) {
		// an early key is rewritten at the very end: the record with the largest offset is then not the one
		// with the largest key (the sorted index and the data file disagree about what comes last)
		s := volsim.GenWriteStep(rng, 1, "w")
		s.A["key"] = int64(1 + rng.Intn(keys))
		s.A["size"] = int64(rng.Range(1, 3000))
		s.A["name"], s.A["mime"] = 0, 0
		p.Add(s)
	}
	// check steps
	if !fault {
		p.Add(simkit.St("read", rng.Uint64(), "n", rng.Range(8, 40)))
		if real != 0 {
			// (decode last: loading the decoded volume runs into a recorded finding whenever the largest key is not the last record)
			p.Add(simkit.St("ecvol", rng.Uint64(), "miss", 0))
			p.Add(simkit.St("decode", rng.Uint64()))
		}
		return p
	}
	exhaustive := 0
	if real == 0 {
		// a rebuild costs ~20 ms whatever the shard size (the SUT allocates and codes 1MB buffers)
		if tier == "thorough" && idx%256 == 3 {
			exhaustive = 4 // 1470 subsets
		} else if tier == "thorough" && idx%128 == 35 {
			exhaustive = 3 // 469 subsets
		} else if idx%16 == 3 {
			exhaustive = 2 // 105 subsets
		}
	}
	if exhaustive > 0 {
		p.Add(simkit.St("loseall", rng.Uint64(), "maxk", exhaustive))
	}
	nl := rng.Range(2, 7)
	if real != 0 {
		nl = rng.Range(2, 4)
	}
	for i := 0; i < nl; i++ {
		k := []int{1, 2, 3, 4, 5, 6, 9}[rng.Pick(3, 3, 3, 5, 2, 1, 1)]
		tear := rng.Chance(1, 4)
		cutMode := 0
		if tear {
			k = rng.Range(0, 3)         // with the torn one, at least 10 intact shards remain
			cutMode = rng.Pick(2, 3, 1) // 0 empty file, 1 some byte, 2 one byte short
		}
		var mask int64
		for popcount(mask) < k {
			mask |= 1 << uint(rng.Intn(totalShards))
		}
		st := simkit.St("lose", rng.Uint64(), "mask", mask, "rd", rng.Chance(1, 3))
		if tear {
			torn := rng.Intn(totalShards)
			for mask&(1<<uint(torn)) != 0 {
				torn = (torn + 1) % totalShards
			}
			st.A["torn"] = int64(torn) + 1
			st.A["cutmode"] = int64(cutMode)
			st.A["cut"] = int64(rng.Intn(1 << 20))
		}
		p.Add(st)
	}
	p.Add(simkit.St("read", rng.Uint64(), "n", rng.Range(4, 16)))
	if real != 0 {
		var miss int64
		nm := rng.Range(1, 4)
		for popcount(miss) < nm {
			miss |= 1 << uint(rng.Intn(totalShards))
		}
		p.Add(simkit.St("ecvol", rng.Uint64(), "miss", miss))
	}
	if real == 2 {
		// last, because it ends the run on the unchanged tree (recorded finding): the ordinary rebuilds above must get their turn
		// shards longer than the rebuild buffer: one of them ends exactly on a buffer multiple
		m := int64(1) << uint(rng.Intn(totalShards))
		t := rng.Intn(totalShards)
		for m&(1<<uint(t)) != 0 {
			t = (t + 1) % totalShards
		}
		p.Add(simkit.St("lose", rng.Uint64(), "mask", m, "torn", t+1, "cutmode", 1, "cut", 2*rng.Intn(1000)))
	}
	return p
}

func b2i(b bool) int64 {
	if b {
		return 1
	}
	return 0
}

type c06 struct {
	r        *simkit.Run
	v        *vol
	L, S     int64
	buf      int
	real     int
	lo       layout
	cls      string
	orig     [totalShards]string // hashes of the pristine shard files
	shardLen int64
	nwork    int
}

func execC06(r *simkit.Run) {
	p := r.Plan
	c := &c06{r: r, L: p.C("L"), S: p.C("S"), buf: int(p.C("buf")), real: int(p.C("real"))}
	r.Res.FaultConfig = p.C("fault") == 1
	if c.L <= 0 || c.S <= 0 {
		r.HarnessError("bad block sizes")
		return
	}
	v := buildVolume(r, filepath.Join(r.Dir, "vol"), p.Steps)
	if v == nil {
		return
	}
	c.v = v
	D := int64(len(v.dat))
	// encode
	var err error
	if c.real != 0 {
		err = ec.WriteEcFiles(v.base)
		r.Probe("real-constants")
		if D > dataShards*c.S {
			r.Probe("real-constants-two-rows")
		}
	} else {
		if c.buf <= 0 || c.S%int64(c.buf) != 0 || c.L%int64(c.buf) != 0 {
			r.HarnessError("buffer size %d does not divide the block sizes %d/%d", c.buf, c.L, c.S)
			return
		}
		err = ec.VerifGenerateEcFiles(v.base, c.buf, c.L, c.S)
		r.Probe("scaled-blocks")
	}
	if err != nil {
		r.Violate("encode-failed", "encode", "encoding a healthy %d-byte volume failed: %v", D, scrub(err))
		return
	}
	if err = ec.WriteSortedFileFromIdx(v.base, ".ecx"); err != nil {
		r.Violate("encode-failed", "ecx", "WriteSortedFileFromIdx failed: %v", scrub(err))
		return
	}
	c.lo = layoutOf(D, c.L, c.S)
	c.cls = c.lo.class()
	c.shardLen = volsim.FileSize(shardName(v.base, 0))
	for i := 0; i < totalShards; i++ {
		c.orig[i] = hashFile(shardName(v.base, i))
		if sz := volsim.FileSize(shardName(v.base, i)); sz != c.shardLen {
			r.Violate("encode-failed", "shard-sizes-differ", "shard %d has %d bytes, shard 0 has %d (dat=%d L=%d S=%d)", i, sz, c.shardLen, D, c.L, c.S)
			return
		}
	}
	r.Log("encoded dat=%d L=%d S=%d buf=%d shard=%d class=%s live=%d records=%d", D, c.L, c.S, c.buf, c.shardLen, c.cls, len(v.live), len(v.all))
	r.Probe("size:" + c.cls)
	r.Abs(fmt.Sprintf("enc:%s:n=%d", c.cls, bucket(len(v.all))))
	// the sorted index must list exactly the live needles, ascending
	if raw, e := os.ReadFile(v.base + ".ecx"); e == nil {
		got := parseSorted(raw)
		if len(got) != len(v.keys) {
			r.Violate("encode-failed", "ecx-entries", ".ecx has %d entries, the index has %d live needles", len(got), len(v.keys))
			return
		}
		for i, k := range v.keys {
			if got[i] != v.live[k] {
				r.Violate("encode-failed", "ecx-entries", ".ecx entry %d is %v, want %v", i, got[i], v.live[k])
				return
			}
		}
	}
	for i := range p.Steps {
		s := &p.Steps[i]
		switch s.Kind {
		case "read":
			c.readAll(v.base, "pristine", int(s.Int("n")), s)
			r.NonTrivial()
		case "lose":
			torn := int(s.Int("torn")) - 1
			c.lose(s.Int("mask"), torn, int(s.Int("cutmode")), s.Int("cut"), s.Int("rd") == 1, s)
		case "loseall":
			maxk := int(s.Int("maxk"))
			for m := int64(1); m < 1<<totalShards; m++ {
				if popcount(m) > maxk {
					continue
				}
				c.lose(m, -1, 0, 0, false, s)
				if r.Violated() {
					return
				}
			}
			r.Probe(fmt.Sprintf("every-subset-up-to-%d", maxk))
		case "decode":
			if c.real != 0 {
				c.decode(s)
			}
		case "ecvol":
			if c.real != 0 {
				c.ecvol(s.Int("miss"), s)
			}
		}
		if r.Violated() {
			return
		}
	}
}

func bucket(n int) int {
	switch {
	case n <= 2:
		return n
	case n <= 5:
		return 3
	case n <= 10:
		return 6
	}
	return 11
}

func (c *c06) workDir() (dir, base string) {
	c.nwork++
	dir = filepath.Join(c.r.Dir, fmt.Sprintf("w%d", c.nwork))
	os.MkdirAll(dir, 0755)
	return dir, filepath.Join(dir, "7")
}

// readAll reads every indexed record, the whole file and n sampled ranges
// through the locator from the shard files under base.
func (c *c06) readAll(base, tag string, n int, s *simkit.Step) {
	r := c.r
	ss, err := openShardSet(base, c.L, c.S)
	if err != nil {
		r.HarnessError("open shards: %v", scrub(err))
		return
	}
	defer ss.close()
	D := int64(len(c.v.dat))
	derived := dataShards * ss.shardSize // the EC read path knows only the shard size
	check := func(what string, off, size int64) bool {
		if size <= 0 || off+size > D {
			return true
		}
		r.Count("interval_reads")
		got, desc, rows, err := ss.read(derived, off, size)
		want := c.v.dat[off : off+size]
		if err == nil && bytes.Equal(got, want) {
			return true
		}
		area := c.lo.area(off, size)
		why := ""
		if err != nil {
			why = "error: " + err.Error()
		} else {
			why = fmt.Sprintf("first differing byte at +%d", firstDiff(got, want))
		}
		// for the report: would the true data size have located it correctly?
		rowsDesc := "no-intervals"
		if rows >= 0 {
			rowsDesc = fmt.Sprintf("locator-counts-%+d-large-rows", rows-c.lo.nLarge)
		}
		alt := "also wrong"
		if g2, _, _, e2 := ss.read(D, off, size); e2 == nil && bytes.Equal(g2, want) {
			alt = "correct"
		}
		r.Violate("interval-read-differs", fmt.Sprintf("%s/%s", c.lo.sizeClass(), rowsDesc),
			"%s %s: range [%d,+%d) (%s) of a %d-byte data file (%d large rows encoded, L=%d S=%d shard=%d, located with 10*shard=%d) does not read back: %s; intervals %s; with the true size the read is %s",
			tag, what, off, size, area, D, c.lo.nLarge, c.L, c.S, ss.shardSize, derived, why, desc, alt)
		return false
	}
	for _, e := range c.v.all {
		if !check(fmt.Sprintf("needle key=%d", e.Key), e.Off, needle.GetActualSize(types.Size(e.Size), c.v.version)) {
			return
		}
		r.Probe("needle-in-" + c.lo.area(e.Off, needle.GetActualSize(types.Size(e.Size), c.v.version)))
	}
	if D < 1<<30 {
		if !check("whole file", 0, D) {
			return
		}
	}
	rng := simkit.StepRand(s, 3)
	rowS := dataShards * c.S
	for i := 0; i < n; i++ {
		var off, size int64
		switch rng.Pick(3, 2, 2, 2) {
		case 0:
			off = rng.Int63n(D)
			size = 1 + rng.Int63n(minI64(D-off, 3*rowS))
		case 1: // around the end of the large-block area
			off = c.lo.largeArea - rng.Int63n(minI64(c.lo.largeArea+1, 2*c.S+1))
			size = 1 + rng.Int63n(4*c.S)
		case 2: // starting on / next to a block boundary
			off = (rng.Int63n(D/c.S+1))*c.S + int64(rng.Range(-2, 2))
			size = 1 + rng.Int63n(2*c.S+2)
		default: // the tail of the file
			size = 1 + rng.Int63n(minI64(D, 2*rowS))
			off = D - size
		}
		if off < 0 {
			off = 0
		}
		if off >= D {
			continue
		}
		if off+size > D {
			size = D - off
		}
		if !check("range", off, size) {
			return
		}
	}
	r.Abs("read:" + tag)
}

func minI64(a, b int64) int64 {
	if a < b {
		return a
	}
	return b
}

// lose copies the pristine shards into a fresh directory without the shards
// in mask, optionally tears one more, rebuilds and compares.
func (c *c06) lose(mask int64, torn, cutMode int, cut int64, readAfter bool, s *simkit.Step) {
	r := c.r
	if r.Violated() {
		return
	}
	mask &= 1<<totalShards - 1
	if torn >= 0 && mask&(1<<uint(torn)) != 0 {
		torn = -1
	}
	dir, base := c.workDir()
	defer os.RemoveAll(dir)
	lost := maskList(mask)
	cutClass := ""
	for i := 0; i < totalShards; i++ {
		if mask&(1<<uint(i)) != 0 {
			continue
		}
		n := int64(-1)
		if i == torn {
			switch cutMode {
			case 0:
				n, cutClass = 0, "empty-file"
			case 2:
				n, cutClass = c.shardLen-1, "one-byte-short"
			default:
				n, cutClass = cut%c.shardLen, "partial"
				if n == 0 {
					cutClass = "empty-file"
				}
			}
			if c.shardLen > ec.ErasureCodingSmallBlockSize && cutMode == 1 && cut%2 == 0 {
				n, cutClass = ec.ErasureCodingSmallBlockSize, "at-rebuild-buffer-multiple"
			}
		}
		if err := volsim.CopyPrefix(shardName(c.v.base, i), shardName(base, i), n); err != nil {
			r.HarnessError("copy shard: %v", scrub(err))
			return
		}
	}
	k := len(lost)
	defer func() {
		if r.Violated() && r.Res.Hint == nil {
			r.Hint("mask", mask)
			r.Hint("torn", int64(torn)+1)
			r.Hint("cutmode", int64(cutMode))
			r.Hint("cut", cut)
		}
	}()
	var ids []uint32
	var err error
	if c.real != 0 {
		ids, err = ec.RebuildEcFiles(base)
	} else {
		ids, err = ec.VerifGenerateMissingEcFiles(base, c.buf, c.L, c.S)
	}
	r.Count("rebuilds")
	r.NonTrivial()
	kinds := ""
	for _, i := range lost {
		if i < dataShards {
			kinds += "d"
		} else {
			kinds += "p"
		}
	}
	if torn < 0 {
		if k >= 1 && k <= 4 {
			r.Fault(fmt.Sprintf("lost-%d-shards", k))
		} else if k > 4 {
			r.Fault("lost-5+-shards")
		}
		r.Log("lose %v -> ids=%v err=%v", lost, ids, scrub(err))
		if k > 4 {
			if err == nil {
				r.Violate("rebuild-succeeded-with-too-few-shards", fmt.Sprintf("lost=%d", k), "RebuildEcFiles reported success with only %d of 14 shards present (lost %v)", totalShards-k, lost)
				return
			}
			r.Abs("lose:toofew:error")
			return
		}
		if err != nil {
			r.Violate("rebuild-failed-with-enough-shards", fmt.Sprintf("lost=%d/%s", k, kinds), "RebuildEcFiles failed with %d shards present (lost %v): %v", totalShards-k, lost, scrub(err))
			return
		}
		if len(ids) != k {
			r.Violate("rebuilt-shard-differs", "generated-ids", "rebuild of lost %v reports generated shards %v", lost, ids)
			return
		}
		for j, id := range ids {
			if int(id) != lost[j] {
				r.Violate("rebuilt-shard-differs", "generated-ids", "rebuild of lost %v reports generated shards %v", lost, ids)
				return
			}
		}
		for i := 0; i < totalShards; i++ {
			if h := hashFile(shardName(base, i)); h != c.orig[i] {
				what := "untouched"
				if mask&(1<<uint(i)) != 0 {
					what = "regenerated"
				}
				r.Violate("rebuilt-shard-differs", fmt.Sprintf("lost=%d/%s-shard-differs", k, what), "after rebuilding lost %v, %s shard %d is %s, the original was %s", lost, what, i, h, c.orig[i])
				return
			}
		}
		r.Abs(fmt.Sprintf("lose:%d:%s:ok", k, kinds))
		if readAfter {
			r.Probe("read-after-rebuild")
			c.readAll(base, "rebuilt", 4, s)
		}
		return
	}
	// one present shard is torn; at least 10 intact ones remain
	r.Fault("torn-shard")
	r.Fault("torn-shard:" + cutClass)
	if k > 0 {
		r.Fault(fmt.Sprintf("torn-shard-with-%d-lost", k))
	}
	r.Log("lose %v torn=%d(%s) -> ids=%v err=%v", lost, torn, cutClass, ids, scrub(err))
	if err != nil {
		r.Abs("torn:" + cutClass + ":error")
		return
	}
	// success was reported: whatever was regenerated must be right
	for _, i := range lost {
		if h := hashFile(shardName(base, i)); h != c.orig[i] {
			keyClass := cutClass
			if cutClass == "empty-file" || cutClass == "at-rebuild-buffer-multiple" {
				keyClass = "ends-on-a-rebuild-buffer-boundary" // 0, 1MB, 2MB, ...
			}
			r.Violate("rebuilt-shard-differs", fmt.Sprintf("torn-shard-%s/rebuild-reports-success", keyClass),
				"shards %v lost and shard %d torn to %d of %d bytes (10+ intact shards present): RebuildEcFiles reported success (generated %v) but regenerated shard %d is %s, the original was %s",
				lost, torn, volsim.FileSize(shardName(base, torn)), c.shardLen, ids, i, h, c.orig[i])
			return
		}
	}
	r.Abs("torn:" + cutClass + ":ok")
}

// decode turns the ten data shards back into a .dat/.idx pair (real constants only).
func (c *c06) decode(s *simkit.Step) {
	r := c.r
	v := c.v
	dir, base := c.workDir()
	defer os.RemoveAll(dir)
	for i := 0; i < dataShards; i++ {
		if err := copyFile(shardName(v.base, i), shardName(base, i)); err != nil {
			r.HarnessError("copy: %v", scrub(err))
			return
		}
	}
	copyFile(v.base+".ecx", base+".ecx")
	copyFile(v.base+".vif", base+".vif")
	r.Probe("decode")
	r.NonTrivial()
	// documented size rule: the end of the live needle with the largest offset
	var want int64
	for _, e := range v.live {
		if end := e.Off + needle.GetActualSize(types.Size(e.Size), v.version); end > want {
			want = end
		}
	}
	got, err := ec.FindDatFileSize(base, base)
	if err != nil {
		r.Violate("decoded-dat-differs", "find-dat-file-size-error", "FindDatFileSize: %v", scrub(err))
		return
	}
	r.Log("decode datsize=%d want=%d orig=%d", got, want, len(v.dat))
	if got != want {
		r.Violate("decoded-dat-differs", "find-dat-file-size", "FindDatFileSize = %d, the last live needle ends at %d (original .dat %d bytes)", got, want, len(v.dat))
		return
	}
	if want < int64(len(v.dat)) {
		r.Probe("decode-drops-trailing-deleted-records")
	}
	if err := ec.WriteDatFile(base, got); err != nil {
		r.Violate("decoded-dat-differs", "write-dat-file-error", "WriteDatFile(%d): %v", got, scrub(err))
		return
	}
	dec, _ := os.ReadFile(base + ".dat")
	if !bytes.Equal(dec, v.dat[:got]) {
		r.Violate("decoded-dat-differs", "bytes/"+c.cls, "decoded .dat (%d bytes) differs from the original's first %d bytes at offset %d", len(dec), got, firstDiff(dec, v.dat[:got]))
		return
	}
	if err := ec.WriteIdxFileFromEcIndex(base); err != nil {
		r.Violate("decoded-dat-differs", "write-idx-error", "WriteIdxFileFromEcIndex: %v", scrub(err))
		return
	}
	db := needle_map.NewMemDb()
	err = db.LoadFromIdx(base + ".idx")
	live := map[uint64]ent{}
	db.AscendingVisit(func(nv needle_map.NeedleValue) error {
		live[uint64(nv.Key)] = ent{uint64(nv.Key), nv.Offset.ToActualOffset(), int32(nv.Size)}
		return nil
	})
	db.Close()
	if err != nil || len(live) != len(v.live) {
		r.Violate("decoded-dat-differs", "decoded-idx-live-set", "decoded .idx loads %d live needles (err=%v), the original has %d", len(live), scrub(err), len(v.live))
		return
	}
	for k, e := range v.live {
		if live[k] != e {
			r.Violate("decoded-dat-differs", "decoded-idx-live-set", "decoded .idx has %v for key %d, the original %v", live[k], k, e)
			return
		}
	}
	if len(v.live) == 0 {
		r.Probe("decode-volume-without-live-needles")
		r.Abs("decode:empty")
		return
	}
	// the decoded pair must load as a volume and serve every live needle
	for i := 0; i < dataShards; i++ {
		os.Remove(shardName(base, i))
	}
	os.Remove(base + ".ecx")
	st := volsim.OpenStore(dir, storage.NeedleMapInMemory)
	defer st.Close()
	if st.GetVolume(volsim.VID) == nil {
		r.Violate("decoded-dat-differs", "decoded-volume-does-not-load", "the decoded .dat/.idx pair (%d bytes, %d live) does not load as a volume", got, len(live))
		return
	}
	for _, k := range v.keys {
		rr := volsim.ReadBlob(st, k, volsim.CookieOf(k))
		if ok, why := rr.Matches(v.model[k]); !ok {
			key := "decoded-volume-read"
			// root cause seen so far: the decoded .idx is sorted by key (a copy of the .ecx); volume loading
			// takes its LAST entry for the last record of the data file and truncates everything behind it
			var maxKey uint64
			for lk := range v.live {
				if lk > maxKey {
					maxKey = lk
				}
			}
			for _, e := range v.live {
				if e.Off > v.live[maxKey].Off {
					key = "decoded-index-sorted-by-key:largest-key-not-last-record"
				}
			}
			r.Violate("decoded-dat-differs", key, "decoded volume: key %d: %s (largest live key %d at offset %d)", k, why, maxKey, v.live[maxKey].Off)
			return
		}
	}
	r.Abs("decode:ok")
}

// ecvol mounts the shards (minus miss) in a real Store and reads every needle
// through EcVolume.LocateEcShardNeedle / Store.ReadEcShardNeedle.
func (c *c06) ecvol(miss int64, s *simkit.Step) {
	r := c.r
	v := c.v
	dir, base := c.workDir()
	defer os.RemoveAll(dir)
	miss &^= 1 // shard 0 carries the shard size the locator starts from; keep at least it
	for i := 0; i < totalShards; i++ {
		if miss&(1<<uint(i)) != 0 {
			continue
		}
		if err := copyFile(shardName(v.base, i), shardName(base, i)); err != nil {
			r.HarnessError("copy: %v", scrub(err))
			return
		}
	}
	copyFile(v.base+".ecx", base+".ecx")
	copyFile(v.base+".vif", base+".vif")
	st := volsim.OpenStore(dir, storage.NeedleMapInMemory)
	defer st.Close()
	ev, found := st.FindEcVolume(volsim.VID)
	if !found {
		r.Violate("interval-read-differs", "ec-volume-not-mounted", "a Store opened on %d shard files + .ecx does not mount the EC volume", totalShards-popcount(miss))
		return
	}
	r.Probe("ecvol-read")
	r.NonTrivial()
	if miss != 0 {
		r.Fault(fmt.Sprintf("ecvol-%d-local-shards-missing", popcount(miss)))
	}
	for _, k := range v.keys {
		e := v.live[k]
		off, size, intervals, err := ev.LocateEcShardNeedle(types.Uint64ToNeedleId(k), ev.Version)
		if err != nil || off.ToActualOffset() != e.Off || int32(size) != e.Size {
			r.Violate("interval-read-differs", "locate-ec-shard-needle", "LocateEcShardNeedle(%d) = off %d size %d err %v, the index has %v", k, off.ToActualOffset(), size, scrub(err), e)
			return
		}
		needsMissing := false
		for _, iv := range intervals {
			sid, _ := iv.ToShardIdAndOffset(ec.ErasureCodingLargeBlockSize, ec.ErasureCodingSmallBlockSize)
			if miss&(1<<uint(sid)) != 0 {
				needsMissing = true
			}
		}
		// no master, no peers: the location cache is declared fresh so that no lookup is attempted
		ev.ShardLocationsRefreshTime = time.Now()
		n := new(needle.Needle)
		n.Id = types.Uint64ToNeedleId(k)
		cnt, err := st.ReadEcShardNeedle(volsim.VID, n)
		rr := volsim.ReadResult{Err: err, Count: cnt, N: n}
		if needsMissing {
			// the shard is nowhere: the read must fail, or else be right
			if err != nil {
				r.Probe("ecvol-read-of-missing-shard-fails")
				continue
			}
		}
		if ok, why := rr.Matches(v.model[k]); !ok {
			r.Violate("interval-read-differs", "store-read-ec-shard-needle/"+c.cls, "Store.ReadEcShardNeedle key %d (off %d size %d, %d intervals, needs-missing-shard=%v): %s", k, e.Off, e.Size, len(intervals), needsMissing, why)
			return
		}
		if len(intervals) > 1 {
			r.Probe("ecvol-needle-spans-blocks")
		}
	}
	// deleted or never written keys
	for _, k := range []uint64{0, 5000, 1 << 40} {
		if _, has := v.live[k]; has {
			continue
		}
		n := new(needle.Needle)
		n.Id = types.Uint64ToNeedleId(k)
		ev.ShardLocationsRefreshTime = time.Now()
		if _, err := st.ReadEcShardNeedle(volsim.VID, n); err == nil {
			r.Violate("interval-read-differs", "absent-key-read-succeeds", "Store.ReadEcShardNeedle of absent key %d succeeded", k)
			return
		}
	}
	r.Abs(fmt.Sprintf("ecvol:miss=%d", popcount(miss)))
}

func shrinkC06(s simkit.Step) []simkit.Step {
	var out []simkit.Step
	switch s.Kind {
	case "w":
		for _, f := range []string{"name", "mime", "pairs", "lm", "gz"} {
			if s.A[f] != 0 {
				c := cloneStep(s)
				c.A[f] = 0
				out = append(out, c)
			}
		}
	case "lose":
		if s.A["rd"] != 0 {
			c := cloneStep(s)
			c.A["rd"] = 0
			out = append(out, c)
		}
	case "read":
		if s.A["n"] > 0 {
			c := cloneStep(s)
			c.A["n"] = 0
			out = append(out, c)
		}
	}
	return out
}

// refineC06 replaces "every subset" by the one subset that failed.
func refineC06(p *simkit.Plan, res *simkit.Result) *simkit.Plan {
	if res.Hint == nil {
		return nil
	}
	c := p.Clone()
	var steps []simkit.Step
	for _, s := range c.Steps {
		switch s.Kind {
		case "w", "d", "fill":
			steps = append(steps, s)
		}
	}
	steps = append(steps, simkit.St("lose", 1, "mask", res.Hint["mask"], "torn", res.Hint["torn"], "cutmode", res.Hint["cutmode"], "cut", res.Hint["cut"]))
	c.Steps = steps
	return c
}
