package ecsim

import (
	"errors"
	"bytes"
	"fmt"
	"os"
	"path/filepath"
	"sort"
	"strings"
	"time"

	"verifsim/engines/volsim"
	"verifsim/simkit"

	"github.com/chrislusf/seaweedfs/weed/storage"
	ec "github.com/chrislusf/seaweedfs/weed/storage/erasure_coding"
	"github.com/chrislusf/seaweedfs/weed/storage/idx"
	"github.com/chrislusf/seaweedfs/weed/storage/needle"
	"github.com/chrislusf/seaweedfs/weed/storage/needle_map"
	"github.com/chrislusf/seaweedfs/weed/storage/types"
)

// C07 — deleting from an EC volume (or from a read-only volume served from a
// sorted index) marks exactly that needle.
//
// Plan: build steps (w, d) produce a genuine volume; its index is turned into
// the sorted index by the real WriteSortedFileFromIdx. Then, in plan order:
//   del      delete a present key (by rank in the sorted index) or an absent key
//   lookup   look every key up, plus absent keys
//   reopen   close and reopen on the same files
//   crash    a delete is in flight and the machine stops: before the in-place
//            mark, between the mark and the journal append, inside the journal
//            append (torn 8-byte key), or after both
//   rebuild  RebuildEcxFile on the live files (journal replayed and removed)
//   fresh    RebuildEcxFile on a copy: the sorted index as it was when the
//            journal was started + the journal
//   toidx    WriteIdxFileFromEcIndex on a copy, loaded as an index
// cfg path=0: EcVolume (.ecx/.ecj); path=1: storage.SortedFileNeedleMap (.sdx/.idx).

func init() {
	simkit.Register(&simkit.Prop{ID: "C07", Gen: genC07, Exec: execC07, Shrink: shrinkC07})
}

const entrySize = types.NeedleMapEntrySize

func genC07(tier string, seed uint64, idx int) *simkit.Plan {
	rng := simkit.NewRand(seed)
	p := &simkit.Plan{Engine: "ecsim"}
	path := 0
	if idx%4 == 3 {
		path = 1
	}
	p.SetC("path", int64(path))
	p.SetC("errfirst", b2i(idx%8 == 7))
	fault := idx%2 == 1
	p.SetC("fault", b2i(fault))
	S := []int64{40, 100, 200, 1000}[rng.Intn(4)]
	p.SetC("S", S)
	p.SetC("L", S*[]int64{4, 10}[rng.Intn(2)])
	p.SetC("buf", S/[]int64{1, 2}[rng.Intn(2)])

	var nkeys int
	switch rng.Pick(1, 5, 9, 5) {
	case 0:
		nkeys = 1
	case 1:
		nkeys = rng.Range(2, 5)
	case 2:
		nkeys = rng.Range(6, 40)
	default:
		nkeys = rng.Range(41, 200)
	}
	every := idx%5 == 0
	if every && nkeys > 60 && tier != "thorough" {
		nkeys = rng.Range(20, 60)
	}
	// keys: dense, sparse over 63 bits, or clustered around 2^32 multiples
	keyMode := rng.Pick(3, 3, 2)
	seen := map[int64]bool{}
	var keys []int64
	for len(keys) < nkeys {
		var k int64
		switch keyMode {
		case 0:
			k = int64(len(keys) + 1)
		case 1:
			k = int64(rng.Uint64() >> 1)
		default:
			k = int64(rng.Intn(4))<<32 + int64(rng.Range(-3, 3)) + int64(rng.Intn(2))*int64(rng.Intn(1000))
		}
		if k <= 0 || seen[k] {
			continue
		}
		seen[k] = true
		keys = append(keys, k)
	}
	rng.Shuffle(len(keys), func(i, j int) { keys[i], keys[j] = keys[j], keys[i] })
	emptyBlobs := rng.Chance(1, 6)
	for i, k := range keys {
		sz := rng.Range(1, 40)
		if emptyBlobs && rng.Chance(1, 4) {
			sz = 0 // an empty payload: a live needle of size 0
		}
		p.Add(simkit.St("w", rng.Uint64(), "key", k, "size", sz, "name", rng.Intn(2)*rng.Intn(6), "empty", sz == 0))
		if rng.Chance(1, 8) {
			p.Add(simkit.St("w", rng.Uint64(), "key", keys[rng.Intn(i+1)], "size", rng.Range(1, 40)))
		}
		if rng.Chance(1, 7) {
			p.Add(simkit.St("d", rng.Uint64(), "key", keys[rng.Intn(i+1)]))
		}
	}
	if rng.Chance(1, 40) {
		for _, k := range keys {
			p.Add(simkit.St("d", rng.Uint64(), "key", k)) // nothing live: an empty sorted index
		}
	}
	absent := func() int64 {
		switch rng.Pick(2, 2, 1) {
		case 0:
			return keys[rng.Intn(len(keys))] + int64(rng.Range(1, 2))
		case 1:
			return int64(rng.Uint64() >> 1)
		}
		return int64(rng.Range(1, 3))
	}
	m0only := rng.Chance(1, 5)
	p.SetC("m0only", b2i(m0only))
	pick := func() int {
		if m0only {
			return 0
		}
		switch rng.Pick(5, 1, 1) {
		case 1:
			return 0
		case 2:
			return 1 << 20 // clamped to the last entry
		}
		return rng.Intn(nkeys)
	}
	mode := func() int { return rng.Intn(2) }
	if every {
		// every key, present and absent, deleted in turn
		p.SetC("every", 1)
		order := rng.Intn(3)
		ranks := make([]int, nkeys)
		for i := range ranks {
			ranks[i] = i
			if order == 1 {
				ranks[i] = nkeys - 1 - i
			}
		}
		if order == 2 {
			rng.Shuffle(nkeys, func(i, j int) { ranks[i], ranks[j] = ranks[j], ranks[i] })
		}
		for _, rk := range ranks {
			if m0only {
				rk = 0
			}
			p.Add(simkit.St("del", rng.Uint64(), "pi", rk, "mode", mode()))
			p.Add(simkit.St("del", rng.Uint64(), "pi", -1, "abs", absent(), "mode", mode()))
			if rng.Chance(1, 12) {
				p.Add(simkit.St("reopen", rng.Uint64(), "fresh", rng.Intn(2)))
			}
			if fault && rng.Chance(1, 16) {
				p.Add(simkit.St("crash", rng.Uint64(), "pi", pick(), "phase", rng.Intn(4), "torn", rng.Range(1, 7)))
			}
		}
		p.Add(simkit.St("lookup", rng.Uint64()))
		p.Add(simkit.St("toidx", rng.Uint64()))
		p.Add(simkit.St("rebuild", rng.Uint64()))
		return p
	}
	nops := rng.Range(4, 40)
	for i := 0; i < nops; i++ {
		switch rng.Pick(10, 3, 2, 2, 2, 3, 1, 2, 1) {
		case 0:
			p.Add(simkit.St("del", rng.Uint64(), "pi", pick(), "mode", mode()))
		case 1:
			p.Add(simkit.St("del", rng.Uint64(), "pi", -1, "abs", absent(), "mode", mode()))
		case 2:
			p.Add(simkit.St("lookup", rng.Uint64()))
		case 3:
			p.Add(simkit.St("reopen", rng.Uint64(), "fresh", rng.Intn(2)))
		case 4:
			p.Add(simkit.St("toidx", rng.Uint64()))
		case 5:
			if fault && rng.Chance(1, 3) {
				// the journal (index file) cannot be written: the handle is read-only, as volume loading opens it for volumes without write access
				p.Add(simkit.St("delfail", rng.Uint64(), "pi", pick()))
			} else if fault {
				p.Add(simkit.St("crash", rng.Uint64(), "pi", pick(), "phase", rng.Intn(4), "torn", rng.Range(1, 7)))
			} else {
				p.Add(simkit.St("del", rng.Uint64(), "pi", pick(), "mode", mode()))
			}
		case 6:
			p.Add(simkit.St("rebuild", rng.Uint64()))
		case 7:
			p.Add(simkit.St("fresh", rng.Uint64()))
		default:
			p.Add(simkit.St("lookup", rng.Uint64()))
		}
	}
	p.Add(simkit.St("lookup", rng.Uint64()))
	p.Add(simkit.St("fresh", rng.Uint64()))
	p.Add(simkit.St("toidx", rng.Uint64()))
	if rng.Chance(1, 2) {
		p.Add(simkit.St("rebuild", rng.Uint64()))
	}
	return p
}

// sortedModel is the reference for a sorted index file with in-place marks.
type sortedModel struct {
	ents    []ent           // entries of the file, ascending
	base    []byte          // the file as generated (no marks)
	deleted map[uint64]bool // keys marked since
}

func newSortedModel(raw []byte) *sortedModel {
	return &sortedModel{ents: parseSorted(raw), base: append([]byte{}, raw...), deleted: map[uint64]bool{}}
}

func (m *sortedModel) rank(key uint64) int {
	i := sort.Search(len(m.ents), func(i int) bool { return m.ents[i].Key >= key })
	if i < len(m.ents) && m.ents[i].Key == key {
		return i
	}
	return -1
}

// expect is the file content the model demands: the generated file with the
// size field of every deleted entry replaced by the tombstone.
func (m *sortedModel) expect() []byte {
	out := append([]byte{}, m.base...)
	for i, e := range m.ents {
		if m.deleted[e.Key] || e.Size < 0 {
			p := i*entrySize + types.NeedleIdSize + types.OffsetSize
			copy(out[p:p+types.SizeSize], []byte{0xff, 0xff, 0xff, 0xff})
		}
	}
	return out
}

func (m *sortedModel) liveSet() map[uint64]ent {
	out := map[uint64]ent{}
	for _, e := range m.ents {
		if !m.deleted[e.Key] && e.Size >= 0 {
			out[e.Key] = e
		}
	}
	return out
}

// compare checks a sorted file against the model. target >= 0 is the rank of
// the entry a delete was just aimed at; ctxClass is the class to report when
// the difference is not attributable to that delete.
func (m *sortedModel) compare(r *simkit.Run, got []byte, target int, ctxClass, what string) bool {
	want := m.expect()
	if bytes.Equal(got, want) {
		return true
	}
	cur := parseSorted(got)
	// byte-exact: the delete is the in-place tombstone in the size field of the target entry and nothing else
	sizeAt := func(i int) int { return i*entrySize + types.NeedleIdSize + types.OffsetSize }
	targetMarked := target >= 0 && sizeAt(target)+types.SizeSize <= len(got) && bytes.Equal(got[sizeAt(target):sizeAt(target)+types.SizeSize], []byte{0xff, 0xff, 0xff, 0xff})
	var changed []int
	for i := range m.ents {
		lo, hi := i*entrySize, (i+1)*entrySize
		if hi > len(got) || !bytes.Equal(got[lo:hi], want[lo:hi]) {
			changed = append(changed, i)
		}
	}
	others := 0 // bytes outside the target's size field that changed
	for i := 0; i < len(got) && i < len(want); i++ {
		if got[i] != want[i] && (target < 0 || i < sizeAt(target) || i >= sizeAt(target)+types.SizeSize) {
			others++
		}
	}
	class := ctxClass
	if target >= 0 && ctxClass == "" {
		switch {
		case !targetMarked && others > 0:
			class = "wrong-needle-marked"
		case !targetMarked:
			class = "delete-not-visible"
		default:
			class = "other-needle-changed"
		}
	} else if class == "" {
		class = "other-needle-changed"
	}
	pos := "no-delete-in-flight"
	if target == 0 {
		pos = "delete-at-entry-0"
	} else if target > 0 {
		pos = "delete-at-entry>0"
	}
	detail := ""
	for n, i := range changed {
		if n >= 3 {
			detail += " ..."
			break
		}
		c := ent{}
		if i < len(cur) {
			c = cur[i]
		}
		detail += fmt.Sprintf(" entry %d is %v want %v%s;", i, c, m.ents[i], map[bool]string{true: " marked deleted", false: ""}[m.deleted[m.ents[i].Key]])
	}
	if len(got) != len(want) {
		detail += fmt.Sprintf(" file has %d bytes, want %d;", len(got), len(want))
	}
	vkey := fmt.Sprintf("%s/entry-size=%d/%s", what, entrySize, pos)
	if what == "journal-records-misaligned-after-torn-tail" {
		vkey = what // recorded root cause; which entry the garbage key happens to hit is chance
	}
	r.Violate(class, vkey,
		"%s: sorted index differs from the model in %d entries (delete aimed at entry %d of %d, its size field holds the tombstone: %v, %d other bytes changed):%s first differing byte %d",
		what, len(changed), target, len(m.ents), targetMarked, others, detail, firstDiff(got, want))
	return false
}

// ---------------------------------------------------------------- EcVolume path

type c07 struct {
	r         *simkit.Run
	dir, base string
	m         *sortedModel
	ev        *ec.EcVolume
	journal   []uint64        // keys acknowledged since the journal was started
	jbase     []byte          // the sorted index when the journal was started
	jdeleted  map[uint64]bool // the needles already marked in jbase
	unjournal map[uint64]bool // marked by a crashed delete, not in the journal
	tornTail  bool            // the journal holds a partial key from a crash
	tornAt    int64           // journal length right after the first such crash
	ndel      int
	ntmp      int
}

func execC07(r *simkit.Run) {
	p := r.Plan
	r.Res.FaultConfig = p.C("fault") == 1
	if entrySize == 17 {
		r.Probe("5-byte-offset-build")
	} else {
		r.Probe("4-byte-offset-build")
	}
	v := buildVolume(r, filepath.Join(r.Dir, "vol"), p.Steps)
	if v == nil {
		return
	}
	if p.C("m0only") == 1 {
		r.Probe("deletes-aim-at-entry-0-only")
	}
	if p.C("every") == 1 {
		r.Probe("every-key-deleted-in-turn")
	}
	if p.C("path") == 1 {
		execSdx(r, v)
		return
	}
	L, S, buf := p.C("L"), p.C("S"), int(p.C("buf"))
	if S <= 0 || L <= 0 || buf <= 0 || S%int64(buf) != 0 || L%int64(buf) != 0 {
		r.HarnessError("bad block sizes")
		return
	}
	if err := ec.WriteSortedFileFromIdx(v.base, ".ecx"); err != nil {
		r.Violate("encode-failed", "ecx", "WriteSortedFileFromIdx: %v", scrub(err))
		return
	}
	if err := ec.VerifGenerateEcFiles(v.base, buf, L, S); err != nil {
		r.Violate("encode-failed", "encode", "encode: %v", scrub(err))
		return
	}
	c := &c07{r: r, dir: filepath.Join(r.Dir, "ec"), unjournal: map[uint64]bool{}, jdeleted: map[uint64]bool{}}
	c.base = filepath.Join(c.dir, "7")
	os.MkdirAll(c.dir, 0755)
	for i := 0; i < totalShards; i++ {
		os.Rename(shardName(v.base, i), shardName(c.base, i))
	}
	os.Rename(v.base+".ecx", c.base+".ecx")
	copyFile(v.base+".vif", c.base+".vif")
	raw, _ := os.ReadFile(c.base + ".ecx")
	c.m = newSortedModel(raw)
	c.jbase = append([]byte{}, raw...)
	// the sorted index lists exactly the live needles
	if len(c.m.ents) != len(v.keys) {
		r.Violate("encode-failed", "ecx-entries", ".ecx has %d entries, the index has %d live needles", len(c.m.ents), len(v.keys))
		return
	}
	for i, k := range v.keys {
		if c.m.ents[i] != v.live[k] {
			r.Violate("encode-failed", "ecx-entries", ".ecx entry %d is %v, want %v", i, c.m.ents[i], v.live[k])
			return
		}
	}
	if len(c.m.ents) == 0 {
		r.Probe("empty-sorted-index")
	}
	r.Log("ecx entries=%d entrysize=%d", len(c.m.ents), entrySize)
	r.Abs(fmt.Sprintf("ecx:n=%d", bucket(len(c.m.ents))))
	if !c.open() {
		return
	}
	defer func() {
		if c.ev != nil {
			c.ev.Close()
		}
	}()
	for i := range p.Steps {
		s := &p.Steps[i]
		switch s.Kind {
		case "del":
			c.del(s)
		case "lookup":
			c.verifyAll("", "lookup")
			r.Abs("lookup")
		case "reopen":
			c.ev.Close()
			if !c.open() {
				return
			}
			r.Probe("reopen")
			r.NonTrivial()
			c.verifyAll("", "after-reopen")
			r.Abs("reopen")
		case "crash":
			if r.Res.FaultConfig {
				c.crash(s)
			}
		case "rebuild":
			c.rebuild()
		case "fresh":
			c.fresh(s)
		case "toidx":
			c.toidx()
		}
		if r.Violated() {
			return
		}
	}
}

func (c *c07) open() bool {
	ev, err := ec.NewEcVolume(types.HardDriveType, c.dir, c.dir, "", volsim.VID)
	if err != nil {
		c.r.Violate("reopen-failed", "new-ec-volume", "NewEcVolume: %v", scrub(err))
		c.ev = nil
		return false
	}
	for i := 0; i < totalShards; i++ {
		sh, err := ec.NewEcVolumeShard(types.HardDriveType, c.dir, "", volsim.VID, ec.ShardId(i))
		if err != nil {
			c.r.HarnessError("open shard %d: %v", i, scrub(err))
			ev.Close()
			return false
		}
		ev.AddEcVolumeShard(sh)
	}
	c.ev = ev
	return true
}

func (c *c07) keyOf(s *simkit.Step) (key uint64, rank int) {
	pi := int(s.Int("pi"))
	if pi >= 0 && len(c.m.ents) > 0 {
		if pi >= len(c.m.ents) {
			pi = len(c.m.ents) - 1
		}
		return c.m.ents[pi].Key, pi
	}
	key = uint64(s.Int("abs"))
	for c.m.rank(key) >= 0 || key == 0 {
		key++
	}
	return key, -1
}

// lookupOne checks what the EcVolume says about one key of the sorted index.
func (c *c07) lookupOne(i int, ctxClass, what string) bool {
	r := c.r
	e := c.m.ents[i]
	id := types.Uint64ToNeedleId(e.Key)
	off, size, err := c.ev.FindNeedleFromEcx(id)
	off2, size2, intervals, err2 := c.ev.LocateEcShardNeedle(id, c.ev.Version)
	r.Count("lookups")
	pos := "entry>0"
	if i == 0 {
		pos = "entry-0"
	}
	if err != nil || err2 != nil {
		class := ctxClass
		if class == "" {
			class = "other-needle-changed"
		}
		r.Violate(class, fmt.Sprintf("%s/lookup-error/%s", what, pos), "%s: lookup of key %d (entry %d): FindNeedleFromEcx err=%v, LocateEcShardNeedle err=%v", what, e.Key, i, scrub(err), scrub(err2))
		return false
	}
	if off2 != off || size2 != size || len(intervals) == 0 {
		r.Violate("other-needle-changed", what+"/locate-disagrees-with-find", "%s: key %d: FindNeedleFromEcx (%d,%d) but LocateEcShardNeedle (%d,%d) with %d intervals", what, e.Key, off.ToActualOffset(), size, off2.ToActualOffset(), size2, len(intervals))
		return false
	}
	if c.m.deleted[e.Key] {
		if !size.IsDeleted() {
			class := ctxClass
			if class == "" {
				class = "delete-not-visible"
			}
			vkey := fmt.Sprintf("%s/entry-size=%d/%s", what, entrySize, pos)
			if what == "journal-records-misaligned-after-torn-tail" {
				vkey = what // recorded root cause; which entry the garbage key happens to hit is chance
			}
			r.Violate(class, vkey, "%s: deleted key %d (entry %d of %d) still reads live: offset %d size %d", what, e.Key, i, len(c.m.ents), off.ToActualOffset(), size)
			return false
		}
		return true
	}
	if off.ToActualOffset() != e.Off || int32(size) != e.Size {
		class := ctxClass
		if class == "" {
			class = "other-needle-changed"
		}
		vkey := fmt.Sprintf("%s/entry-size=%d/%s", what, entrySize, pos)
		if what == "journal-records-misaligned-after-torn-tail" {
			vkey = what // recorded root cause; which entry the garbage key happens to hit is chance
		}
		r.Violate(class, vkey, "%s: live key %d (entry %d of %d) reads offset %d size %d, the index had %v", what, e.Key, i, len(c.m.ents), off.ToActualOffset(), size, e)
		return false
	}
	return true
}

func (c *c07) verifyFile(target int, ctxClass, what string) bool {
	got, err := os.ReadFile(c.base + ".ecx")
	if err != nil {
		c.r.HarnessError("read ecx: %v", scrub(err))
		return false
	}
	return c.m.compare(c.r, got, target, ctxClass, what)
}

// misaligned reports the recorded root cause: records were appended to the journal behind a
// partial record left by a crash, so every 8-byte reader sees garbage keys from there on.
func (c *c07) misaligned() bool {
	if !c.tornTail {
		return false
	}
	fi, err := os.Stat(c.base + ".ecj")
	return err == nil && fi.Size() > c.tornAt
}

func (c *c07) verifyJournal(what string) bool {
	raw, _ := os.ReadFile(c.base + ".ecj")
	have := map[uint64]int{}
	for i := 0; i+types.NeedleIdSize <= len(raw); i += types.NeedleIdSize {
		have[uint64(types.BytesToNeedleId(raw[i:i+types.NeedleIdSize]))]++
	}
	for _, k := range c.journal {
		if have[k] == 0 {
			key := "acknowledged-delete"
			if c.tornTail {
				key = "delete-acknowledged-after-a-torn-journal-tail"
			}
			c.r.Violate("journal-missing-key", key, "%s: the journal (%d bytes) does not hold acknowledged deleted key %d when read in 8-byte records (torn tail from an earlier crash: %v)", what, len(raw), k, c.tornTail)
			return false
		}
	}
	return true
}

func (c *c07) verifyAll(ctxClass, what string) bool {
	if !c.verifyFile(-1, ctxClass, what) {
		return false
	}
	for i := range c.m.ents {
		if !c.lookupOne(i, ctxClass, what) {
			return false
		}
	}
	// absent keys around the present ones
	probes := []uint64{1, 2, 1 << 62}
	for _, e := range c.m.ents {
		probes = append(probes, e.Key+1)
		if len(probes) > 12 {
			break
		}
	}
	for _, k := range probes {
		if k == 0 || c.m.rank(k) >= 0 {
			continue
		}
		if _, _, err := c.ev.FindNeedleFromEcx(types.Uint64ToNeedleId(k)); err != ec.NotFoundError {
			c.r.Violate("other-needle-changed", what+"/absent-key-found", "%s: absent key %d: FindNeedleFromEcx err=%v", what, k, scrub(err))
			return false
		}
	}
	return c.verifyJournal(what)
}

// doDelete performs one delete the way the two callers of the EcVolume do.
func (c *c07) doDelete(key uint64, mode int) error {
	id := types.Uint64ToNeedleId(key)
	if mode == 1 {
		// the volume server's VolumeEcBlobDelete handler: locate, skip if already deleted, delete
		_, size, _, err := c.ev.LocateEcShardNeedle(id, c.ev.Version)
		if err != nil {
			return nil // the handler reports "not found"; nothing is written
		}
		if size.IsDeleted() {
			return nil
		}
	}
	return c.ev.DeleteNeedleFromEcx(id)
}

func (c *c07) del(s *simkit.Step) {
	r := c.r
	key, rank := c.keyOf(s)
	mode := int(s.Int("mode"))
	was := rank >= 0 && c.m.deleted[key]
	err := c.doDelete(key, mode)
	c.ndel++
	r.NonTrivial()
	r.Log("del key=%d rank=%d mode=%d already=%v err=%v", key, rank, mode, was, scrub(err))
	if mode == 1 {
		r.Probe("del-through-handler-sequence")
	}
	switch {
	case rank < 0:
		r.Probe("del-absent")
		r.Abs("del:absent")
	case was:
		r.Probe("del-again")
		r.Abs("del:again")
	default:
		r.Probe("del-present")
		r.Abs("del:present")
	}
	if err != nil {
		if rank >= 0 {
			r.Violate("delete-not-visible", "ec-volume/delete-returns-error", "DeleteNeedleFromEcx(%d) failed: %v", key, scrub(err))
		}
		return
	}
	if rank >= 0 {
		c.m.deleted[key] = true
		// a delete of a live needle is journaled; the direct call journals even if the needle is already marked
		if !was || mode == 0 {
			c.journal = append(c.journal, key)
			delete(c.unjournal, key)
		}
	}
	if !c.verifyFile(rank, "", "ec-volume-delete") {
		return
	}
	for _, i := range []int{rank - 2, rank - 1, rank, rank + 1, rank + 2, 0, len(c.m.ents) - 1} {
		if i >= 0 && i < len(c.m.ents) && rank >= 0 {
			if !c.lookupOne(i, "", "ec-volume-delete") {
				return
			}
		}
	}
	c.verifyJournal("ec-volume-delete")
}

// crash: a delete is in flight when the machine stops. The real order is
// (1) in-place mark in .ecx, (2) append to .ecj; the states that order can
// leave are materialised from the files before and after the call.
func (c *c07) crash(s *simkit.Step) {
	r := c.r
	key, rank := c.keyOf(s)
	if rank < 0 {
		return
	}
	phase := int(s.Int("phase"))
	ecx0, _ := os.ReadFile(c.base + ".ecx")
	ecj0, _ := os.ReadFile(c.base + ".ecj")
	was := c.m.deleted[key]
	err := c.ev.DeleteNeedleFromEcx(types.Uint64ToNeedleId(key))
	if err != nil {
		r.Violate("delete-not-visible", "ec-volume/delete-returns-error", "DeleteNeedleFromEcx(%d) failed: %v", key, scrub(err))
		return
	}
	ecx1, _ := os.ReadFile(c.base + ".ecx")
	ecj1, _ := os.ReadFile(c.base + ".ecj")
	// what the completed call did must itself be right before crash states are derived from it
	c.m.deleted[key] = true
	if !c.m.compare(r, ecx1, rank, "", "ec-volume-delete") {
		return
	}
	if len(ecj1) != len(ecj0)+types.NeedleIdSize || !bytes.Equal(ecj1[:len(ecj0)], ecj0) {
		r.Violate("journal-missing-key", "journal-not-appended", "a delete changed the journal from %d to %d bytes", len(ecj0), len(ecj1))
		return
	}
	c.ev.Close() // the old incarnation is abandoned; Close writes nothing
	c.ev = nil
	name := ""
	switch phase {
	case 0:
		name = "crash-before-mark"
		os.WriteFile(c.base+".ecx", ecx0, 0644)
		os.WriteFile(c.base+".ecj", ecj0, 0644)
		c.m.deleted[key] = was
	case 1:
		name = "crash-between-mark-and-journal"
		os.WriteFile(c.base+".ecj", ecj0, 0644)
		if !was && !c.inJournal(key) {
			c.unjournal[key] = true
		}
	case 2:
		name = "torn-journal"
		t := int(s.Int("torn"))
		if t < 1 || t >= types.NeedleIdSize {
			t = 3
		}
		os.WriteFile(c.base+".ecj", ecj1[:len(ecj0)+t], 0644)
		if !was && !c.inJournal(key) {
			c.unjournal[key] = true
		}
		if !c.tornTail {
			c.tornAt = int64(len(ecj0) + t)
		}
		c.tornTail = true
	default:
		name = "crash-after-journal"
		c.journal = append(c.journal, key)
		delete(c.unjournal, key)
	}
	r.Fault(name)
	r.Log("crash key=%d rank=%d phase=%s was-deleted=%v", key, rank, name, was)
	r.Abs(name)
	if !c.open() {
		return
	}
	c.verifyAll("crash-left-third-state", name)
}

func (c *c07) inJournal(key uint64) bool {
	for _, k := range c.journal {
		if k == key {
			return true
		}
	}
	return false
}

func (c *c07) rebuild() {
	r := c.r
	c.ev.Close()
	c.ev = nil
	wasMisaligned := c.misaligned()
	err := ec.RebuildEcxFile(c.base)
	r.Probe("rebuild-ecx")
	r.NonTrivial()
	r.Log("rebuild err=%v", scrub(err))
	if err != nil {
		r.Violate("rebuilt-index-differs", "rebuild-ecx-error", "RebuildEcxFile: %v", scrub(err))
		return
	}
	if _, e := os.Stat(c.base + ".ecj"); e == nil {
		r.Violate("rebuilt-index-differs", "journal-not-removed", "RebuildEcxFile left the journal in place")
		return
	}
	what := "rebuild-ecx"
	if wasMisaligned {
		what = "journal-records-misaligned-after-torn-tail"
	}
	c.journal, c.tornTail, c.unjournal = nil, false, map[uint64]bool{}
	if !c.open() {
		return
	}
	if c.verifyAll("rebuilt-index-differs", what) {
		c.jbase = c.m.expect()
		c.jdeleted = map[uint64]bool{}
		for k, d := range c.m.deleted {
			if d {
				c.jdeleted[k] = true
			}
		}
	}
	r.Abs("rebuild")
}

func (c *c07) tmp() (dir, base string) {
	c.ntmp++
	dir = filepath.Join(c.r.Dir, fmt.Sprintf("t%d", c.ntmp))
	os.MkdirAll(dir, 0755)
	return dir, filepath.Join(dir, "7")
}

// fresh replays the journal into the sorted index as it was when the journal
// was started (a copy of the index that never saw the in-place marks).
func (c *c07) fresh(st *simkit.Step) {
	r := c.r
	dir, base := c.tmp()
	defer os.RemoveAll(dir)
	os.WriteFile(base+".ecx", c.jbase, 0644)
	copyFile(c.base+".ecj", base+".ecj")
	if r.Res.FaultConfig && st.Seed%3 == 0 {
		// the k-th in-place mark of this rebuild fails with an I/O error (the exported MarkNeedleDeleted function
		// variable is the seam): the rebuild must report it and keep the journal, and a second attempt finishes the job
		k, calls := int(1+st.Seed/3%4), 0
		orig := ec.MarkNeedleDeleted
		ec.MarkNeedleDeleted = func(f *os.File, off int64) error {
			calls++
			if calls == k {
				return errors.New("input/output error")
			}
			return orig(f, off)
		}
		err := ec.RebuildEcxFile(base)
		ec.MarkNeedleDeleted = orig
		if calls >= k {
			r.Fault("mark-fails-during-rebuild")
			r.Abs("fresh:mark-fails")
			if err == nil {
				r.Violate("rebuilt-index-differs", "rebuild-swallowed-io-error", "RebuildEcxFile reported success although marking journal entry %d failed", k)
				return
			}
			if _, e := os.Stat(base + ".ecj"); e != nil {
				r.Violate("journal-missing-key", "journal-removed-by-a-failed-rebuild", "RebuildEcxFile failed at journal entry %d (%v) and removed the journal: the deletions from that entry on are lost", k, scrub(err))
				return
			}
		}
	}
	err := ec.RebuildEcxFile(base)
	r.Probe("rebuild-from-unmarked-index-plus-journal")
	r.NonTrivial()
	if err != nil {
		r.Violate("rebuilt-index-differs", "rebuild-ecx-error", "RebuildEcxFile on a copy: %v", scrub(err))
		return
	}
	got, _ := os.ReadFile(base + ".ecx")
	// expected: every acknowledged delete applied; deletes cut off by a crash before the journal append are not
	want := &sortedModel{ents: c.m.ents, base: c.m.base, deleted: map[uint64]bool{}}
	for k := range c.m.deleted {
		if c.m.deleted[k] && (!c.unjournal[k] || c.jdeleted[k]) {
			want.deleted[k] = true
		}
	}
	tag := "rebuild-from-unmarked-index-plus-journal"
	if c.misaligned() {
		tag = "journal-records-misaligned-after-torn-tail"
	} else if c.tornTail {
		tag += "/journal-has-torn-tail"
	}
	want.compare(r, got, -1, "rebuilt-index-differs", tag)
	r.Abs("fresh")
}

// toidx turns .ecx + .ecj into an .idx (what decoding does) and loads it.
func (c *c07) toidx() {
	r := c.r
	dir, base := c.tmp()
	defer os.RemoveAll(dir)
	copyFile(c.base+".ecx", base+".ecx")
	copyFile(c.base+".ecj", base+".ecj")
	err := ec.WriteIdxFileFromEcIndex(base)
	r.Probe("write-idx-from-ec-index")
	r.NonTrivial()
	if err != nil {
		r.Violate("rebuilt-index-differs", "write-idx-error", "WriteIdxFileFromEcIndex: %v", scrub(err))
		return
	}
	what := "write-idx-from-ec-index"
	if c.misaligned() {
		what = "journal-records-misaligned-after-torn-tail"
	}
	compareIdxLive(r, base+".idx", c.m.liveSet(), what)
	r.Abs("toidx")
}

// idxKey: the recorded root cause keeps its bare key; everything else names path, entry size and symptom.
func idxKey(what string, entrySize int, symptom string) string {
	if what == "journal-records-misaligned-after-torn-tail" {
		return what
	}
	return fmt.Sprintf("%s/entry-size=%d/%s", what, entrySize, symptom)
}

func compareIdxLive(r *simkit.Run, idxPath string, want map[uint64]ent, what string) bool {
	db := needle_map.NewMemDb()
	err := db.LoadFromIdx(idxPath)
	got := map[uint64]ent{}
	db.AscendingVisit(func(nv needle_map.NeedleValue) error {
		got[uint64(nv.Key)] = ent{uint64(nv.Key), nv.Offset.ToActualOffset(), int32(nv.Size)}
		return nil
	})
	db.Close()
	if err != nil {
		r.Violate("rebuilt-index-differs", what+"/load-error", "%s: loading the index: %v", what, scrub(err))
		return false
	}
	for _, k := range sortedEntKeys(want) {
		if got[k] != want[k] {
			r.Violate("rebuilt-index-differs", idxKey(what, entrySize, "live-needle-lost-or-changed"), "%s: live key %d is %v in the rebuilt index, want %v (%d live there, %d in the model)", what, k, got[k], want[k], len(got), len(want))
			return false
		}
	}
	for _, k := range sortedEntKeys(got) {
		if _, ok := want[k]; !ok {
			r.Violate("rebuilt-index-differs", idxKey(what, entrySize, "deleted-needle-live"), "%s: key %d is live in the rebuilt index (%v) but deleted in the model", what, k, got[k])
			return false
		}
	}
	return true
}

// ---------------------------------------------------------------- sorted-file needle map path

type sdxRun struct {
	r         *simkit.Run
	dir, base string
	m         *sortedModel
	idxWant   []byte // the index file the model demands: the original plus one tombstone per effective delete
	nm        *storage.SortedFileNeedleMap
	delOff    types.Offset
	roIdx     bool // open the index file read-only (journal appends fail)
}

func execSdx(r *simkit.Run, v *vol) {
	p := r.Plan
	x := &sdxRun{r: r, dir: filepath.Join(r.Dir, "ro")}
	x.base = filepath.Join(x.dir, "7")
	os.MkdirAll(x.dir, 0755)
	copyFile(v.base+".idx", x.base+".idx")
	x.idxWant = append([]byte{}, v.idxRaw...)
	x.delOff = types.ToOffset(int64(len(v.dat)) + 64)
	r.Probe("sorted-file-needle-map")
	if !x.open(false) {
		return
	}
	defer func() {
		if x.nm != nil {
			x.nm.Close()
		}
	}()
	raw, _ := os.ReadFile(x.base + ".sdx")
	x.m = newSortedModel(raw)
	if len(x.m.ents) != len(v.keys) {
		r.Violate("encode-failed", "sdx-entries", ".sdx has %d entries, the index has %d live needles", len(x.m.ents), len(v.keys))
		return
	}
	for i, k := range v.keys {
		if x.m.ents[i] != v.live[k] {
			r.Violate("encode-failed", "sdx-entries", ".sdx entry %d is %v, want %v", i, x.m.ents[i], v.live[k])
			return
		}
	}
	r.Abs(fmt.Sprintf("sdx:n=%d", bucket(len(x.m.ents))))
	for i := range p.Steps {
		s := &p.Steps[i]
		switch s.Kind {
		case "del":
			x.del(s, false)
		case "crash":
			if r.Res.FaultConfig {
				x.del(s, true)
			}
		case "delfail":
			if r.Res.FaultConfig {
				x.delJournalFails(s)
			}
		case "lookup", "toidx":
			x.verifyAll("", "sorted-needle-map-lookup")
			r.Abs("lookup")
		case "reopen":
			x.nm.Close()
			fresh := s.Int("fresh") == 1
			if !x.open(fresh) {
				return
			}
			x.afterOpen(fresh)
			r.Probe("reopen")
			r.NonTrivial()
			x.verifyAll("", "sorted-needle-map-after-reopen")
			r.Abs(fmt.Sprintf("reopen:fresh=%v", fresh))
		case "rebuild", "fresh":
			// regenerate the sorted file from the index file (what a stale .sdx triggers)
			x.nm.Close()
			if !x.open(false) {
				return
			}
			x.afterOpen(false)
			r.Probe("regenerate-sdx")
			r.NonTrivial()
			x.verifyAll("rebuilt-index-differs", "sorted-needle-map-regenerated")
			r.Abs("regen")
		}
		if r.Violated() {
			return
		}
	}
}

// open opens the needle map; the freshness test of the SUT compares real file
// mtimes, so they are set from the plan: fresh keeps the .sdx, stale regenerates it.
func (x *sdxRun) open(fresh bool) bool {
	tIdx := time.Unix(1600000000, 0)
	tSdx := tIdx.Add(-time.Hour)
	if fresh {
		tSdx = tIdx.Add(time.Hour)
	}
	os.Chtimes(x.base+".idx", tIdx, tIdx)
	os.Chtimes(x.base+".sdx", tSdx, tSdx)
	flag := os.O_RDWR
	if x.roIdx {
		flag = os.O_RDONLY
	}
	f, err := os.OpenFile(x.base+".idx", flag, 0644)
	if err != nil {
		x.r.HarnessError("open idx: %v", scrub(err))
		return false
	}
	nm, err := storage.NewSortedFileNeedleMap(x.base, f)
	if err != nil {
		x.nm = nil
		x.r.Violate("reopen-failed", "new-sorted-file-needle-map", "NewSortedFileNeedleMap: %v", scrub(err))
		return false
	}
	x.nm = nm
	return true
}

// afterOpen adjusts the model: a regenerated sorted file holds the live
// needles of the index file, so needles deleted earlier are gone from it.
func (x *sdxRun) afterOpen(fresh bool) {
	if fresh {
		return
	}
	live, _ := walkIdx(x.idxWant)
	var buf []byte
	for _, k := range sortedEntKeys(live) {
		e := live[k]
		buf = append(buf, needle_map.ToBytes(types.Uint64ToNeedleId(e.Key), types.ToOffset(e.Off), types.Size(e.Size))...)
	}
	x.m = newSortedModel(buf)
}

func (x *sdxRun) keyOf(s *simkit.Step) (uint64, int) {
	pi := int(s.Int("pi"))
	if pi >= 0 && len(x.m.ents) > 0 {
		if pi >= len(x.m.ents) {
			pi = len(x.m.ents) - 1
		}
		return x.m.ents[pi].Key, pi
	}
	key := uint64(s.Int("abs"))
	for x.m.rank(key) >= 0 || key == 0 {
		key++
	}
	return key, -1
}

func (x *sdxRun) getOne(i int, ctxClass, what string) bool {
	r := x.r
	e := x.m.ents[i]
	nv, ok := x.nm.Get(types.Uint64ToNeedleId(e.Key))
	r.Count("lookups")
	pos := "entry>0"
	if i == 0 {
		pos = "entry-0"
	}
	if x.m.deleted[e.Key] {
		if ok && !nv.Size.IsDeleted() {
			class := ctxClass
			if class == "" {
				class = "delete-not-visible"
			}
			vkey := fmt.Sprintf("%s/entry-size=%d/%s", what, entrySize, pos)
			if what == "journal-records-misaligned-after-torn-tail" {
				vkey = what // recorded root cause; which entry the garbage key happens to hit is chance
			}
			r.Violate(class, vkey, "%s: deleted key %d (entry %d of %d) still reads live: offset %d size %d", what, e.Key, i, len(x.m.ents), nv.Offset.ToActualOffset(), nv.Size)
			return false
		}
		return true
	}
	if !ok || nv.Offset.ToActualOffset() != e.Off || int32(nv.Size) != e.Size {
		class := ctxClass
		if class == "" {
			class = "other-needle-changed"
		}
		vkey := fmt.Sprintf("%s/entry-size=%d/%s", what, entrySize, pos)
		if what == "journal-records-misaligned-after-torn-tail" {
			vkey = what // recorded root cause; which entry the garbage key happens to hit is chance
		}
		r.Violate(class, vkey, "%s: live key %d (entry %d of %d) reads ok=%v offset %d size %d, the index had %v", what, e.Key, i, len(x.m.ents), ok, nv.Offset.ToActualOffset(), nv.Size, e)
		return false
	}
	return true
}

func (x *sdxRun) verifyFiles(target int, ctxClass, what string) bool {
	r := x.r
	gotIdx, _ := os.ReadFile(x.base + ".idx")
	if !bytes.Equal(gotIdx, x.idxWant) {
		// the index file is this path's deletion journal: append-only
		d := firstDiff(gotIdx, x.idxWant)
		switch {
		case len(gotIdx) < len(x.idxWant) && bytes.Equal(gotIdx, x.idxWant[:len(gotIdx)]):
			r.Violate("journal-missing-key", what+"/tombstone-not-appended-to-index-file", "%s: the index file has %d bytes, want %d: the tombstone of the delete was not appended", what, len(gotIdx), len(x.idxWant))
		default:
			cls := ctxClass
			if cls == "" {
				cls = "other-needle-changed"
			}
			k, o, sz := ent{}, int64(0), int32(0)
			if d/entrySize*entrySize+entrySize <= len(gotIdx) {
				e := parseSorted(gotIdx[d/entrySize*entrySize : d/entrySize*entrySize+entrySize])[0]
				k, o, sz = e, e.Off, e.Size
			}
			_ = o
			_ = sz
			r.Violate(cls, fmt.Sprintf("%s/index-file-entry-overwritten", what), "%s: the index file (%d bytes, want %d) differs from original+appended tombstones at byte %d: entry %d now reads %v — an existing index entry was overwritten instead of a tombstone being appended", what, len(gotIdx), len(x.idxWant), d, d/entrySize, k)
		}
		return false
	}
	gotSdx, _ := os.ReadFile(x.base + ".sdx")
	return x.m.compare(r, gotSdx, target, ctxClass, what)
}

func (x *sdxRun) verifyAll(ctxClass, what string) bool {
	if !x.verifyFiles(-1, ctxClass, what) {
		return false
	}
	for i := range x.m.ents {
		if !x.getOne(i, ctxClass, what) {
			return false
		}
	}
	for _, k := range []uint64{1, 2, 1 << 62} {
		if x.m.rank(k) >= 0 {
			continue
		}
		if _, ok := x.nm.Get(types.Uint64ToNeedleId(k)); ok {
			x.r.Violate("other-needle-changed", what+"/absent-key-found", "%s: absent key %d is found", what, k)
			return false
		}
	}
	return true
}

// delJournalFails deletes a live needle while the index file (the journal of a
// sorted-index volume) cannot be written. The delete must report the failure
// and must not have taken effect in part: the needle still reads live and
// neither file changed.
func (x *sdxRun) delJournalFails(s *simkit.Step) {
	r := x.r
	key, rank := x.keyOf(s)
	if rank < 0 || x.m.deleted[key] {
		return
	}
	x.nm.Close()
	x.roIdx = true
	ok := x.open(true)
	x.roIdx = false
	if !ok {
		return
	}
	sdx0, _ := os.ReadFile(x.base + ".sdx")
	idx0, _ := os.ReadFile(x.base + ".idx")
	err := x.nm.Delete(types.Uint64ToNeedleId(key), x.delOff)
	r.NonTrivial()
	r.Fault("journal-append-fails")
	r.Abs("del:journal-append-fails")
	r.Log("sdx del key=%d rank=%d with a read-only index handle: err=%v", key, rank, scrub(err))
	sdx1, _ := os.ReadFile(x.base + ".sdx")
	idx1, _ := os.ReadFile(x.base + ".idx")
	what := "sorted-needle-map-delete/journal-append-failed"
	switch nv, found := x.nm.Get(types.Uint64ToNeedleId(key)); {
	case err == nil && bytes.Equal(idx0, idx1):
		r.Violate("delete-not-journalled", what, "Delete(%d) reported success although the index file could not be written and holds no tombstone", key)
	case err != nil && (!found || nv.Size.IsDeleted() || !bytes.Equal(sdx0, sdx1)):
		r.Violate("failed-delete-took-partial-effect", what, "Delete(%d) failed (%v) without a journal record, yet the needle reads deleted=%v and the sorted file changed=%v", key, scrub(err), !found || nv.Size.IsDeleted(), !bytes.Equal(sdx0, sdx1))
	}
	if r.Violated() {
		return
	}
	x.nm.Close()
	if !x.open(true) {
		return
	}
	x.verifyAll("", what)
}

// del deletes through SortedFileNeedleMap.Delete. With crash set the machine
// stops between the tombstone append to the index file and the in-place mark
// (the real order), and the map is reopened on (index after, sorted file before).
func (x *sdxRun) del(s *simkit.Step, crash bool) {
	r := x.r
	key, rank := x.keyOf(s)
	if crash && rank < 0 {
		return
	}
	was := rank >= 0 && x.m.deleted[key]
	sdx0, _ := os.ReadFile(x.base + ".sdx")
	err := x.nm.Delete(types.Uint64ToNeedleId(key), x.delOff)
	r.NonTrivial()
	r.Log("sdx del key=%d rank=%d already=%v crash=%v err=%v", key, rank, was, crash, scrub(err))
	switch {
	case rank < 0:
		r.Probe("del-absent")
		r.Abs("del:absent")
	case was:
		r.Probe("del-again")
		r.Abs("del:again")
	default:
		r.Probe("del-present")
		r.Abs("del:present")
		x.m.deleted[key] = true
		tomb := needle_map.ToBytes(types.Uint64ToNeedleId(key), x.delOff, types.TombstoneFileSize)
		prev := x.idxWant
		x.idxWant = append(append([]byte{}, prev...), tomb...)
		// "recorded in the journal" does not demand an append: the tombstone may also take the
		// place of an entry of the SAME key (the needle is deleted either way, no other needle is touched)
		if got, _ := os.ReadFile(x.base + ".idx"); len(got) == len(prev) && !bytes.Equal(got, prev) {
			d := firstDiff(got, prev) / entrySize * entrySize
			alt := append([]byte{}, prev...)
			copy(alt[d:d+entrySize], tomb)
			if k, _, _ := idx.IdxFileEntry(prev[d : d+entrySize]); uint64(k) == key && bytes.Equal(got, alt) {
				if live, _ := walkIdx(alt); func() bool { _, still := live[key]; return !still }() {
					r.Probe("tombstone-replaced-own-index-entry")
					x.idxWant = alt
				}
			}
		}
	}
	what := "sorted-needle-map-delete"
	// Two independent demands on the call: (a) the index file keeps its entries and gets one
	// tombstone appended, (b) the call succeeds and the needle reads deleted. Only the first
	// violation of a run is recorded, so the plan decides which demand is examined first.
	checkIdx := func() bool {
		gotIdx, _ := os.ReadFile(x.base + ".idx")
		if !bytes.Equal(gotIdx, x.idxWant) {
			x.verifyFiles(rank, "", what)
			return false
		}
		return true
	}
	checkErr := func() bool {
		if err == nil {
			return true
		}
		if rank >= 0 {
			k := "delete-returns-error"
			if strings.Contains(err.Error(), "bad file descriptor") {
				k = "mark-write-fails-on-read-only-sdx-handle"
			}
			live := ""
			if nv, ok := x.nm.Get(types.Uint64ToNeedleId(key)); ok && !nv.Size.IsDeleted() {
				live = "; the needle still reads live"
			}
			r.Violate("delete-not-visible", what+"/"+k, "SortedFileNeedleMap.Delete(%d) (entry %d of %d): %v%s", key, rank, len(x.m.ents), scrub(err), live)
		}
		return false
	}
	if r.Plan.C("errfirst") == 1 {
		if !checkErr() || !checkIdx() {
			return
		}
	} else if !checkIdx() || !checkErr() {
		return
	}
	if crash {
		r.Fault("crash-between-index-append-and-mark")
		r.Abs("crash-between-index-append-and-mark")
		x.nm.Close()
		os.WriteFile(x.base+".sdx", sdx0, 0644)
		if !x.open(false) { // the sorted file is older than the index file: that is the order of the writes
			return
		}
		x.afterOpen(false)
		x.verifyAll("crash-left-third-state", "sorted-needle-map-crash")
		return
	}
	// 3. the sorted file and the lookups
	if !x.verifyFiles(rank, "", what) {
		return
	}
	for _, i := range []int{rank - 1, rank, rank + 1, 0, len(x.m.ents) - 1} {
		if i >= 0 && i < len(x.m.ents) && rank >= 0 {
			if !x.getOne(i, "", what) {
				return
			}
		}
	}
}

func shrinkC07(s simkit.Step) []simkit.Step {
	var out []simkit.Step
	switch s.Kind {
	case "w":
		if s.A["name"] != 0 {
			c := cloneStep(s)
			c.A["name"] = 0
			out = append(out, c)
		}
	case "del":
		if s.A["mode"] != 0 {
			c := cloneStep(s)
			c.A["mode"] = 0
			out = append(out, c)
		}
	}
	return out
}

var _ = needle.CurrentVersion
