// Package ecsim drives the real erasure-coding code (encoder, rebuild,
// locator, decoder, EcVolume, .ecx/.ecj, sorted-file needle map) on real files
// in a per-run directory. Volumes are genuine: they are written through a real
// storage.Store/Volume (helpers of the volsim engine), then encoded with the
// real encoder, with scaled-down block sizes or with the real 1GB/1MB constants.
package ecsim

import (
	"bytes"
	"crypto/sha256"
	"encoding/hex"
	"fmt"
	"io"
	"os"
	"path/filepath"
	"regexp"
	"sort"
	"time"

	"verifsim/engines/volsim"
	"verifsim/simkit"

	"github.com/chrislusf/seaweedfs/weed/storage"
	ec "github.com/chrislusf/seaweedfs/weed/storage/erasure_coding"
	"github.com/chrislusf/seaweedfs/weed/storage/idx"
	"github.com/chrislusf/seaweedfs/weed/storage/needle"
	"github.com/chrislusf/seaweedfs/weed/storage/types"
)

const (
	dataShards  = ec.DataShardsCount
	totalShards = ec.TotalShardsCount
)

// ent is one index entry with its offset in bytes.
type ent struct {
	Key  uint64
	Off  int64
	Size int32
}

func (e ent) String() string { return fmt.Sprintf("(key=%d off=%d size=%d)", e.Key, e.Off, e.Size) }

// vol is a genuine volume built by the real Store and then closed.
type vol struct {
	dir, base string
	dat       []byte
	idxRaw    []byte
	live      map[uint64]ent         // what the index says is live (last entry wins, tombstones delete)
	keys      []uint64               // sorted live keys
	all       []ent                  // every record with a valid size ever indexed, in append order (live or not)
	model     map[uint64]volsim.Blob // what the client stored
	version   needle.Version
}

// buildVolume executes the build steps (w, d, fill) of the plan on a fresh
// real volume in dir and closes it. Unknown step kinds are ignored here.
func buildVolume(r *simkit.Run, dir string, steps []simkit.Step) *vol {
	if err := os.MkdirAll(dir, 0755); err != nil {
		r.HarnessError("mkdir: %v", scrub(err))
		return nil
	}
	kind := storage.NeedleMapInMemory
	st := volsim.OpenStore(dir, kind)
	if err := volsim.AddVolume(st, kind, "000", ""); err != nil {
		st.Close()
		r.HarnessError("add volume: %v", scrub(err))
		return nil
	}
	v := &vol{dir: dir, base: filepath.Join(dir, "7"), model: map[uint64]volsim.Blob{}, version: needle.CurrentVersion}
	write := func(a volsim.WriteArgs) bool {
		n, err := volsim.BuildNeedle(a, uint64(time.Now().Unix()))
		if err != nil {
			r.HarnessError("build needle: %v", scrub(err))
			return false
		}
		if _, err := st.WriteVolumeNeedle(volsim.VID, n, false); err != nil {
			r.HarnessError("write key=%d on a healthy volume failed: %v", a.Key, scrub(err))
			return false
		}
		v.model[a.Key] = volsim.BlobFromArgs(a, n, "")
		return true
	}
	ok := true
	for i := range steps {
		s := &steps[i]
		switch s.Kind {
		case "w":
			a := volsim.ArgsFromStep(s, volsim.CookieOf)
			if len(a.Data) == 0 && s.Int("empty") != 1 {
				a.Data = []byte{byte(s.Seed)}
			}
			ok = write(a)
			r.Log("w key=%d len=%d", a.Key, len(a.Data))
		case "d":
			key := uint64(s.Int("key"))
			n, _ := volsim.BuildNeedle(volsim.WriteArgs{Key: key, Cookie: volsim.CookieOf(key)}, 0)
			if _, err := st.DeleteVolumeNeedle(volsim.VID, n); err != nil {
				r.HarnessError("delete key=%d on a healthy volume failed: %v", key, scrub(err))
				ok = false
			}
			if b, has := v.model[key]; has {
				b.Deleted = true
				v.model[key] = b
			}
			r.Log("d key=%d", key)
		case "fill":
			// one plain needle sized so that the data file ends exactly at the target (if reachable)
			cur := volsim.FileSize(v.base + ".dat")
			x := s.Int("target") - cur
			if x < 48 {
				r.Log("fill skipped cur=%d target=%d", cur, s.Int("target"))
				continue
			}
			x -= x % 8
			key := uint64(s.Int("key"))
			// record = header 16 + Size + crc 4 + timestamp 8 + padding(1..8); Size = 4 + d + flags 1 + name-len 1 + mime-len 1 + last-modified 5
			d := int(x - 41)
			a := volsim.WriteArgs{Key: key, Cookie: volsim.CookieOf(key), Data: simkit.StepRand(s, 7).Bytes(maxInt(d, 1)), LM: 946684800}
			ok = write(a)
			r.Log("fill key=%d len=%d cur=%d target=%d got=%d", key, len(a.Data), cur, s.Int("target"), volsim.FileSize(v.base+".dat"))
		}
		if !ok {
			st.Close()
			return nil
		}
	}
	st.Close()
	var err error
	if v.dat, err = os.ReadFile(v.base + ".dat"); err != nil {
		r.HarnessError("read dat: %v", scrub(err))
		return nil
	}
	if v.idxRaw, err = os.ReadFile(v.base + ".idx"); err != nil {
		r.HarnessError("read idx: %v", scrub(err))
		return nil
	}
	v.live, v.all = walkIdx(v.idxRaw)
	v.keys = sortedEntKeys(v.live)
	return v
}

func maxInt(a, b int) int {
	if a > b {
		return a
	}
	return b
}

// walkIdx applies the loader's semantics to raw index bytes: entries in
// order, a zero offset or a tombstone size deletes the key.
func walkIdx(raw []byte) (live map[uint64]ent, all []ent) {
	live = map[uint64]ent{}
	_ = idx.WalkIndexFile(bytes.NewReader(raw), func(key types.NeedleId, offset types.Offset, size types.Size) error {
		if !offset.IsZero() && size != types.TombstoneFileSize && !size.IsDeleted() {
			e := ent{Key: uint64(key), Off: offset.ToActualOffset(), Size: int32(size)}
			live[uint64(key)] = e
			all = append(all, e)
		} else {
			delete(live, uint64(key))
		}
		return nil
	})
	return
}

func sortedEntKeys(m map[uint64]ent) []uint64 {
	ks := make([]uint64, 0, len(m))
	for k := range m {
		ks = append(ks, k)
	}
	sort.Slice(ks, func(i, j int) bool { return ks[i] < ks[j] })
	return ks
}

// parseSorted decodes a sorted index file (.ecx / .sdx) into entries.
func parseSorted(raw []byte) []ent {
	var out []ent
	for i := 0; i+types.NeedleMapEntrySize <= len(raw); i += types.NeedleMapEntrySize {
		k, o, s := idx.IdxFileEntry(raw[i : i+types.NeedleMapEntrySize])
		out = append(out, ent{Key: uint64(k), Off: o.ToActualOffset(), Size: int32(s)})
	}
	return out
}

func hashBytes(b []byte) string {
	h := sha256.Sum256(b)
	return hex.EncodeToString(h[:10])
}

func hashFile(path string) string {
	f, err := os.Open(path)
	if err != nil {
		return "missing"
	}
	defer f.Close()
	h := sha256.New()
	n, _ := io.Copy(h, f)
	return fmt.Sprintf("%s/%d", hex.EncodeToString(h.Sum(nil)[:10]), n)
}

func copyFile(src, dst string) error { return volsim.CopyPrefix(src, dst, -1) }

func shardName(base string, i int) string { return base + ec.ToExt(i) }

func popcount(m int64) int {
	n := 0
	for ; m != 0; m &= m - 1 {
		n++
	}
	return n
}

func maskList(m int64) []int {
	var out []int
	for i := 0; i < totalShards; i++ {
		if m&(1<<uint(i)) != 0 {
			out = append(out, i)
		}
	}
	return out
}

// layout is the harness's own account of where the encoder's loop puts the
// row boundary, used only to NAME size classes and areas (never as an oracle).
type layout struct {
	L, S      int64
	D         int64
	nLarge    int64 // rows encoded with large blocks
	rem       int64 // bytes after the large rows (0 < rem <= 10L for D > 0)
	largeArea int64 // nLarge * 10 * L
}

func layoutOf(D, L, S int64) layout {
	lo := layout{L: L, S: S, D: D}
	if D > 0 {
		lo.nLarge = (D - 1) / (dataShards * L)
	}
	lo.largeArea = lo.nLarge * dataShards * L
	lo.rem = D - lo.largeArea
	return lo
}

// sizeClass names where the data-file size sits relative to the row boundaries.
func (lo layout) sizeClass() string {
	rowL, rowS := dataShards*lo.L, dataShards*lo.S
	var c string
	m := lo.rem % rowS
	switch {
	case lo.rem == rowL:
		c = "exact-large-row"
	case lo.rem > rowL-rowS:
		c = "in-last-small-row-below-large-row"
	case lo.rem > rowL-2*rowS:
		c = "in-second-last-small-row-below-large-row"
	case m == 0:
		c = "exact-small-row"
	case lo.rem <= 16:
		c = "just-above-large-row"
	case m <= 16:
		c = "just-above-small-row"
	case rowS-m <= 16:
		c = "just-below-small-row"
	default:
		c = "mid-row"
	}
	return c
}

// class is the size class plus the number of large rows (capped): what the
// abstract trace and the probes distinguish.
func (lo layout) class() string {
	n := lo.nLarge
	if n > 3 {
		n = 3
	}
	return fmt.Sprintf("%s/large-rows=%d", lo.sizeClass(), n)
}

func (lo layout) area(off, size int64) string {
	switch {
	case off+size <= lo.largeArea:
		return "large-blocks"
	case off >= lo.largeArea:
		return "small-blocks"
	}
	return "spans-large-and-small"
}

// shardSet reads byte ranges of the data file back through the locator from
// the shard files of one directory.
type shardSet struct {
	files     [totalShards]*os.File
	shardSize int64
	L, S      int64
}

func openShardSet(base string, L, S int64) (*shardSet, error) {
	ss := &shardSet{L: L, S: S}
	for i := 0; i < totalShards; i++ {
		f, err := os.Open(shardName(base, i))
		if err != nil {
			ss.close()
			return nil, err
		}
		ss.files[i] = f
	}
	fi, err := ss.files[0].Stat()
	if err != nil {
		ss.close()
		return nil, err
	}
	ss.shardSize = fi.Size()
	return ss, nil
}

func (ss *shardSet) close() {
	for _, f := range ss.files {
		if f != nil {
			f.Close()
		}
	}
}

// read locates [off, off+size) exactly as the EC read path does — the data
// size handed to LocateData is DataShardsCount * shard size — and reassembles
// the bytes from the shard files.
func (ss *shardSet) read(datSize int64, off int64, size int64) (data []byte, desc string, largeRows int64, err error) {
	intervals := ec.LocateData(ss.L, ss.S, datSize, off, types.Size(size))
	out := make([]byte, 0, size)
	largeRows = -1
	for _, iv := range intervals {
		if largeRows < 0 {
			largeRows = int64(iv.LargeBlockRowsCount)
		}
		sid, soff := iv.ToShardIdAndOffset(ss.L, ss.S)
		if len(desc) < 200 {
			desc += fmt.Sprintf("[blk=%d in=%d sz=%d large=%v rows=%d -> shard %d @%d]", iv.BlockIndex, iv.InnerBlockOffset, iv.Size, iv.IsLargeBlock, iv.LargeBlockRowsCount, sid, soff)
		}
		if int(sid) >= totalShards {
			return nil, desc, largeRows, fmt.Errorf("interval maps to shard %d", sid)
		}
		buf := make([]byte, iv.Size)
		n, err := ss.files[sid].ReadAt(buf, soff)
		if n != len(buf) {
			return nil, desc, largeRows, fmt.Errorf("short read of shard %d at %d: %d of %d bytes (%v)", sid, soff, n, len(buf), err)
		}
		out = append(out, buf...)
	}
	if int64(len(out)) != size {
		return out, desc, largeRows, fmt.Errorf("intervals cover %d bytes, wanted %d", len(out), size)
	}
	return out, desc, largeRows, nil
}

func firstDiff(a, b []byte) int {
	n := len(a)
	if len(b) < n {
		n = len(b)
	}
	for i := 0; i < n; i++ {
		if a[i] != b[i] {
			return i
		}
	}
	if len(a) != len(b) {
		return n
	}
	return -1
}

func cloneStep(s simkit.Step) simkit.Step {
	c := simkit.Step{Kind: s.Kind, Seed: s.Seed}
	if s.A != nil {
		c.A = map[string]int64{}
		for k, v := range s.A {
			c.A[k] = v
		}
	}
	if s.S != nil {
		c.S = map[string]string{}
		for k, v := range s.S {
			c.S[k] = v
		}
	}
	return c
}

var scrubRe = regexp.MustCompile(`/[^ :"]*/run/[0-9]+/[0-9]+/`)

// scrub removes the per-process scratch path from an error text, so that the
// event log (and its hash) does not depend on process ids.
func scrub(err error) string {
	if err == nil {
		return "<nil>"
	}
	return scrubRe.ReplaceAllLiteralString(err.Error(), "$DIR/")
}
