// Package volsim drives one real storage.Store / Volume on a simulated disk:
// real files in a per-run directory whose crash states, write faults and
// restarts are decided by the plan.
package volsim

import (
	"bytes"
	"fmt"
	"io"
	"os"
	"path/filepath"
	"sync"

	"verifsim/simkit"

	"github.com/chrislusf/seaweedfs/weed/storage"
	"github.com/chrislusf/seaweedfs/weed/storage/needle"
	"github.com/chrislusf/seaweedfs/weed/storage/types"
	"github.com/chrislusf/seaweedfs/weed/util"
)

const VID = needle.VolumeId(7)

// Blob is the reference model's value for one file id.
type Blob struct {
	Exists   bool // a write was ever applied
	Deleted  bool
	Cookie   uint32
	Data     []byte
	Name     string
	Mime     string
	Pairs    string
	LM       uint64
	Ttl      string
	Gz       bool
	Manifest bool
}

func (b Blob) Live() bool { return b.Exists && !b.Deleted }

func (b Blob) String() string {
	if !b.Exists {
		return "absent"
	}
	if b.Deleted {
		return "deleted"
	}
	return fmt.Sprintf("live(c=%x len=%d h=%x name=%q mime=%q pairs=%q lm=%d ttl=%s gz=%v)", b.Cookie, len(b.Data), simkit.HashString(string(b.Data))&0xffff, b.Name, b.Mime, b.Pairs, b.LM, b.Ttl, b.Gz)
}

// SizeClasses are the payload lengths the generators favour: boundaries of
// padding, header fields and small buffers.
var SizeClasses = []int{0, 1, 7, 8, 9, 15, 16, 17, 255, 256, 1000, 4096, 65536}

func OpenStore(dir string, kind storage.NeedleMapKind) *storage.Store {
	return storage.NewStore(nil, 8080, "127.0.0.1", "127.0.0.1:8080", []string{dir}, []int{8},
		[]util.MinFreeSpace{{Type: util.AsPercent, Percent: 0}}, "", kind, []types.DiskType{types.HardDriveType})
}

// AddVolume creates volume VID and drains the new-volume notification.
func AddVolume(st *storage.Store, kind storage.NeedleMapKind, replication, ttl string) error {
	err := st.AddVolume(VID, "", kind, replication, ttl, 0, 0, types.HardDriveType)
	select {
	case <-st.NewVolumesChan:
	default:
	}
	return err
}

// WriteArgs is what a client supplies for an upload (mirrors what
// needle.CreateNeedleFromRequest builds from an HTTP request).
type WriteArgs struct {
	Key      uint64
	Cookie   uint32
	Data     []byte
	Name     string
	Mime     string
	Pairs    string // JSON
	LM       uint64 // 0 = server assigns now
	Ttl      string
	Gz       bool
	Manifest bool
	Fsync    bool
}

func BuildNeedle(a WriteArgs, nowUnix uint64) (*needle.Needle, error) {
	n := new(needle.Needle)
	n.Id = types.Uint64ToNeedleId(a.Key)
	n.Cookie = types.Uint32ToCookie(a.Cookie)
	n.Data = append([]byte{}, a.Data...)
	n.LastModified = a.LM
	ttl, err := needle.ReadTTL(a.Ttl)
	if err != nil {
		return nil, err
	}
	n.Ttl = ttl
	if len(a.Name) < 256 {
		n.Name = []byte(a.Name)
		n.SetHasName()
	}
	if len(a.Mime) < 256 {
		n.Mime = []byte(a.Mime)
		n.SetHasMime()
	}
	if a.Pairs != "" && len(a.Pairs) < 65536 {
		n.Pairs = []byte(a.Pairs)
		n.PairsSize = uint16(len(a.Pairs))
		n.SetHasPairs()
	}
	if a.Gz {
		n.SetIsCompressed()
	}
	if n.LastModified == 0 {
		n.LastModified = nowUnix
	}
	n.SetHasLastModifiedDate()
	if n.Ttl != needle.EMPTY_TTL {
		n.SetHasTtl()
	}
	if a.Manifest {
		n.SetIsChunkManifest()
	}
	n.Checksum = needle.NewCRC(n.Data)
	return n, nil
}

// ReadResult is what a read produced.
type ReadResult struct {
	Err   error
	Count int
	N     *needle.Needle
	// HeldChanged is set when the bytes an EARLIER read returned (still held by its caller, as the HTTP
	// handler holds them while it writes the response) have changed by the time this read returned
	HeldChanged string
}

// the previous read's payload: the slice as returned, and a private copy taken at that moment
var held struct {
	mu         sync.Mutex
	key        uint64
	data, copy []byte
}

// ResetHeld forgets the held read (start of a run).
func ResetHeld() {
	held.mu.Lock()
	held.key, held.data, held.copy = 0, nil, nil
	held.mu.Unlock()
}

func ReadBlob(st *storage.Store, key uint64, cookie uint32) ReadResult {
	n := new(needle.Needle)
	n.Id = types.Uint64ToNeedleId(key)
	n.Cookie = types.Uint32ToCookie(cookie)
	cnt, err := st.ReadVolumeNeedle(VID, n, nil)
	rr := ReadResult{Err: err, Count: cnt, N: n}
	held.mu.Lock()
	if held.data != nil && !bytes.Equal(held.data, held.copy) {
		rr.HeldChanged = fmt.Sprintf("the %d bytes returned by the previous read (key %d) read %x... when returned and %x... now", len(held.copy), held.key, firstN(held.copy, 12), firstN(held.data, 12))
	}
	held.key, held.data, held.copy = key, nil, nil
	if err == nil && len(n.Data) > 0 {
		held.data, held.copy = n.Data, append([]byte{}, n.Data...)
	}
	held.mu.Unlock()
	return rr
}

func firstN(b []byte, n int) []byte {
	if len(b) < n {
		return b
	}
	return b[:n]
}

// NotFound says whether a read outcome means "no such blob" (absent or deleted).
func (rr ReadResult) NotFound() bool {
	return rr.Err == storage.ErrorNotFound || rr.Err == storage.ErrorDeleted
}

// Matches compares a successful read with a model blob, field by field.
// Empty payloads are special in the format: the record carries no body, so
// no metadata can come back; only the emptiness is compared.
func (rr ReadResult) Matches(b Blob) (bool, string) {
	if rr.Err != nil {
		return false, "read error: " + rr.Err.Error()
	}
	n := rr.N
	if !bytes.Equal(n.Data, b.Data) {
		return false, fmt.Sprintf("data differs: got len=%d h=%x want len=%d h=%x", len(n.Data), simkit.HashString(string(n.Data))&0xffff, len(b.Data), simkit.HashString(string(b.Data))&0xffff)
	}
	if len(b.Data) == 0 {
		return true, ""
	}
	if uint32(n.Cookie) != b.Cookie {
		return false, fmt.Sprintf("cookie differs: got %x want %x", uint32(n.Cookie), b.Cookie)
	}
	if string(n.Name) != b.Name {
		return false, fmt.Sprintf("name differs: got %q want %q", n.Name, b.Name)
	}
	if string(n.Mime) != b.Mime {
		return false, fmt.Sprintf("mime differs: got %q want %q", n.Mime, b.Mime)
	}
	if string(n.Pairs) != b.Pairs {
		return false, fmt.Sprintf("pairs differ: got %q want %q", n.Pairs, b.Pairs)
	}
	if n.LastModified != b.LM {
		return false, fmt.Sprintf("last-modified differs: got %d want %d", n.LastModified, b.LM)
	}
	if n.IsCompressed() != b.Gz {
		return false, fmt.Sprintf("compressed flag differs: got %v want %v", n.IsCompressed(), b.Gz)
	}
	if n.IsChunkedManifest() != b.Manifest {
		return false, fmt.Sprintf("manifest flag differs: got %v want %v", n.IsChunkedManifest(), b.Manifest)
	}
	gotTtl := ""
	if n.HasTtl() && n.Ttl != nil {
		gotTtl = n.Ttl.String()
	}
	if gotTtl != b.Ttl {
		return false, fmt.Sprintf("ttl differs: got %q want %q", gotTtl, b.Ttl)
	}
	return true, ""
}

// CopyPrefix copies the first n bytes of src into dst (n<0: all).
func CopyPrefix(src, dst string, n int64) error {
	in, err := os.Open(src)
	if err != nil {
		return err
	}
	defer in.Close()
	out, err := os.Create(dst)
	if err != nil {
		return err
	}
	defer out.Close()
	if n < 0 {
		_, err = io.Copy(out, in)
	} else {
		_, err = io.CopyN(out, in, n)
		if err == io.EOF {
			err = fmt.Errorf("CopyPrefix %s: shorter than %d", src, n)
		}
	}
	return err
}

// CopyTree copies every regular file and directory under src to dst.
func CopyTree(src, dst string) error {
	return filepath.Walk(src, func(p string, info os.FileInfo, err error) error {
		if err != nil {
			return err
		}
		rel, _ := filepath.Rel(src, p)
		target := filepath.Join(dst, rel)
		if info.IsDir() {
			return os.MkdirAll(target, 0755)
		}
		return CopyPrefix(p, target, -1)
	})
}

func FileSize(path string) int64 {
	fi, err := os.Stat(path)
	if err != nil {
		return -1
	}
	return fi.Size()
}

func KindName(k storage.NeedleMapKind) string {
	switch k {
	case storage.NeedleMapInMemory:
		return "memory"
	case storage.NeedleMapLevelDb:
		return "leveldb"
	case storage.NeedleMapLevelDbMedium:
		return "leveldbMedium"
	case storage.NeedleMapLevelDbLarge:
		return "leveldbLarge"
	}
	return "?"
}

// GenWriteStep draws the arguments of one upload.
func GenWriteStep(rng *simkit.Rand, keys int, kind string) simkit.Step {
	key := 1 + rng.Intn(keys)
	var size int
	switch rng.Pick(5, 3, 1) {
	case 0:
		size = SizeClasses[rng.Intn(9)]
	case 1:
		size = rng.Range(1, 300)
	default:
		size = SizeClasses[rng.Intn(len(SizeClasses))]
	}
	nameLen := []int{0, 0, 1, 7, 8, 9, 254, 255}[rng.Intn(8)]
	mimeLen := []int{0, 0, 1, 10, 255}[rng.Intn(5)]
	pairs := 0
	if rng.Chance(1, 4) {
		pairs = rng.Range(1, 3)
	}
	lm := int64(0)
	if rng.Chance(1, 3) {
		lm = int64(946684800 - 86400*365 + rng.Intn(86400*800)) // around the bubble epoch, both sides
	}
	return simkit.St(kind, rng.Uint64(), "key", key, "size", size, "name", nameLen, "mime", mimeLen, "pairs", pairs, "lm", lm, "gz", rng.Chance(1, 6))
}

// ArgsFromStep materialises an upload from its step; the payload is unique per step seed.
func ArgsFromStep(s *simkit.Step, cookieOf func(key uint64) uint32) WriteArgs {
	rng := simkit.StepRand(s, 1)
	a := WriteArgs{Key: uint64(s.Int("key"))}
	a.Cookie = cookieOf(a.Key)
	if s.Has("cookie") {
		a.Cookie = uint32(s.Int("cookie"))
	}
	a.Data = rng.Bytes(int(s.Int("size")))
	if d := s.Int("dup"); d != 0 {
		// payload shared by every upload with the same dup class and size: identical rewrites
		a.Data = simkit.NewRand(uint64(d) * 7919).Bytes(int(s.Int("size")))
	} else if len(a.Data) >= 8 {
		// make the payload unique and attributable: embed the step seed
		copy(a.Data, fmt.Sprintf("%08x", uint32(s.Seed)))
	}
	a.Name = letters(rng, int(s.Int("name")))
	a.Mime = letters(rng, int(s.Int("mime")))
	if p := int(s.Int("pairs")); p > 0 {
		buf := bytes.NewBufferString("{")
		for i := 0; i < p; i++ {
			if i > 0 {
				buf.WriteByte(',')
			}
			fmt.Fprintf(buf, "%q:%q", fmt.Sprintf("k%d", i), letters(rng, rng.Range(0, 12)))
		}
		buf.WriteByte('}')
		a.Pairs = buf.String()
	}
	a.LM = uint64(s.Int("lm"))
	a.Gz = s.Int("gz") == 1
	a.Ttl = s.Str("ttl")
	a.Fsync = s.Int("fsync") == 1
	return a
}

func letters(rng *simkit.Rand, n int) string {
	b := make([]byte, n)
	for i := range b {
		b[i] = byte('a' + rng.Intn(26))
	}
	return string(b)
}

// CookieOf is the fixed cookie the well-behaved client uses for a key.
func CookieOf(key uint64) uint32 { return uint32(0x1000 + key*0x111) }

// BlobFromArgs is the model value an accepted upload leaves behind.
func BlobFromArgs(a WriteArgs, n *needle.Needle, volumeTtl string) Blob {
	b := Blob{Exists: true, Cookie: a.Cookie, Data: a.Data, Name: a.Name, Mime: a.Mime, Pairs: a.Pairs, LM: n.LastModified, Gz: a.Gz, Manifest: a.Manifest, Ttl: a.Ttl}
	if b.Ttl == "" {
		b.Ttl = volumeTtl
	}
	return b
}
