package volsim

import (
	"fmt"
	"os"
	"path/filepath"
	"sort"
	"time"

	"verifsim/simkit"

	"github.com/chrislusf/seaweedfs/weed/storage"
	"github.com/chrislusf/seaweedfs/weed/storage/types"
	"github.com/syndtr/goleveldb/leveldb/opt"
)

// C05, mapper mode: the NeedleMapper implementations driven directly
// (insert / update / delete / repeated delete / lookup in any key order,
// indexes larger than the 4096-entry batches of the index walkers), with
// reloads from the index file; lookups against a reference map, counters
// before and after each reload.

type mref struct {
	off     int64
	size    int32
	deleted bool
}

func genC05Map(rng *simkit.Rand, p *simkit.Plan, idx int) {
	p.SetC("mode", 1)
	p.SetC("kind", int64(idx/3%2)) // memory, leveldb
	p.SetC("counters", 1)
	if rng.Chance(1, 3) {
		p.SetC("ldbcounters", 1) // judge the LevelDB counters at every reload (else at the last one only)
	}
	if rng.Chance(1, 3) {
		// offsets spread over hundreds of GiB (only meaningful in the 5-byte-offset build: the fifth byte differs between neighbours)
		p.SetC("bigoff", 1)
	}
	nkeys := rng.Range(2, 30)
	n := rng.Range(6, 60)
	if rng.Chance(1, 8) {
		// an index with more entries than one batch of the (reverse) index walkers
		p.Add(simkit.St("bulk", rng.Uint64(), "n", []int{4096, 4200, 5000, 8000, 8192, 9000}[rng.Intn(6)]+rng.Intn(3)-1))
	}
	for i := 0; i < n; i++ {
		key := int64(1 + rng.Intn(nkeys))
		if rng.Chance(1, 6) {
			key = int64(1+rng.Intn(nkeys)) * 4000000007 % (1 << 40) // far apart
			if rng.Chance(1, 2) {
				// a key whose low 32 bits equal those of a small key of the same index (the in-memory map keeps keys relative to a 32-bit section start)
				key = int64(1+rng.Intn(nkeys)) + int64(1+rng.Intn(3))<<32
			}
		}
		switch x := rng.Intn(100); {
		case x < 45:
			p.Add(simkit.St("put", rng.Uint64(), "key", key, "size", rng.Range(1, 5000)))
		case x < 70:
			p.Add(simkit.St("del", rng.Uint64(), "key", key))
			if rng.Chance(1, 3) {
				p.Add(simkit.St("del", rng.Uint64(), "key", key)) // a repeated / replayed deletion
			}
		case x < 90:
			p.Add(simkit.St("get", rng.Uint64(), "key", key))
		default:
			p.Add(simkit.St("reload", rng.Uint64(), "stale", rng.Intn(2)))
		}
	}
	p.Add(simkit.St("reload", rng.Uint64(), "stale", rng.Intn(2)))
}

func execC05Map(r *simkit.Run) {
	p := r.Plan
	kind := storage.NeedleMapKind(p.C("kind"))
	dir := filepath.Join(r.Dir, "map")
	os.MkdirAll(dir, 0755)
	base := filepath.Join(dir, "9")
	var nm storage.NeedleMapper
	open := func(stale bool) bool {
		f, err := os.OpenFile(base+".idx", os.O_RDWR|os.O_CREATE, 0644)
		if err != nil {
			r.HarnessError("open idx: %v", err)
			return false
		}
		tIdx := time.Unix(1600000000, 0)
		tDb := tIdx.Add(time.Hour)
		if stale {
			tDb = tIdx.Add(-time.Hour)
		}
		os.Chtimes(base+".idx", tIdx, tIdx)
		os.Chtimes(filepath.Join(base+".ldb", "LOG"), tDb, tDb)
		switch kind {
		case storage.NeedleMapInMemory:
			m, err := storage.LoadCompactNeedleMap(f)
			if err != nil {
				r.Violate("index-load-failed", "memory", "loading the index file failed: %v", err)
				return false
			}
			nm = m
		default:
			m, err := storage.NewLevelDbNeedleMap(base+".ldb", f, &opt.Options{BlockCacheCapacity: 2 << 20, WriteBuffer: 1 << 20})
			if err != nil {
				r.Violate("index-load-failed", "leveldb", "loading the index file failed: %v", err)
				return false
			}
			nm = m
		}
		return true
	}
	if !open(false) {
		return
	}
	defer func() {
		if nm != nil {
			nm.Close()
		}
	}()
	ref := map[uint64]*mref{}
	nextOff := int64(8)
	overwrote, deleted, repeated := false, false, false
	lookup := func(key uint64, tag string) bool {
		nv, ok := nm.Get(types.Uint64ToNeedleId(key))
		m := ref[key]
		switch {
		case m == nil:
			if ok && nv.Size.IsValid() {
				r.Violate("lookup-differs", KindName(kind)+"/never-inserted-key-found", "%s: key %d was never inserted but the map returns offset %d size %d", tag, key, nv.Offset.ToActualOffset(), nv.Size)
				return false
			}
		case m.deleted:
			if ok && !nv.Size.IsDeleted() && nv.Size != 0 {
				r.Violate("deleted-key-reported-live", KindName(kind), "%s: key %d was deleted but the map returns it live (offset %d size %d)", tag, key, nv.Offset.ToActualOffset(), nv.Size)
				return false
			}
		default:
			if !ok || nv.Offset.ToActualOffset() != m.off || int32(nv.Size) != m.size {
				got := "not found"
				if ok {
					got = fmt.Sprintf("offset %d size %d", nv.Offset.ToActualOffset(), nv.Size)
				}
				r.Violate("lookup-differs", KindName(kind)+"/latest-offset-size", "%s: key %d should be at offset %d size %d, the map says %s", tag, key, m.off, m.size, got)
				return false
			}
		}
		return true
	}
	type cnt struct {
		fc, dc   int
		cs, ds   uint64
		mk       types.NeedleId
		idxBytes uint64
	}
	counters := func() cnt {
		return cnt{nm.FileCount(), nm.DeletedCount(), nm.ContentSize(), nm.DeletedSize(), nm.MaxFileKey(), nm.IndexFileSize()}
	}
	bigOff := p.C("bigoff") == 1 && types.OffsetSize == 5
	strideRng := simkit.NewRand(simkit.Mix(p.Seed, 0x0ff5e7))
	if bigOff {
		r.Probe("offsets-above-32GiB")
	}
	put := func(key uint64, size int32) bool {
		off := nextOff
		nextOff += int64((size + 32 + 7) / 8 * 8)
		if bigOff && nextOff < 7<<40 { // the 5-byte format addresses 8 TiB
			nextOff += int64(strideRng.Intn(6)) << 35 // 0..160 GiB further on
		}
		if err := nm.Put(types.Uint64ToNeedleId(key), types.ToOffset(off), types.Size(size)); err != nil {
			r.Violate("put-failed", KindName(kind), "Put(%d) failed: %v", key, err)
			return false
		}
		if m := ref[key]; m != nil && !m.deleted {
			overwrote = true
		}
		ref[key] = &mref{off: off, size: size}
		return true
	}
	for i := range p.Steps {
		st := &p.Steps[i]
		key := uint64(st.Int("key"))
		switch st.Kind {
		case "bulk":
			n := int(st.Int("n"))
			for k := 0; k < n; k++ {
				if !put(uint64(1000000+k), int32(10+k%97)) {
					return
				}
			}
			r.Log("bulk %d puts", n)
			r.Abs("bulk")
			r.Probe("index-larger-than-4096-entries")
		case "put":
			if !put(key, int32(st.Int("size"))) {
				return
			}
			r.Log("put %d", key)
			r.Abs("put")
		case "del":
			if ref[key] == nil {
				continue // deleting a key that never existed is not something the callers of the maps do
			}
			before := counters()
			if err := nm.Delete(types.Uint64ToNeedleId(key), types.ToOffset(nextOff)); err != nil {
				r.Violate("delete-failed", KindName(kind), "Delete(%d) failed: %v", key, err)
				return
			}
			m := ref[key]
			after := counters()
			if m != nil && !m.deleted {
				nextOff += 32
				m.deleted = true
				deleted = true
				// the removed size is accounted for
				if after.ds-before.ds != uint64(m.size) {
					r.Violate("removed-size-wrong", KindName(kind), "Delete(%d) of a %d-byte entry changed DeletedSize by %d", key, m.size, after.ds-before.ds)
					return
				}
			} else if m != nil && m.deleted {
				r.Probe("repeated-delete")
				repeated = true
				if after.ds != before.ds {
					r.Violate("removed-size-wrong", KindName(kind)+"/repeated-delete", "a repeated Delete(%d) changed DeletedSize from %d to %d", key, before.ds, after.ds)
					return
				}
			}
			r.Log("del %d", key)
			r.Abs("del")
			if !lookup(key, "after-delete") {
				return
			}
		case "get":
			if !lookup(key, "get") {
				return
			}
			r.Abs("get")
		case "reload":
			before := counters()
			nm.Close()
			nm = nil
			if !open(st.Int("stale") == 1) {
				return
			}
			r.Fault("clean-restart")
			r.Abs("reload")
			after := counters()
			keys := make([]uint64, 0, len(ref))
			for k := range ref {
				keys = append(keys, k)
			}
			sort.Slice(keys, func(i, j int) bool { return keys[i] < keys[j] })
			for _, k := range keys {
				if !lookup(k, "after-reload") {
					return
				}
			}
			if before != after && kind != storage.NeedleMapInMemory && (overwrote || deleted) && p.C("ldbcounters") != 1 && i != len(p.Steps)-1 {
				// the recorded LevelDB recount finding would end the run at its first reload after any
				// overwrite or delete; two thirds of the runs judge the counters at the final reload only
				r.Probe("leveldb-counters-judged-at-the-final-reload")
			} else if before != after && repeated {
				// a repeated deletion appends another tombstone to the index file, which every loader
				// counts again; what the counters should be then is not part of the statement
				r.Probe("counters-not-compared-after-repeated-delete")
			} else if before != after {
				diff := ""
				if before.fc != after.fc {
					diff += "+FileCount"
				}
				if before.dc != after.dc {
					diff += "+DeletedCount"
				}
				if before.cs != after.cs {
					diff += "+ContentSize"
				}
				if before.ds != after.ds {
					diff += "+DeletedSize"
				}
				if before.mk != after.mk {
					diff += "+MaxFileKey"
				}
				if before.idxBytes != after.idxBytes {
					diff += "+IndexFileSize"
				}
				key := KindName(kind) + ":" + diff
				if kind != storage.NeedleMapInMemory && (overwrote || deleted) {
					// the recorded recount finding: WHICH counters come out different depends on the history
					// (how many overwrites, deletes, bloom-filter hits), the root cause does not
					key = KindName(kind) + ":recount-after-overwrite-or-delete"
				}
				if !(kind != storage.NeedleMapInMemory && (overwrote || deleted)) {
					// (the LevelDB recount finding needs an overwrite or a delete in the history)
					key += "(no-overwrite-no-delete)"
				}
				if kind != storage.NeedleMapInMemory {
					// the recount uses a bloom filter with a 0.1% false-positive target: a handful of
					// miscounted entries in a large index is that; hundreds are something else
					d := before.fc - after.fc
					if d < 0 {
						d = -d
					}
					if before.fc > 1000 && d*200 > before.fc {
						key += "(large-miscount)"
					}
				}
				r.Violate("counters-changed-by-reload", key, "counters before reload %+v, after %+v", before, after)
				return
			}
		}
	}
}
