package volsim

import (
	"fmt"
	"os"
	"path/filepath"
	"sort"
	"time"

	"verifsim/simkit"

	"github.com/chrislusf/seaweedfs/weed/storage"
)

// C03 — a volume survives a crash at any point without serving wrong data.
//
// Plan: a history of uploads / overwrites / deletes executed on a live
// volume, then crash steps. A crash is the pair (operation k in flight, byte
// offset within k's data append or within k's index append): the data and
// index files keep exactly that prefix. It is materialised by copying the
// files, truncated, into a fresh directory and opening a new Store there.

func init() {
	simkit.Register(&simkit.Prop{ID: "C03", Gen: genC03, Exec: execC03, Shrink: shrinkC03, Refine: refineC03})
}

func genC03(tier string, seed uint64, idx int) *simkit.Plan {
	rng := simkit.NewRand(seed)
	p := &simkit.Plan{Engine: "volsim"}
	kind := 0
	if rng.Chance(1, 4) {
		kind = 1
	}
	p.SetC("kind", int64(kind))
	keys := rng.Range(1, 4)
	exhaustive := false
	nops := rng.Range(1, 10)
	if tier == "thorough" && idx%3 == 0 || tier == "quick" && idx%8 == 0 {
		// the "three operations suffice" regime: short histories, small payloads, every crash point
		exhaustive = true
		nops = rng.Range(1, 4)
		keys = rng.Range(1, 2)
	}
	// one plan in 48 has a history around 1024 operations: the index file then ends on, just before or just
	// after a read-batch boundary of the index walkers when the crash happens
	long := !exhaustive && rng.Chance(1, 48)
	if long {
		nops = 1021 + rng.Intn(8)
		keys = 3000
	}
	// empty payloads only in a fraction of the plans: they run into a recorded
	// finding (known_findings.json) that ends the run at the first crash point
	empties := rng.Chance(1, 8)
	for i := 0; i < nops; i++ {
		if !long && rng.Chance(1, 4) { // (a long history is all uploads: one index entry per operation)
			p.Add(simkit.St("d", rng.Uint64(), "key", 1+rng.Intn(keys)))
			continue
		}
		s := GenWriteStep(rng, keys, "w")
		if exhaustive {
			s.A["size"] = int64([]int{0, 1, 7, 8, 9, 40, 64}[rng.Intn(7)])
			s.A["name"] = int64([]int{0, 3}[rng.Intn(2)])
			s.A["mime"] = 0
			s.A["pairs"] = 0
		} else if long {
			s.A["size"] = int64(rng.Range(1, 16))
			s.A["name"], s.A["mime"], s.A["pairs"] = 0, 0, 0
		} else if s.A["size"] > 4096 {
			s.A["size"] = 4096
		}
		if s.A["size"] == 0 && !empties {
			s.A["size"] = int64(rng.Range(1, 9))
		}
		if !long && rng.Chance(1, 10) {
			s.A["dup"] = 1 // may produce an identical rewrite (unchanged path)
		}
		p.Add(s)
	}
	if exhaustive {
		p.Add(simkit.St("crashall", rng.Uint64(), "ldb", rng.Intn(3), "second", rng.Chance(1, 5)))
		return p
	}
	ncr := rng.Range(4, 24)
	for i := 0; i < ncr; i++ {
		op := rng.Intn(nops)
		if rng.Chance(1, 2) {
			op = nops - 1 - rng.Intn(minInt(nops, 2)) // bias: the tail, where recovery looks
		}
		phase := rng.Intn(2)
		cut := int64(0)
		switch rng.Pick(3, 3, 2, 2) {
		case 0:
			cut = int64(rng.Intn(17))
		case 1:
			cut = int64(rng.Intn(48))
		case 2:
			cut = 1 << 30 // clamped to the full length
		default:
			cut = int64(rng.Intn(5000))
		}
		p.Add(simkit.St("crash", rng.Uint64(), "op", op, "phase", phase, "cut", cut, "ldb", rng.Intn(3), "second", rng.Chance(1, 6)))
	}
	return p
}

func minInt(a, b int) int {
	if a < b {
		return a
	}
	return b
}

type opRec struct {
	kind     string // w, d
	key      uint64
	datAfter int64
	idxAfter int64
	after    map[uint64]Blob
	ldbSnap  string // directory holding the LevelDB snapshot taken after this op ("" = none)
	accepted bool
}

func cloneModel(m map[uint64]Blob) map[uint64]Blob {
	c := make(map[uint64]Blob, len(m))
	for k, v := range m {
		c[k] = v
	}
	return c
}

func sortedKeys(m map[uint64]Blob) []uint64 {
	ks := make([]uint64, 0, len(m))
	for k := range m {
		ks = append(ks, k)
	}
	sort.Slice(ks, func(i, j int) bool { return ks[i] < ks[j] })
	return ks
}

func execC03(r *simkit.Run) {
	p := r.Plan
	kind := storage.NeedleMapKind(p.C("kind"))
	live := filepath.Join(r.Dir, "live")
	os.MkdirAll(live, 0755)
	st := OpenStore(live, kind)
	defer st.Close()
	if err := AddVolume(st, kind, "000", ""); err != nil {
		r.HarnessError("add volume: %v", err)
		return
	}
	base := filepath.Join(live, "7")
	model := map[uint64]Blob{}
	dat0, idx0 := FileSize(base+".dat"), FileSize(base+".idx")
	var ops []opRec
	ldb0 := ""
	if kind != storage.NeedleMapInMemory {
		ldb0 = filepath.Join(r.Dir, "ldb-init")
		if err := CopyTree(base+".ldb", ldb0); err != nil {
			r.HarnessError("snapshot ldb: %v", err)
			return
		}
	}
	// 1. the history, on the live volume
	for i := range p.Steps {
		s := &p.Steps[i]
		switch s.Kind {
		case "w":
			a := ArgsFromStep(s, CookieOf)
			n, err := BuildNeedle(a, uint64(time.Now().Unix()))
			if err != nil {
				r.HarnessError("build needle: %v", err)
				return
			}
			unchanged, werr := st.WriteVolumeNeedle(VID, n, false)
			if werr != nil {
				r.Violate("live-write-failed", "w", "write key=%d on a healthy volume failed: %v", a.Key, werr)
				return
			}
			if !unchanged {
				// (an identical rewrite is answered "unchanged" and appends nothing; what that does to
				// the metadata is C01's business, here the stored record simply stays)
				model[a.Key] = BlobFromArgs(a, n, "")
			}
			r.Log("w key=%d len=%d", a.Key, len(a.Data))
			r.Abs("w")
			ops = append(ops, opRec{kind: "w", key: a.Key})
		case "d":
			key := uint64(s.Int("key"))
			n, _ := BuildNeedle(WriteArgs{Key: key, Cookie: CookieOf(key)}, 0)
			_, derr := st.DeleteVolumeNeedle(VID, n)
			if derr != nil {
				r.Violate("live-delete-failed", "d", "delete key=%d on a healthy volume failed: %v", key, derr)
				return
			}
			if b, ok := model[key]; ok && b.Live() && len(b.Data) > 0 {
				b.Deleted = true
				model[key] = b
			} else if ok && b.Live() {
				// deleting an empty blob: whether it disappears is C01's business; record what the volume says now
				if ReadBlob(st, key, CookieOf(key)).NotFound() {
					b.Deleted = true
					model[key] = b
				}
			}
			r.Log("d key=%d", key)
			r.Abs("d")
			ops = append(ops, opRec{kind: "d", key: key})
		default:
			continue
		}
		o := &ops[len(ops)-1]
		o.datAfter, o.idxAfter = FileSize(base+".dat"), FileSize(base+".idx")
		o.after = cloneModel(model)
		if kind != storage.NeedleMapInMemory {
			o.ldbSnap = filepath.Join(r.Dir, fmt.Sprintf("ldb-%d", len(ops)))
			if err := CopyTree(base+".ldb", o.ldbSnap); err != nil {
				r.HarnessError("snapshot ldb: %v", err)
				return
			}
		}
	}
	if len(ops) == 0 {
		return
	}
	// 2. the crashes
	cp := &crasher{r: r, kind: kind, base: base, ops: ops, dat0: dat0, idx0: idx0, ldb0: ldb0}
	for i := range p.Steps {
		s := &p.Steps[i]
		switch s.Kind {
		case "crash":
			k := int(s.Int("op"))
			if k >= len(ops) {
				k = len(ops) - 1
			}
			cp.one(k, int(s.Int("phase")), s.Int("cut"), int(s.Int("ldb")), s.Int("second") == 1)
		case "crashall":
			for k := range ops {
				dLen, iLen := cp.lens(k)
				for cut := int64(0); cut <= dLen; cut++ {
					cp.one(k, 0, cut, int(s.Int("ldb")), false)
				}
				for cut := int64(1); cut <= iLen; cut++ {
					cp.one(k, 1, cut, int(s.Int("ldb")), s.Int("second") == 1 && cut%5 == 0)
				}
				if r.Violated() {
					return
				}
			}
		}
		if r.Violated() {
			return
		}
	}
}

type crasher struct {
	r          *simkit.Run
	kind       storage.NeedleMapKind
	base       string
	ops        []opRec
	dat0, idx0 int64
	ldb0       string
	n          int
}

func (c *crasher) prev(k int) (dat, idx int64, model map[uint64]Blob, ldb string) {
	if k == 0 {
		return c.dat0, c.idx0, map[uint64]Blob{}, c.ldb0
	}
	o := c.ops[k-1]
	return o.datAfter, o.idxAfter, o.after, o.ldbSnap
}

func (c *crasher) lens(k int) (datLen, idxLen int64) {
	pd, pi, _, _ := c.prev(k)
	return c.ops[k].datAfter - pd, c.ops[k].idxAfter - pi
}

// one materialises one crash point and runs the oracle on the reopened volume.
func (c *crasher) one(k, phase int, cut int64, ldbMode int, second bool) {
	r := c.r
	if r.Violated() {
		return
	}
	pd, pi, before, ldbBefore := c.prev(k)
	o := c.ops[k]
	dLen, iLen := o.datAfter-pd, o.idxAfter-pi
	var datSize, idxSize int64
	if phase == 0 {
		if cut > dLen {
			cut = dLen
		}
		datSize, idxSize = pd+cut, pi
	} else {
		if cut > iLen {
			cut = iLen
		}
		datSize, idxSize = o.datAfter, pi+cut
	}
	complete := phase == 1 && cut == iLen // both appends fully on disk
	if dLen == 0 && iLen == 0 {
		complete = true // the operation appended nothing (unchanged rewrite, delete of nothing)
	}
	c.n++
	r.Count("crash_points")
	dir := filepath.Join(r.Dir, fmt.Sprintf("crash-%d", c.n))
	os.MkdirAll(dir, 0755)
	defer os.RemoveAll(dir)
	nb := filepath.Join(dir, "7")
	if err := CopyPrefix(c.base+".dat", nb+".dat", datSize); err != nil {
		r.HarnessError("copy dat: %v", err)
		return
	}
	if err := CopyPrefix(c.base+".idx", nb+".idx", idxSize); err != nil {
		r.HarnessError("copy idx: %v", err)
		return
	}
	if err := CopyPrefix(c.base+".vif", nb+".vif", -1); err != nil {
		r.HarnessError("copy vif: %v", err)
		return
	}
	ldbDesc := ""
	if c.kind != storage.NeedleMapInMemory {
		// The LevelDB directory lags the index file by at most the operation in
		// flight (the index file is appended first). ldbMode: 0 = directory lost,
		// 1 = snapshot judged stale (index newer: regenerated), 2 = snapshot judged fresh.
		snap := ldbBefore
		if complete {
			snap = o.ldbSnap
		}
		switch ldbMode {
		case 0:
			ldbDesc = "ldb=lost"
		case 1, 2:
			if err := CopyTree(snap, nb+".ldb"); err != nil {
				r.HarnessError("copy ldb: %v", err)
				return
			}
			tIdx := time.Unix(1600000000, 0)
			tLdb := tIdx.Add(-time.Hour)
			ldbDesc = "ldb=stale"
			if ldbMode == 2 {
				tLdb = tIdx.Add(time.Hour)
				ldbDesc = "ldb=fresh"
			}
			os.Chtimes(nb+".idx", tIdx, tIdx)
			os.Chtimes(filepath.Join(nb+".ldb", "LOG"), tLdb, tLdb)
		}
	}
	cutClass := "partial"
	if cut == 0 {
		cutClass = "none"
	} else if (phase == 0 && cut == dLen) || (phase == 1 && cut == iLen) {
		cutClass = "full"
	}
	phaseName := []string{"dat", "idx"}[phase]
	prevKind := "none"
	if k > 0 {
		prevKind = c.ops[k-1].kind
	}
	sit := fmt.Sprintf("inflight=%s/%s-%s/prev=%s", o.kind, phaseName, cutClass, prevKind)
	r.Log("crash op=%d phase=%s cut=%d dat=%d idx=%d %s", k, phaseName, cut, datSize, idxSize, ldbDesc)
	defer func() {
		if r.Violated() && r.Res.Hint == nil {
			r.Hint("op", int64(k))
			r.Hint("phase", int64(phase))
			r.Hint("cut", cut)
			r.Hint("ldb", int64(ldbMode))
			r.Hint("second", b2i(second))
		}
	}()
	r.Abs("crash:" + sit)
	r.Fault("crash")
	if cutClass == "partial" {
		r.Fault("torn-" + phaseName)
	}

	expect := func(key uint64) []Blob {
		if complete {
			return []Blob{o.after[key]}
		}
		if key == o.key {
			return []Blob{before[key], o.after[key]}
		}
		return []Blob{before[key]}
	}
	keys := sortedKeys(o.after)

	reopen := func(tag string) *storage.Store {
		st := OpenStore(dir, c.kind)
		v := st.GetVolume(VID)
		if v == nil {
			r.Violate("reopen-failed", sit, "%s: volume not loaded after crash at op=%d phase=%s cut=%d (dat=%d idx=%d %s)", tag, k, phaseName, cut, datSize, idxSize, ldbDesc)
			st.Close()
			return nil
		}
		return st
	}
	checkReads := func(st *storage.Store, tag string, extra map[uint64]Blob) bool {
		for _, key := range keys {
			allowed := expect(key)
			if eb, ok := extra[key]; ok {
				allowed = []Blob{eb}
			}
			rr := ReadBlob(st, key, CookieOf(key))
			ok := false
			why := ""
			for _, b := range allowed {
				if !b.Live() {
					if rr.NotFound() {
						ok = true
					}
					continue
				}
				if m, w := rr.Matches(b); m {
					ok = true
				} else {
					why = w
				}
			}
			if !ok {
				class := "wrong-data"
				if rr.Err != nil {
					class = "read-error"
					if rr.NotFound() {
						class = "lost-data"
					}
				} else if len(allowed) == 1 && !allowed[0].Live() {
					class = "resurrected"
				}
				vkey := sit
				for _, b := range allowed {
					if b.Live() && len(b.Data) == 0 && rr.NotFound() {
						vkey = "empty-blob-not-found-after-reload"
					}
				}
				r.Violate(class, vkey, "%s: key=%d after crash at op=%d phase=%s cut=%d: allowed %v; read err=%v len=%d (%s)", tag, key, k, phaseName, cut, allowed, rr.Err, len(rr.N.Data), why)
				return false
			}
		}
		return true
	}

	st := reopen("reopen")
	if st == nil {
		return
	}
	if second {
		// crash again right after recovery ran (its truncations are on disk), reopen once more
		r.Fault("crash-during-recovery")
		st.Close() // Close here only releases handles; recovery's own writes are already in the files
		if st = reopen("second-reopen"); st == nil {
			return
		}
	}
	defer func() { st.Close() }()
	if !checkReads(st, "after-reopen", nil) {
		return
	}
	// the volume must accept and serve new writes
	extra := map[uint64]Blob{}
	fresh := uint64(1000 + k)
	for i, key := range []uint64{fresh, o.key} {
		sd := simkit.Step{Kind: "w", Seed: simkit.Mix(r.Plan.Seed, uint64(c.n), uint64(i)), A: map[string]int64{"key": int64(key), "size": 24, "name": 2}}
		a := ArgsFromStep(&sd, CookieOf)
		n, _ := BuildNeedle(a, uint64(time.Now().Unix()))
		if _, err := st.WriteVolumeNeedle(VID, n, false); err != nil {
			class := "post-write-failed"
			if v := st.GetVolume(VID); v != nil && v.IsReadOnly() {
				class = "left-read-only"
			}
			r.Violate(class, sit, "new write key=%d refused after crash at op=%d phase=%s cut=%d (dat=%d idx=%d): %v", key, k, phaseName, cut, datSize, idxSize, err)
			return
		}
		extra[key] = BlobFromArgs(a, n, "")
	}
	keys = append(keys, fresh)
	if !checkReads(st, "after-new-writes", extra) {
		return
	}
	// and what recovery plus the new writes left behind must itself load cleanly
	st.Close()
	if st = reopen("clean-reopen"); st == nil {
		return
	}
	checkReads(st, "after-clean-reopen", extra)
}

func shrinkC03(s simkit.Step) []simkit.Step {
	var out []simkit.Step
	if s.Kind == "w" {
		for _, f := range []string{"size", "name", "mime", "pairs", "lm", "gz"} {
			if s.A[f] != 0 {
				c := cloneStep(s)
				if f == "size" && s.A[f] > 8 {
					c.A[f] = s.A[f] / 2
				} else {
					c.A[f] = 0
				}
				out = append(out, c)
			}
		}
	}
	if s.Kind == "crash" && s.A["second"] == 1 {
		c := cloneStep(s)
		c.A["second"] = 0
		out = append(out, c)
	}
	return out
}

func cloneStep(s simkit.Step) simkit.Step {
	c := simkit.Step{Kind: s.Kind, Seed: s.Seed}
	if s.A != nil {
		c.A = map[string]int64{}
		for k, v := range s.A {
			c.A[k] = v
		}
	}
	if s.S != nil {
		c.S = map[string]string{}
		for k, v := range s.S {
			c.S[k] = v
		}
	}
	return c
}

func b2i(b bool) int64 {
	if b {
		return 1
	}
	return 0
}

// refineC03 replaces "every crash point" by the single point that failed.
func refineC03(p *simkit.Plan, res *simkit.Result) *simkit.Plan {
	if res.Hint == nil {
		return nil
	}
	c := p.Clone()
	var steps []simkit.Step
	for _, s := range c.Steps {
		if s.Kind == "crash" || s.Kind == "crashall" {
			continue
		}
		steps = append(steps, s)
	}
	steps = append(steps, simkit.St("crash", 1, "op", res.Hint["op"], "phase", res.Hint["phase"], "cut", res.Hint["cut"], "ldb", res.Hint["ldb"], "second", res.Hint["second"]))
	c.Steps = steps
	return c
}
