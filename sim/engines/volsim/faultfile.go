package volsim

import (
	"errors"
	"sync"
	"sync/atomic"
	"syscall"
	"time"

	"github.com/chrislusf/seaweedfs/weed/storage/backend"
)

// FaultFile wraps a volume's data backend (existing seam: the exported
// Volume.DataBackend field of interface type) and fails the next write,
// sync or truncate as armed by the plan.
type FaultFile struct {
	Inner     backend.BackendStorageFile
	NextWrite string // "", "eio", "enospc", "short"
	NextSync  bool
	NextTrunc bool
	Fired     func(kind string)

	// a slow disk: the next GetStat parks its caller (wherever in the SUT that is, with whatever locks it
	// holds) until the channel is closed
	parkMu sync.Mutex
	park   chan struct{}
	Parked int32 // 1 while a caller is parked
}

// ParkNextStat arms the stall and returns the function that ends it.
func (f *FaultFile) ParkNextStat() (release func()) {
	ch := make(chan struct{})
	f.parkMu.Lock()
	f.park = ch
	f.parkMu.Unlock()
	return func() {
		f.parkMu.Lock()
		if f.park == ch {
			f.park = nil // nobody came
		}
		f.parkMu.Unlock()
		close(ch)
	}
}

var errEIO = errors.New("input/output error")

func (f *FaultFile) ReadAt(p []byte, off int64) (int, error) { return f.Inner.ReadAt(p, off) }

func (f *FaultFile) WriteAt(p []byte, off int64) (int, error) {
	kind := f.NextWrite
	f.NextWrite = ""
	switch kind {
	case "eio":
		f.Fired("write-eio")
		return 0, errEIO
	case "enospc":
		f.Fired("write-enospc")
		return 0, syscall.ENOSPC
	case "short":
		f.Fired("write-short")
		// a short write: the prefix reaches the file, the call reports an error.
		// The bytes go to the os.File directly: DiskFile does not advance its
		// size bookkeeping when WriteAt returns an error.
		n := len(p) / 2
		if n > 0 {
			if df, ok := f.Inner.(*backend.DiskFile); ok {
				df.File.WriteAt(p[:n], off)
			} else {
				n = 0
			}
		}
		return n, syscall.ENOSPC
	}
	return f.Inner.WriteAt(p, off)
}

func (f *FaultFile) Truncate(off int64) error {
	if f.NextTrunc {
		f.NextTrunc = false
		f.Fired("truncate-fail")
		return errEIO
	}
	return f.Inner.Truncate(off)
}

func (f *FaultFile) Close() error { return f.Inner.Close() }
func (f *FaultFile) GetStat() (int64, time.Time, error) {
	f.parkMu.Lock()
	ch := f.park
	f.park = nil
	f.parkMu.Unlock()
	if ch != nil {
		// the answer is computed, then the caller is held up before it gets it: whoever relies on the value
		// must hold the lock that keeps it true
		size, mt, err := f.Inner.GetStat()
		atomic.StoreInt32(&f.Parked, 1)
		<-ch
		atomic.StoreInt32(&f.Parked, 0)
		return size, mt, err
	}
	return f.Inner.GetStat()
}
func (f *FaultFile) Name() string { return f.Inner.Name() }
func (f *FaultFile) Sync() error {
	if f.NextSync {
		f.NextSync = false
		f.Fired("sync-fail")
		return errEIO
	}
	return f.Inner.Sync()
}
