package volsim

import (
	"fmt"

	"verifsim/simkit"
)

func init() {
	simkit.Register(&simkit.Prop{ID: "C01", Gen: genC01, Exec: execSession("C01"), Shrink: shrinkSession})
	simkit.Register(&simkit.Prop{ID: "C02", Gen: genC02, Exec: execSession("C02"), Shrink: shrinkSession})
	simkit.Register(&simkit.Prop{ID: "C04", Gen: genC04, Exec: execSession("C04"), Shrink: shrinkSession})
	simkit.Register(&simkit.Prop{ID: "C05", Gen: genC05, Exec: func(r *simkit.Run) {
		if r.Plan.C("mode") == 1 {
			execC05Map(r)
			return
		}
		execSession("C05")(r)
	}, Shrink: shrinkSession})
	simkit.Register(&simkit.Prop{ID: "C09", Gen: genC09, Exec: execSession("C09"), Shrink: shrinkSession})
}

func execSession(prop string) func(r *simkit.Run) {
	return func(r *simkit.Run) {
		s := newSess(r, prop)
		if s == nil {
			return
		}
		defer s.close()
		r.Res.FaultConfig = r.Plan.C("faults") == 1
		for i := range r.Plan.Steps {
			s.lastStep = i == len(r.Plan.Steps)-1
			if !s.step(&r.Plan.Steps[i]) {
				return
			}
		}
		// every run ends with the pending background work finished and a full comparison
		s.compactFinish()
		if !r.Violated() {
			s.commitFinish()
		}
		if !r.Violated() {
			s.checkAll("final")
		}
	}
}

func shrinkSession(s simkit.Step) []simkit.Step {
	var out []simkit.Step
	switch s.Kind {
	case "w":
		for _, f := range []string{"size", "name", "mime", "pairs", "lm", "gz", "fsync", "dup"} {
			if s.A[f] != 0 {
				c := cloneStep(s)
				if f == "size" && s.A[f] > 8 {
					c.A[f] = s.A[f] / 2
				} else {
					c.A[f] = 0
				}
				out = append(out, c)
			}
		}
		if s.S["ttl"] != "" {
			c := cloneStep(s)
			delete(c.S, "ttl")
			out = append(out, c)
		}
	case "adv":
		if s.A["sec"] > 1 {
			c := cloneStep(s)
			c.A["sec"] = s.A["sec"] / 2
			out = append(out, c)
		}
	case "cstart":
		for _, f := range []string{"park", "visits"} {
			if s.A[f] != 0 {
				c := cloneStep(s)
				c.A[f] = 0
				out = append(out, c)
			}
		}
	case "commit":
		if s.A["park"] != 0 {
			c := cloneStep(s)
			c.A["park"] = 0
			out = append(out, c)
		}
	}
	return out
}

func genKind(rng *simkit.Rand, p *simkit.Plan) {
	if rng.Chance(1, 4) {
		p.SetC("kind", 1)
	} else {
		p.SetC("kind", 0)
	}
}

func genOp(rng *simkit.Rand, keys int, wr, del, rd int) simkit.Step {
	switch rng.Pick(wr, del, rd) {
	case 0:
		return GenWriteStep(rng, keys, "w")
	case 1:
		return simkit.St("d", rng.Uint64(), "key", 1+rng.Intn(keys))
	default:
		return simkit.St("r", rng.Uint64(), "key", 1+rng.Intn(keys))
	}
}

// C01 — read-your-writes, overwrite, delete, read-only; fault-free and write-fault configurations.
func genC01(tier string, seed uint64, idx int) *simkit.Plan {
	rng := simkit.NewRand(seed)
	p := &simkit.Plan{Engine: "volsim"}
	genKind(rng, p)
	faults := idx%3 == 2
	if faults {
		p.SetC("faults", 1)
	}
	if rng.Chance(1, 4) {
		p.SetC("stopping", 1)
	}
	keys := rng.Range(1, 5)
	n := rng.Range(6, 40)
	if rng.Chance(1, 10) {
		n = rng.Range(40, 120)
	}
	empties := rng.Chance(1, 6)
	dups := rng.Chance(1, 5)
	wrongCookies := rng.Chance(1, 4)
	if wrongCookies {
		dups = true
	}
	for i := 0; i < n; i++ {
		switch x := rng.Intn(100); {
		case x < 4:
			p.Add(simkit.St("ro", rng.Uint64()))
		case x < 9:
			p.Add(simkit.St("rw", rng.Uint64()))
		case x < 13:
			p.Add(simkit.St("restart", rng.Uint64()))
		case x >= 94 && wrongCookies:
			// a read and a delete presenting another cookie, through the volume server's HTTP handler
			p.Add(simkit.St("wc", rng.Uint64(), "key", 1+rng.Intn(keys), "cookie", 0x7000+rng.Intn(3)))
		case x < 17 && faults:
			p.Add(simkit.St("fault", rng.Uint64(), "kind", []string{"eio", "enospc", "short", "sync", "trunc"}[rng.Intn(5)]))
			// a fault is only interesting inside an operation that creates in-flight state
			s := GenWriteStep(rng, keys, "w")
			if rng.Chance(1, 2) {
				s.A["fsync"] = 1
			}
			if rng.Chance(1, 4) {
				s = simkit.St("d", rng.Uint64(), "key", 1+rng.Intn(keys))
			}
			p.Add(s)
		default:
			s := genOp(rng, keys, 5, 2, 4)
			if s.Kind == "w" {
				if s.A["size"] == 0 && !empties {
					s.A["size"] = int64(rng.Range(1, 9))
				}
				if dups && rng.Chance(1, 3) {
					s.A["dup"] = int64(1 + rng.Intn(2))
					s.A["size"] = 12
				}
				if rng.Chance(1, 5) {
					s.A["fsync"] = 1
				}
				if wrongCookies && rng.Chance(1, 4) {
					// an upload presenting another cookie (identical or different bytes)
					s.A["cookie"] = int64(0x7000 + rng.Intn(3))
				}
			}
			p.Add(s)
		}
	}
	return p
}

// C02 — encoding round-trip as far as the generator reaches it; simulated part:
// silent corruption (byte flips) and record-by-record scans, needle versions 2 and 3.
func genC02(tier string, seed uint64, idx int) *simkit.Plan {
	rng := simkit.NewRand(seed)
	p := &simkit.Plan{Engine: "volsim"}
	p.SetC("kind", 0)
	p.SetC("faults", 1)
	if idx%3 == 1 {
		p.SetC("v2", 1)
	}
	keys := rng.Range(2, 6)
	n := rng.Range(4, 24)
	// the first plans of a batch walk the boundary lengths and flag combinations systematically
	for i := 0; i < n; i++ {
		s := GenWriteStep(rng, keys, "w")
		if idx < 512 {
			c := idx*n + i
			s.A["size"] = int64([]int{1, 7, 8, 9, 255, 256, 1000, 4096}[c%8])
			s.A["name"] = int64([]int{0, 1, 7, 8, 9, 254, 255}[(c/8)%7])
			s.A["mime"] = int64([]int{0, 1, 7, 8, 9, 254, 255}[(c/56)%7])
			s.A["gz"] = int64(c / 392 % 2)
			s.A["pairs"] = int64(c / 784 % 3)
		}
		if s.A["size"] == 0 {
			s.A["size"] = 1
		}
		if rng.Chance(1, 8) && p.C("v2") == 0 {
			// (version-2 records carry no append timestamp; TTL reads on such legacy volumes are out of scope here)
			s.S = map[string]string{"ttl": []string{"3m", "1h", "2d"}[rng.Intn(3)]}
		}
		p.Add(s)
		if rng.Chance(1, 6) {
			p.Add(simkit.St("d", rng.Uint64(), "key", 1+rng.Intn(keys)))
		}
		if rng.Chance(1, 6) {
			p.Add(simkit.St("scan", rng.Uint64()))
		}
	}
	p.Add(simkit.St("scan", rng.Uint64()))
	p.Add(simkit.St("check", rng.Uint64()))
	nf := rng.Range(1, 6)
	for i := 0; i < nf; i++ {
		k := 1 + rng.Intn(keys)
		p.Add(simkit.St("flip", rng.Uint64(), "key", k, "off", rng.Intn(1<<20), "bit", rng.Intn(8)))
		p.Add(simkit.St("r", rng.Uint64(), "key", k))
	}
	return p
}

func ttlChoices() []string {
	// the last two exceed 2^32 seconds (arithmetic in 32-bit seconds wraps above 136 years)
	return []string{"1m", "2m", "3m", "5m", "59m", "1h", "2h", "1d", "1w", "1M", "1y", "137y", "200y"}
}

func genAdv(rng *simkit.Rand, volTtlMin int) simkit.Step {
	sec := 0
	switch rng.Pick(3, 3, 2, 1) {
	case 0:
		sec = rng.Range(1, 50)
	case 1:
		sec = 60 * rng.Range(1, 6)
	case 2:
		if volTtlMin > 0 {
			// land just before or just after an expiry instant
			sec = volTtlMin*60 + []int{-61, -2, -1, 0, 1, 2, 61}[rng.Intn(7)]
		} else {
			sec = rng.Range(100, 4000)
		}
	default:
		sec = rng.Range(3600, 90000)
	}
	if sec < 1 {
		sec = 1
	}
	return simkit.St("adv", rng.Uint64(), "sec", sec)
}

// C04 — compaction is invisible to readers: twin volume, both algorithms,
// writes/deletes released while the compaction is parked at its yield points.
func genC04(tier string, seed uint64, idx int) *simkit.Plan {
	rng := simkit.NewRand(seed)
	p := &simkit.Plan{Engine: "volsim"}
	genKind(rng, p)
	p.SetC("twin", 1)
	volTtlMin := 0
	if rng.Chance(1, 3) {
		t := ttlChoices()[rng.Intn(6)]
		p.SetCS("volttl", t)
		volTtlMin = int(ttlMinutes(t))
	}
	keys := rng.Range(1, 5)
	empties := rng.Chance(1, 6)
	oldts := rng.Chance(1, 4)
	ownTtl := rng.Chance(1, 6)
	op := func() {
		s := genOp(rng, keys, 5, 3, 1)
		if s.Kind == "w" {
			if s.A["size"] == 0 && !empties {
				s.A["size"] = int64(rng.Range(1, 9))
			}
			if s.A["size"] > 4096 {
				s.A["size"] = 4096
			}
			if !oldts {
				s.A["lm"] = 0
			}
			if ownTtl && rng.Chance(1, 2) {
				s.S = map[string]string{"ttl": ttlChoices()[rng.Intn(6)]}
			}
		}
		p.Add(s)
		if volTtlMin > 0 && rng.Chance(1, 4) || rng.Chance(1, 12) {
			p.Add(genAdv(rng, volTtlMin))
		}
	}
	rounds := rng.Range(1, 3)
	for round := 0; round < rounds; round++ {
		for i, n := 0, rng.Range(1, 10); i < n; i++ {
			op()
		}
		algo := 1 + rng.Intn(2)
		if algo == 1 && rng.Chance(4, 5) {
			// keep most algorithm-1 rounds clear of the recorded "largest key is not the last
			// record" finding: append a fresh largest key right before the compaction
			s := GenWriteStep(rng, 1, "w")
			s.A["key"] = int64(100 + round)
			s.A["size"] = int64(rng.Range(1, 40))
			s.A["lm"] = 0
			p.Add(s)
		}
		park := rng.Chance(3, 4)
		visits := rng.Chance(1, 3)
		p.Add(simkit.St("cstart", rng.Uint64(), "algo", algo, "park", park, "visits", visits))
		for i, n := 0, rng.Range(0, 5); i < n; i++ {
			op()
			if visits && rng.Chance(1, 2) {
				p.Add(simkit.St("crel", rng.Uint64(), "n", rng.Range(1, 3)))
			}
		}
		p.Add(simkit.St("cfinish", rng.Uint64()))
		for i, n := 0, rng.Range(0, 3); i < n; i++ {
			op()
		}
		if rng.Chance(1, 12) {
			p.Add(simkit.St("cleanup", rng.Uint64()))
			continue
		}
		cpark := rng.Chance(1, 2)
		p.Add(simkit.St("commit", rng.Uint64(), "park", cpark))
		if cpark {
			for i, n := 0, rng.Range(0, 3); i < n; i++ {
				op()
			}
			p.Add(simkit.St("commitrel", rng.Uint64()))
		}
		if rng.Chance(1, 3) {
			p.Add(simkit.St("restart", rng.Uint64()))
			p.Add(simkit.St("check", rng.Uint64()))
		}
	}
	return p
}

// C05 — needle maps, the on-disk index and the counters agree across reloads.
func genC05(tier string, seed uint64, idx int) *simkit.Plan {
	rng := simkit.NewRand(seed)
	p := &simkit.Plan{Engine: "volsim"}
	if idx%3 == 2 {
		genC05Map(rng, p, idx)
		return p
	}
	p.SetC("kind", int64(idx%2))
	p.SetC("counters", 1)
	p.SetC("faults", 1)
	order := rng.Intn(4)
	nkeys := rng.Range(2, 12)
	if rng.Chance(1, 10) {
		nkeys = rng.Range(100, 400)
	}
	empties := rng.Chance(1, 8)
	keyOf := func(i int) int64 {
		switch order {
		case 0: // ascending
			return int64(1 + i)
		case 1: // descending
			return int64(1 + nkeys - i)
		case 2: // far apart, crossing 32-bit sections
			return int64(1+i) * 3000000011 % (1 << 40)
		default: // random with repeats
			return int64(1 + rng.Intn(nkeys))
		}
	}
	n := rng.Range(nkeys, nkeys*3)
	for i := 0; i < n; i++ {
		k := keyOf(i % (nkeys + 1))
		switch rng.Pick(6, 3, 2, 1) {
		case 0:
			s := GenWriteStep(rng, 1, "w")
			s.A["key"] = k
			if s.A["size"] > 600 {
				s.A["size"] = int64(rng.Range(1, 600))
			}
			if s.A["size"] == 0 && !empties {
				s.A["size"] = 3
			}
			p.Add(s)
		case 1:
			p.Add(simkit.St("d", rng.Uint64(), "key", k))
		case 2:
			p.Add(simkit.St("r", rng.Uint64(), "key", k))
		default:
			p.Add(simkit.St("restart", rng.Uint64()))
			p.Add(simkit.St("check", rng.Uint64()))
		}
	}
	p.Add(simkit.St("restart", rng.Uint64()))
	return p
}

// C09 — TTL data lives exactly as long as promised (volume level: reads around
// expiry instants, compaction and heartbeat-driven volume expiry at chosen instants).
func genC09(tier string, seed uint64, idx int) *simkit.Plan {
	rng := simkit.NewRand(seed)
	p := &simkit.Plan{Engine: "volsim"}
	genKind(rng, p)
	p.SetC("faults", 1)
	volTtl := ttlChoices()[rng.Intn(len(ttlChoices()))]
	if rng.Chance(1, 2) {
		volTtl = ttlChoices()[rng.Intn(5)]
	}
	mode := rng.Intn(3) // 0: blob ttl = volume ttl (the deployed case), 1: blob ttl differs, 2: volume without ttl
	switch mode {
	case 2:
		volTtl = ""
	}
	p.SetCS("volttl", volTtl)
	volMin := int(ttlMinutes(volTtl))
	keys := rng.Range(1, 4)
	clientTs := rng.Chance(1, 3)
	rewrites := rng.Chance(1, 3)
	maxKey := 100
	bigAdv := false
	n := rng.Range(4, 20)
	for i := 0; i < n; i++ {
		switch rng.Pick(4, 1, 4, 4, 1, 1) {
		case 0:
			s := GenWriteStep(rng, keys, "w")
			if s.A["size"] == 0 {
				s.A["size"] = 5
			}
			if s.A["size"] > 2000 {
				s.A["size"] = 100
			}
			if !clientTs {
				s.A["lm"] = 0
			}
			if mode != 0 && rng.Chance(2, 3) {
				s.S = map[string]string{"ttl": ttlChoices()[rng.Intn(len(ttlChoices()))]}
			}
			if rewrites && rng.Chance(1, 2) {
				// identical re-uploads (same bytes, same key) some time after the first one
				s.A["dup"] = int64(1 + rng.Intn(2))
				s.A["size"] = 12
				s.A["lm"] = 0
			}
			p.Add(s)
		case 1:
			p.Add(simkit.St("d", rng.Uint64(), "key", 1+rng.Intn(keys)))
		case 2:
			p.Add(simkit.St("r", rng.Uint64(), "key", 1+rng.Intn(keys)))
		case 3:
			m := volMin
			if m == 0 || rng.Chance(1, 3) {
				m = int(ttlMinutes(ttlChoices()[rng.Intn(6)]))
			}
			if wrapped := int64(volMin) * 60 % (1 << 32); int64(volMin)*60 >= 1<<32 && !bigAdv && rng.Chance(1, 2) {
				// a TTL above 2^32 seconds: a clock jump ages the blobs to where 32-bit second arithmetic would place
				// the expiry (once per run: the clock must stay below the year 2262)
				bigAdv = true
				p.Add(simkit.St("jump", rng.Uint64(), "sec", wrapped+[]int64{-2, 1, 61, 86400}[rng.Intn(4)]))
			} else if int64(m)*60 < 1<<31 {
				p.Add(genAdv(rng, m))
			}
			p.Add(simkit.St("check", rng.Uint64()))
		case 4:
			algo := 1 + rng.Intn(2)
			if algo == 1 {
				// stay clear of the algorithm-1 record-order finding (C04's business): a fresh largest key goes last
				maxKey++
				p.Add(simkit.St("w", rng.Uint64(), "key", maxKey, "size", rng.Range(1, 30)))
			}
			p.Add(simkit.St("cstart", rng.Uint64(), "algo", algo))
			p.Add(simkit.St("cfinish", rng.Uint64()))
			p.Add(simkit.St("commit", rng.Uint64()))
		default:
			p.Add(simkit.St("hb", rng.Uint64()))
			p.Add(simkit.St("check", rng.Uint64()))
		}
	}
	return p
}

var _ = fmt.Sprint
