package volsim

import (
	"fmt"
	"os"
	"path/filepath"
	"runtime"
	"sort"
	"strings"
	"sync/atomic"
	"time"

	"verifsim/simkit"

	"github.com/anishathalye/porcupine"
	"github.com/chrislusf/seaweedfs/weed/storage"
)

// C38 — concurrent volume operations are linearizable per file id.
//
// 2-4 client goroutines are parked on gates; the plan releases one operation
// at a time. Uploads taking the batched (fsync) path block until the volume's
// async worker has processed their batch; the worker itself is parked by the
// scheduler right after it received the first request of a batch (H2 yield)
// while more requests are enqueued, so the composition of batches is a plan
// choice. Invoke/return events are stamped with the global event sequence and
// the history is checked with porcupine against a per-key register.

func init() {
	simkit.Register(&simkit.Prop{ID: "C38", Gen: genC38, Exec: execC38, Teardown: checkC38})
}

type linIn struct {
	Kind  string // w d r x
	Key   uint64
	Val   int
	Fsync bool // batched (fsync) upload: informational, the model ignores it
}
type linOut struct {
	OK       bool
	NotFound bool
	Val      int
	Err      string
}

type c38hist struct {
	ops        []porcupine.Operation
	syncFailed bool
	desc       []string
}

type c38client struct {
	id   int
	gate chan *simkit.Step
	busy bool
	call uint64
	in   linIn
	out  *linOut
	fin  int32 // set (atomically) by the client goroutine once out is written
}

func (c *c38client) done() bool { return atomic.LoadInt32(&c.fin) == 1 }

func genC38(tier string, seed uint64, idx int) *simkit.Plan {
	rng := simkit.NewRand(seed)
	p := &simkit.Plan{Engine: "volsim"}
	genKind(rng, p)
	clients := rng.Range(2, 4)
	keys := rng.Range(1, 3)
	p.SetC("clients", int64(clients))
	stopping := rng.Chance(2, 3)
	if stopping {
		p.SetC("stopping", 1) // fsync uploads take the batched path only while the store is stopping
	}
	faults := idx%4 == 3
	if faults {
		p.SetC("faults", 1)
	}
	n := rng.Range(6, 22)
	parked := false
	for i := 0; i < n; i++ {
		switch x := rng.Intn(100); {
		case x < 22 && stopping && !parked:
			p.Add(simkit.St("park", rng.Uint64()))
			parked = true
		case x < 34 && parked:
			p.Add(simkit.St("unpark", rng.Uint64()))
			parked = false
		case x < 38 && faults && stopping:
			p.Add(simkit.St("syncfail", rng.Uint64()))
		case x >= 92 && !parked:
			// two operations truly overlap: the first stalls inside the data file (slow disk) with whatever lock
			// it holds, the second is issued meanwhile
			k := 1 + rng.Intn(keys)
			k2 := k
			if rng.Chance(1, 3) {
				k2 = 1 + rng.Intn(keys)
			}
			fs := 0
			if stopping && rng.Chance(1, 2) {
				// the first operation is a batched upload: it is the volume's batch worker that stalls in the data file
				fs = 1
				if faults && rng.Chance(1, 2) {
					p.Add(simkit.St("syncfail", rng.Uint64()))
				}
			}
			p.Add(simkit.St("overlap", rng.Uint64(), "fsync", fs, "kind", []string{"d", "d", "w", "x"}[rng.Intn(4)], "key", k, "size", rng.Range(1, 64),
				"kind2", []string{"d", "d", "w", "r"}[rng.Intn(4)], "key2", k2, "size2", rng.Range(1, 64)))
		default:
			// x = an upload presenting ANOTHER cookie: refused when the key holds a blob (a request that fails inside a batch)
			kind := []string{"w", "w", "w", "d", "r", "r", "w", "x"}[rng.Intn(8)]
			st := simkit.St("op", rng.Uint64(), "client", rng.Intn(clients), "kind", kind, "key", 1+rng.Intn(keys), "size", rng.Range(1, 64), "fsync", rng.Chance(2, 3))
			p.Add(st)
		}
	}
	return p
}

func execC38(r *simkit.Run) {
	p := r.Plan
	r.Res.FaultConfig = p.C("faults") == 1
	kind := storage.NeedleMapKind(p.C("kind"))
	dir := filepath.Join(r.Dir, "A")
	os.MkdirAll(dir, 0755)
	st := OpenStore(dir, kind)
	defer st.Close()
	if err := AddVolume(st, kind, "000", ""); err != nil {
		r.HarnessError("add volume: %v", err)
		return
	}
	if p.C("stopping") == 1 {
		st.SetStopping()
	}
	v := st.GetVolume(VID)
	ff := &FaultFile{Inner: v.DataBackend, Fired: func(k string) { r.Fault(k) }}
	v.DataBackend = ff
	gates := simkit.NewGates(r)
	ResetHeld()
	h := &c38hist{}
	r.Data = h
	nClients := int(p.C("clients"))
	if nClients < 1 {
		nClients = 2
	}
	clients := make([]*c38client, nClients)
	valCounter := 0
	for i := range clients {
		c := &c38client{id: i, gate: make(chan *simkit.Step)}
		clients[i] = c
		go func() {
			for s := range c.gate {
				out := &linOut{}
				switch c.in.Kind {
				case "w", "x":
					cookie := CookieOf(c.in.Key)
					if c.in.Kind == "x" {
						cookie ^= 0x5a5a
					}
					a := WriteArgs{Key: c.in.Key, Cookie: cookie, Data: []byte(fmt.Sprintf("val-%06d-%s", c.in.Val, string(make([]byte, s.Int("size"))))), Fsync: s.Int("fsync") == 1}
					n, _ := BuildNeedle(a, uint64(time.Now().Unix()))
					_, err := st.WriteVolumeNeedle(VID, n, a.Fsync)
					out.OK = err == nil
					if err != nil {
						out.Err = err.Error()
					}
				case "d":
					n, _ := BuildNeedle(WriteArgs{Key: c.in.Key, Cookie: CookieOf(c.in.Key)}, 0)
					sz, err := st.DeleteVolumeNeedle(VID, n)
					out.OK = err == nil
					if sz > 0 {
						out.Val = 1 // something was removed
					}
					if err != nil {
						out.Err = err.Error()
					}
				case "r":
					rr := ReadBlob(st, c.in.Key, CookieOf(c.in.Key))
					if rr.HeldChanged != "" {
						out.Err = "HELD-READ-CHANGED: " + rr.HeldChanged
					}
					switch {
					case rr.NotFound():
						out.OK, out.NotFound = true, true
					case rr.Err == nil && len(rr.N.Data) > 0 && uint32(rr.N.Cookie) != CookieOf(c.in.Key):
						// the volume server's read handler answers 404 when the stored cookie differs from the requested one
						out.OK, out.NotFound = true, true
					case rr.Err != nil:
						out.Err = rr.Err.Error()
					default:
						out.OK = true
						fmt.Sscanf(string(rr.N.Data), "val-%06d-", &out.Val)
						if out.Val == 0 {
							out.Val = -1 // bytes that no client wrote
						}
					}
				}
				c.out = out
				atomic.StoreInt32(&c.fin, 1)
			}
		}()
	}
	collect := func() {
		// record returns of every operation that has completed, in client order
		for _, c := range clients {
			if c.busy && c.done() {
				ret := r.Seq()
				h.ops = append(h.ops, porcupine.Operation{ClientId: c.id, Input: c.in, Call: int64(c.call), Output: *c.out, Return: int64(ret)})
				d := fmt.Sprintf("c%d %s key=%d val=%d [%d,%d] -> ok=%v nf=%v val=%d err=%s", c.id, c.in.Kind, c.in.Key, c.in.Val, c.call, ret, c.out.OK, c.out.NotFound, c.out.Val, c.out.Err)
				h.desc = append(h.desc, d)
				r.Log("return %s", d)
				if strings.HasPrefix(c.out.Err, "HELD-READ-CHANGED") {
					r.Violate("read-result-changed-after-return", "held-across-the-next-read", "%s", c.out.Err)
				}
				r.Abs(fmt.Sprintf("ret:%s:%v", c.in.Kind, c.out.OK))
				c.busy, c.out = false, nil
				atomic.StoreInt32(&c.fin, 0)
			}
		}
	}
	prep := func(c *c38client, s *simkit.Step) {
		c.in = linIn{Kind: s.Str("kind"), Key: uint64(s.Int("key")), Fsync: s.Int("fsync") == 1}
		if c.in.Kind == "w" || c.in.Kind == "x" {
			valCounter++
			c.in.Val = valCounter
		}
		c.busy, c.out = true, nil
		atomic.StoreInt32(&c.fin, 0)
		c.call = r.Seq()
		r.Log("invoke c%d %s key=%d val=%d fsync=%d", c.id, c.in.Kind, c.in.Key, c.in.Val, s.Int("fsync"))
		r.Abs("inv:" + c.in.Kind)
	}
	issue := func(c *c38client, s *simkit.Step) {
		prep(c, s)
		c.gate <- s
		simkit.Wait()
		collect()
	}
	pendingMax := 0
	for i := range p.Steps {
		s := &p.Steps[i]
		switch s.Kind {
		case "op":
			c := clients[int(s.Int("client"))%len(clients)]
			if c.busy {
				continue // that client is still inside an earlier call
			}
			issue(c, s)
			busy := 0
			for _, c := range clients {
				if c.busy {
					busy++
				}
			}
			if busy > pendingMax {
				pendingMax = busy
			}
			if busy >= 2 {
				r.Probe("two-or-more-operations-in-flight")
				r.NonTrivial()
			}
		case "overlap":
			a, b := clients[0], clients[1]
			if a.busy || b.busy {
				continue
			}
			sa := simkit.St("op", s.Seed, "client", 0, "kind", s.Str("kind"), "key", s.Int("key"), "size", s.Int("size"), "fsync", s.Int("fsync"))
			if sa.Str("kind") != "w" {
				sa.A["fsync"] = 0
			}
			sb := simkit.St("op", simkit.Mix(s.Seed, 2), "client", 1, "kind", s.Str("kind2"), "key", s.Int("key2"), "size", s.Int("size2"), "fsync", 0)
			release := ff.ParkNextStat()
			issue(a, &sa) // returns once the first operation is parked inside the data file (or has finished)
			stalled := atomic.LoadInt32(&ff.Parked) == 1
			// the second operation may now wait for a lock the first one holds (a sync.Mutex wait is not something
			// the bubble can wait out), so from here on no quiescence wait: spin, watch, release
			prep(b, &sb)
			b.gate <- &sb
			overlapped := false
			for i := 0; i < 3000 && stalled; i++ {
				if b.busy && b.done() {
					overlapped = true
					break
				}
				runtime.Gosched()
			}
			if overlapped {
				collect() // the second operation returned while the first was still inside the data file
				r.Probe("second-operation-completed-while-first-stalled-in-the-data-file")
			}
			release()
			for i := 0; (a.busy && !a.done()) || (b.busy && !b.done()); i++ {
				runtime.Gosched()
				if i > 100000000 {
					r.HarnessError("overlapping operations did not finish")
					return
				}
			}
			simkit.Wait()
			collect()
			if stalled {
				r.Fault("operation-stalled-in-data-file-while-another-is-issued")
				r.NonTrivial()
			}
			// what the two operations left behind is read back at once
			for _, k := range []int64{s.Int("key"), s.Int("key2")} {
				rs := simkit.St("op", 0, "client", 0, "kind", "r", "key", k)
				issue(clients[0], &rs)
			}
			r.Abs("overlap")
		case "park":
			gates.Arm("vol.worker.afterRecv")
			r.Abs("park")
		case "unpark":
			gates.Disarm("vol.worker.afterRecv")
			for gates.Release("") {
				simkit.Wait()
			}
			simkit.Wait()
			collect()
			r.Abs("unpark")
		case "syncfail":
			ff.NextSync = true
			h.syncFailed = true
			r.Abs("syncfail")
		}
	}
	gates.ReleaseAll()
	simkit.Wait()
	collect()
	for _, c := range clients {
		if c.busy {
			r.HarnessError("client %d never returned from %s key=%d", c.id, c.in.Kind, c.in.Key)
			return
		}
	}
	// the volume contents afterwards must match the order: final reads join the history
	keys := map[uint64]bool{}
	for _, o := range h.ops {
		keys[o.Input.(linIn).Key] = true
	}
	var ks []uint64
	for k := range keys {
		ks = append(ks, k)
	}
	sort.Slice(ks, func(i, j int) bool { return ks[i] < ks[j] })
	for _, k := range ks {
		fs := simkit.St("op", 0, "client", 0, "kind", "r", "key", int(k))
		issue(clients[0], &fs)
	}
	for _, c := range clients {
		close(c.gate)
	}
	r.Count(fmt.Sprintf("max-in-flight-%d", pendingMax))
}

var registerModel = porcupine.NondeterministicModel{
	Partition: func(history []porcupine.Operation) [][]porcupine.Operation {
		m := map[uint64][]porcupine.Operation{}
		var keys []uint64
		for _, o := range history {
			k := o.Input.(linIn).Key
			if _, ok := m[k]; !ok {
				keys = append(keys, k)
			}
			m[k] = append(m[k], o)
		}
		sort.Slice(keys, func(i, j int) bool { return keys[i] < keys[j] })
		var out [][]porcupine.Operation
		for _, k := range keys {
			out = append(out, m[k])
		}
		return out
	},
	Init: func() []interface{} { return []interface{}{0} },
	Step: func(state, input, output interface{}) []interface{} {
		s := state.(int)
		in := input.(linIn)
		out := output.(linOut)
		// state: 0 = no blob; v > 0 = value v stored under the key's own cookie; v < 0 = value -v stored under the other cookie
		switch in.Kind {
		case "w":
			if out.OK {
				return []interface{}{in.Val}
			}
			return []interface{}{s, in.Val} // a failed upload may or may not have applied
		case "x":
			if out.OK {
				if s > 0 {
					return nil // an upload with another cookie over a stored blob must be refused
				}
				return []interface{}{-in.Val}
			}
			return []interface{}{s, -in.Val}
		case "d":
			if out.OK {
				// a delete reports whether it removed something: exactly one of two deletes of a blob does
				if (out.Val > 0) != (s != 0) {
					return nil
				}
				return []interface{}{0}
			}
			return []interface{}{s, 0}
		default:
			switch {
			case !out.OK:
				return []interface{}{s} // a read error carries no information
			case out.NotFound:
				if s <= 0 { // absent, or stored under the other cookie (the read handler answers 404)
					return []interface{}{s}
				}
				return nil
			default:
				if s > 0 && s == out.Val {
					return []interface{}{s}
				}
				return nil
			}
		}
	},
	Equal: func(a, b interface{}) bool { return a.(int) == b.(int) },
}

// checkC38 runs outside the bubble (porcupine uses real-time timeouts).
func checkC38(r *simkit.Run) {
	h, _ := r.Data.(*c38hist)
	if h == nil || len(h.ops) == 0 || r.Violated() || r.Res.HarnessError != "" {
		return
	}
	// each key is judged on its own: the recorded fsync-rollback finding explains an illegal history only for a
	// key that was itself written in a failed batch
	byKey := map[uint64][]porcupine.Operation{}
	var keys []uint64
	for _, o := range h.ops {
		k := o.Input.(linIn).Key
		if _, ok := byKey[k]; !ok {
			keys = append(keys, k)
		}
		byKey[k] = append(byKey[k], o)
	}
	sort.Slice(keys, func(i, j int) bool { return keys[i] < keys[j] })
	for _, k := range keys {
		// the part of the key's history that lies before its first write in a failed batch is judged strictly;
		// the whole history only with the recorded finding's key
		taintCall := int64(-1)
		for _, o := range byKey[k] {
			if in, out := o.Input.(linIn), o.Output.(linOut); h.syncFailed && in.Fsync && !out.OK {
				if taintCall < 0 || o.Call < taintCall {
					taintCall = o.Call
				}
			}
		}
		strict := byKey[k]
		if taintCall >= 0 {
			strict = nil
			for _, o := range byKey[k] {
				if o.Return < taintCall {
					strict = append(strict, o)
				}
			}
		}
		describe := func() string {
			msg := ""
			for _, d := range h.desc {
				msg += "\n  " + d
			}
			return msg
		}
		for _, o := range strict {
			if in, out := o.Input.(linIn), o.Output.(linOut); in.Kind == "r" && !out.OK {
				r.Violate("read-error", "key-not-written-in-any-failed-batch", "a read of key %d failed (%s) although no operation on that key had been part of a failed batch:%s", k, out.Err, describe())
				return
			}
		}
		for pass, ops := range [][]porcupine.Operation{strict, byKey[k]} {
			if len(ops) == 0 || (pass == 1 && taintCall < 0) {
				continue
			}
			switch porcupine.CheckOperationsTimeout(registerModel.ToModel(), ops, 20*time.Second) {
			case porcupine.Illegal:
				key := "register"
				if pass == 1 {
					key = "history-with-failed-fsync-batch"
				}
				r.Violate("not-linearizable", key, "no sequential order of the operations on key %d respects their real-time order and results:%s", k, describe())
				return
			case porcupine.Unknown:
				r.Inconclusive("porcupine timed out on %d operations", len(ops))
			}
		}
	}
}
