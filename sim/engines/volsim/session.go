package volsim

import (
	"fmt"
	"github.com/chrislusf/seaweedfs/weed/verif"
	"os"
	"path/filepath"
	"strings"
	"time"

	"verifsim/simkit"

	"bytes"
	weed_server "github.com/chrislusf/seaweedfs/weed/server"
	"github.com/chrislusf/seaweedfs/weed/storage"
	"github.com/chrislusf/seaweedfs/weed/storage/needle"
	"github.com/chrislusf/seaweedfs/weed/storage/super_block"
	"github.com/chrislusf/seaweedfs/weed/storage/types"
	"net/http/httptest"
)

// A session is a step-by-step execution of a plan against one live volume
// ("A"), a reference map stepped alongside, and optionally a twin volume
// ("B") that receives the same operations but is never compacted.
//
// Step kinds:
//	w d r        upload / delete / read-and-compare one key
//	ro rw        mark the volume read-only / writable
//	restart      clean close + reopen through a fresh Store (counters compared)
//	adv          advance the fake clock
//	fault        arm the next data-file write / sync / truncate to fail
//	flip         flip one stored data byte of a key's current record
//	scan         scan the data file record by record
//	cstart crel cfinish commit commitrel cleanup    compaction under the gate scheduler
//	hb           run the store's heartbeat collection (TTL volume expiry)
//	check        compare every key with the model (and the twin)

type mblob struct {
	Blob
	appendAt time.Time
	ttlMin   uint32
	alts     []*mblob // after a faulted operation: the key holds one of these (nil entry = absent)
	corrupt  bool     // a stored data byte was flipped: reads must fail
	phase    string   // compaction phase in which the last operation on the key happened
}

func (m *mblob) liveAt(now time.Time) bool {
	if m == nil || !m.Live() {
		return false
	}
	if m.ttlMin == 0 {
		return true
	}
	return now.Before(m.appendAt.Add(time.Duration(m.ttlMin) * time.Minute))
}

func ttlMinutes(s string) uint32 {
	if s == "" {
		return 0
	}
	unit := s[len(s)-1]
	cnt := 0
	fmt.Sscanf(s[:len(s)-1], "%d", &cnt)
	switch unit {
	case 'm':
		return uint32(cnt)
	case 'h':
		return uint32(cnt) * 60
	case 'd':
		return uint32(cnt) * 60 * 24
	case 'w':
		return uint32(cnt) * 60 * 24 * 7
	case 'M':
		return uint32(cnt) * 60 * 24 * 30
	case 'y':
		return uint32(cnt) * 60 * 24 * 365
	}
	return 0
}

type node struct {
	dir string
	st  *storage.Store
	ff  *FaultFile
}

type appended struct {
	key  uint64
	size int // payload length
}

type sess struct {
	r                  *simkit.Run
	prop               string
	kind               storage.NeedleMapKind
	volTtl             string
	A, B               *node
	model              map[uint64]*mblob
	gates              *simkit.Gates
	phase              string
	readOnly           bool
	cdone              chan error // running compaction
	mdone              chan error // running commit
	calgo              int
	compacted          bool
	records            []appended // what the harness appended to A's data file since creation / last commit
	scanOK             bool
	volumeGone         bool
	advs               int
	heldEmpty          map[uint64]bool // keys that ever received an empty payload (see known_findings.json)
	syncFailed         map[uint64]bool // keys written in a batch whose fsync failed (rollback path)
	unchangedRewrite   map[uint64]bool // keys whose last upload was answered "unchanged"
	lastStep           bool
	rewrittenUnchanged map[uint64]bool // C09: keys whose last upload was an identical rewrite answered "unchanged"
	clockJump          time.Duration   // sum of the clock jumps injected so far (verif.StepClock)
	orderHazard        bool            // at the last algorithm-1 compaction the largest live key was not the last appended record
	appendOrd          map[uint64]int
	ordCounter         int
}

func (s *sess) open(n *node) {
	n.st = OpenStore(n.dir, s.kind)
	n.st.SetVolumeSizeLimit(30 * 1024 * 1024 * 1024)
}

func (s *sess) vol(n *node) *storage.Volume { return n.st.GetVolume(VID) }

func (s *sess) wrapFaults(n *node) {
	v := s.vol(n)
	if v == nil || v.DataBackend == nil {
		return
	}
	if ff, ok := v.DataBackend.(*FaultFile); ok {
		n.ff = ff
		return
	}
	n.ff = &FaultFile{Inner: v.DataBackend, Fired: func(kind string) { s.r.Fault(kind) }}
	v.DataBackend = n.ff
}

func newSess(r *simkit.Run, prop string) *sess {
	ResetHeld()
	p := r.Plan
	s := &sess{r: r, prop: prop, kind: storage.NeedleMapKind(p.C("kind")), volTtl: p.CS("volttl"), model: map[uint64]*mblob{}, phase: "before", scanOK: true}
	s.A = &node{dir: filepath.Join(r.Dir, "A")}
	os.MkdirAll(s.A.dir, 0755)
	s.open(s.A)
	if err := AddVolume(s.A.st, s.kind, "000", s.volTtl); err != nil {
		r.HarnessError("add volume: %v", err)
		return nil
	}
	if p.C("v2") == 1 {
		// a version-2 volume: rewrite the super block of the still empty volume and reload it
		s.A.st.Close()
		sb := super_block.SuperBlock{Version: needle.Version2, ReplicaPlacement: &super_block.ReplicaPlacement{}, Ttl: mustTTL(s.volTtl)}
		os.WriteFile(filepath.Join(s.A.dir, "7.dat"), sb.Bytes(), 0644)
		os.Remove(filepath.Join(s.A.dir, "7.vif"))
		s.open(s.A)
		if v := s.vol(s.A); v == nil || v.Version() != needle.Version2 {
			r.HarnessError("could not create a version-2 volume")
			return nil
		}
	}
	if p.C("twin") == 1 {
		s.B = &node{dir: filepath.Join(r.Dir, "B")}
		os.MkdirAll(s.B.dir, 0755)
		s.open(s.B)
		if err := AddVolume(s.B.st, s.kind, "000", s.volTtl); err != nil {
			r.HarnessError("add twin volume: %v", err)
			return nil
		}
	}
	if p.C("stopping") == 1 {
		s.A.st.SetStopping() // fsync uploads then take the batched (async worker) path
		if s.B != nil {
			s.B.st.SetStopping()
		}
	}
	s.heldEmpty = map[uint64]bool{}
	s.syncFailed = map[uint64]bool{}
	s.unchangedRewrite = map[uint64]bool{}
	s.appendOrd = map[uint64]int{}
	s.rewrittenUnchanged = map[uint64]bool{}
	s.gates = simkit.NewGates(r)
	// keep reads away from expiry instants: every later clock move adds one extra millisecond
	time.Sleep(500 * time.Millisecond)
	return s
}

func mustTTL(s string) *needle.TTL {
	t, _ := needle.ReadTTL(s)
	return t
}

func (s *sess) close() {
	if s.gates != nil {
		s.gates.ReleaseAll()
	}
	simkit.Wait()
	if s.A != nil && s.A.st != nil {
		s.A.st.Close()
	}
	if s.B != nil && s.B.st != nil {
		s.B.st.Close()
	}
}

func (s *sess) blobClass(m *mblob) string {
	if m == nil {
		return "absent"
	}
	c := "plain"
	if len(m.Data) == 0 {
		c = "empty"
	}
	if m.ttlMin > 0 {
		switch {
		case s.volTtl == "":
			c += "+ttl(vol-none)"
		case ttlMinutes(s.volTtl) == m.ttlMin:
			c += "+ttl(vol-same)"
		default:
			c += "+ttl(vol-differs)"
		}
	}
	if m.LM != 0 && m.appendAt.Unix()-int64(m.LM) > 30 {
		c += "+old-ts"
	} else if m.LM != 0 && int64(m.LM)-m.appendAt.Unix() > 30 {
		c += "+future-ts"
	}
	return c
}

// step executes one plan step. It returns false when the run should stop.
func (s *sess) step(st *simkit.Step) bool {
	r := s.r
	switch st.Kind {
	case "w":
		s.doWrite(st)
	case "d":
		s.doDelete(st)
	case "r":
		s.checkKey(uint64(st.Int("key")), "read")
	case "wc":
		s.wrongCookieAccess(uint64(st.Int("key")), uint32(st.Int("cookie")))
	case "ro":
		if err := s.A.st.MarkVolumeReadonly(VID); err == nil {
			s.readOnly = true
		}
		if s.B != nil {
			s.B.st.MarkVolumeReadonly(VID)
		}
		r.Log("ro")
		r.Abs("ro")
	case "rw":
		if err := s.A.st.MarkVolumeWritable(VID); err == nil {
			s.readOnly = false
		}
		if s.B != nil {
			s.B.st.MarkVolumeWritable(VID)
		}
		r.Log("rw")
		r.Abs("rw")
	case "restart":
		s.doRestart(st.Seed%3 == 0)
	case "adv":
		s.advs++
		d := time.Duration(st.Int("sec"))*time.Second + time.Millisecond
		time.Sleep(d)
		r.Log("adv %ds", st.Int("sec"))
		r.Abs("adv")
		r.NonTrivial()
	case "jump":
		// clock jump: the wall clock the SUT reads steps forward at once (no timer fires in between); blobs age by it
		d := time.Duration(st.Int("sec")) * time.Second
		verif.StepClock(d)
		s.clockJump += d
		s.advs++
		r.Log("clock jumps forward by %v", d)
		r.Abs("jump")
		r.Fault("clock-jump-forward")
		r.NonTrivial()
	case "fault":
		s.wrapFaults(s.A)
		if s.A.ff != nil {
			switch st.Str("kind") {
			case "eio", "enospc", "short":
				s.A.ff.NextWrite = st.Str("kind")
			case "sync":
				s.A.ff.NextSync = true
			case "trunc":
				s.A.ff.NextTrunc = true
				s.A.ff.NextWrite = "short"
			}
		}
		r.Log("arm fault %s", st.Str("kind"))
		r.Abs("fault:" + st.Str("kind"))
	case "flip":
		s.doFlip(st)
	case "scan":
		s.doScan()
	case "cstart":
		s.compactStart(int(st.Int("algo")), st.Int("park") == 1, st.Int("visits") == 1)
	case "crel":
		for i := int64(0); i < st.Int("n"); i++ {
			if !s.gates.Release("") {
				break
			}
			simkit.Wait()
		}
		r.Abs("crel")
	case "cfinish":
		s.compactFinish()
	case "commit":
		s.commitStart(st.Int("park") == 1)
	case "commitrel":
		s.commitFinish()
	case "cleanup":
		s.compactFinish()
		if s.mdone == nil {
			s.A.st.CommitCleanupVolume(VID)
			s.phase = "before"
			r.Log("cleanup")
			r.Abs("cleanup")
		}
	case "hb":
		hb := s.A.st.CollectHeartbeat()
		r.Log("heartbeat volumes=%d", len(hb.Volumes))
		r.Abs("hb")
		if s.vol(s.A) == nil && !s.volumeGone {
			s.volumeGone = true
			r.Probe("ttl-volume-deleted-by-heartbeat")
			now := s.now()
			for _, k := range sortedModelKeys(s.model) {
				m := s.model[k]
				if m != nil && m.alts == nil && m.liveAt(now) {
					r.Violate("volume-expired-with-live-blob", s.causeKey(k, m, s.blobClass(m)), "heartbeat deleted the TTL volume (ttl %q) while key=%d is still within its TTL: %s", s.volTtl, k, describe([]*mblob{m}, now))
					break
				}
			}
		}
	case "check":
		s.checkAll("check")
	}
	return !r.Violated() && r.Res.HarnessError == ""
}

func (s *sess) now() time.Time { return time.Now().Add(s.clockJump) }

func (s *sess) doWrite(st *simkit.Step) {
	r := s.r
	a := ArgsFromStep(st, CookieOf)
	if a.Ttl == "" && st.Str("ttl") != "" {
		a.Ttl = st.Str("ttl")
	}
	before := s.model[a.Key]
	if len(a.Data) == 0 {
		s.heldEmpty[a.Key] = true
	}
	n, err := BuildNeedle(a, uint64(s.now().Unix()))
	if err != nil {
		r.HarnessError("build needle: %v", err)
		return
	}
	faultArmed := s.A.ff != nil && (s.A.ff.NextWrite != "" || s.A.ff.NextSync || s.A.ff.NextTrunc)
	syncArmed := s.A.ff != nil && s.A.ff.NextSync
	t0 := s.now()
	unchanged, werr := s.A.st.WriteVolumeNeedle(VID, n, a.Fsync)
	faultFired := faultArmed && !(s.A.ff.NextWrite != "" || s.A.ff.NextSync)
	if syncArmed && !s.A.ff.NextSync {
		s.syncFailed[a.Key] = true
	}
	if s.A.ff != nil {
		s.A.ff.NextWrite, s.A.ff.NextSync, s.A.ff.NextTrunc = "", false, false
	}
	r.Log("w key=%d len=%d ttl=%s fsync=%v -> unchanged=%v err=%v", a.Key, len(a.Data), a.Ttl, a.Fsync, unchanged, werr)
	r.Abs(fmt.Sprintf("w:%v", werr == nil))
	ttl := a.Ttl
	if ttl == "" {
		ttl = s.volTtl
	}
	after := &mblob{Blob: BlobFromArgs(a, n, s.volTtl), appendAt: t0, ttlMin: ttlMinutes(ttl), phase: s.phase}
	if unchanged && s.prop == "C09" && before != nil && before.alts == nil {
		// C09: the rewrite is a successful upload with a TTL, so the blob must stay readable until
		// THIS upload's TTL has elapsed; the stored record (metadata) is whatever it was
		c := *before
		c.appendAt, c.ttlMin, c.phase = t0, after.ttlMin, s.phase
		s.rewrittenUnchanged[a.Key] = true
		after = &c
	} else if unchanged && s.prop != "C01" && before != nil && before.alts == nil {
		// identical rewrite answered "unchanged": nothing is appended and the stored record stays as
		// it is. What that does to the metadata of the upload is C01's clause (and recorded finding);
		// the other properties follow the stored record.
		after = before
	} else if unchanged {
		// C01: the statement promises the metadata of this, the last successful, upload;
		// the stored record keeps its age (TTL clock)
		s.unchangedRewrite[a.Key] = true
		if before != nil && before.alts == nil {
			after.appendAt = before.appendAt
		}
	} else if !unchanged && werr == nil {
		delete(s.unchangedRewrite, a.Key)
		delete(s.rewrittenUnchanged, a.Key)
	}
	wrongCookie := false
	if before != nil && before.alts == nil && before.Exists && before.Cookie != a.Cookie {
		wrongCookie = true
	}
	switch {
	case wrongCookie && werr != nil:
		// an upload presenting another cookie than the stored one is refused: nothing changes
		r.Probe("wrong-cookie-upload-refused")
		return
	case wrongCookie && werr == nil && before.Live() && len(before.Data) > 0 && !s.heldEmpty[a.Key]:
		r.Violate("wrong-cookie-upload-accepted", "live-blob", "upload of key=%d with cookie %x was acknowledged (unchanged=%v) although the stored blob has cookie %x", a.Key, a.Cookie, unchanged, before.Cookie)
		return
	case s.volumeGone:
		if werr == nil {
			r.Violate("write-accepted-on-missing-volume", "w", "write key=%d succeeded although the volume was deleted", a.Key)
		}
	case s.readOnly:
		if werr == nil {
			r.Violate("write-on-read-only", "w", "write key=%d to a read-only volume was accepted", a.Key)
		}
	case werr != nil && !faultFired && !(before != nil && before.alts != nil):
		wclass, wkey := "write-failed", s.blobClass(after)
		if s.anySyncFailed() {
			// the recorded fsync-rollback finding leaves stale index entries that later operations trip over
			wclass, wkey = "inconsistent-after-failed-fsync-batch", "later-operation-on-that-volume-fails"
		}
		r.Violate(wclass, wkey, "write key=%d len=%d on a healthy writable volume failed: %v", a.Key, len(a.Data), werr)
	case werr != nil:
		// a faulted operation (or an operation on a key an earlier fault left undecided)
		// may fail or may have taken effect, never a third thing
		if !faultFired {
			r.Probe("op-failed-on-key-left-undecided-by-earlier-fault")
		}
		s.model[a.Key] = &mblob{alts: append(candsOf(before), after), phase: s.phase}
	default:
		s.model[a.Key] = after
		if !unchanged {
			s.records = append(s.records, appended{a.Key, len(a.Data)})
			s.ordCounter++
			s.appendOrd[a.Key] = s.ordCounter
		}
	}
	if faultFired && werr == nil && !unchanged {
		r.Probe("write-succeeded-despite-fault")
	}
	if s.B != nil && werr == nil {
		nb, _ := BuildNeedle(a, uint64(s.now().Unix()))
		nb.LastModified = n.LastModified
		if _, err := s.B.st.WriteVolumeNeedle(VID, nb, false); err != nil && !s.readOnly {
			r.HarnessError("twin write failed: %v", err)
		}
	}
}

func (s *sess) doDelete(st *simkit.Step) {
	r := s.r
	key := uint64(st.Int("key"))
	n, _ := BuildNeedle(WriteArgs{Key: key, Cookie: CookieOf(key)}, 0)
	before := s.model[key]
	faultArmed := s.A.ff != nil && s.A.ff.NextWrite != ""
	size, derr := s.A.st.DeleteVolumeNeedle(VID, n)
	faultFired := faultArmed && s.A.ff.NextWrite == ""
	if s.A.ff != nil {
		s.A.ff.NextWrite, s.A.ff.NextSync, s.A.ff.NextTrunc = "", false, false
	}
	r.Log("d key=%d -> size=%d err=%v", key, size, derr)
	r.Abs(fmt.Sprintf("d:%v", derr == nil))
	wasLive := before != nil && before.alts == nil && before.liveAt(s.now())
	switch {
	case s.volumeGone:
	case s.readOnly:
		if derr == nil {
			r.Violate("delete-on-read-only", "d", "delete key=%d on a read-only volume was accepted", key)
		}
	case derr != nil && !faultFired && !(before != nil && before.alts != nil):
		dclass, dkey := "delete-failed", s.blobClass(before)
		if s.anySyncFailed() {
			dclass, dkey = "inconsistent-after-failed-fsync-batch", "later-operation-on-that-volume-fails"
		}
		r.Violate(dclass, dkey, "delete key=%d on a healthy writable volume failed: %v", key, derr)
	case derr != nil:
		alts := candsOf(before)
		for _, b := range candsOf(before) {
			if b != nil {
				c := *b
				c.Deleted = true
				alts = append(alts, &c)
			}
		}
		s.model[key] = &mblob{alts: alts, phase: s.phase}
	default:
		if before != nil && before.alts == nil && before.Exists {
			c := *before
			c.Deleted = true
			c.phase = s.phase
			s.model[key] = &c
			if wasLive {
				s.records = append(s.records, appended{key, -1})
			}
		} else if before != nil && before.alts != nil {
			var alts []*mblob
			for _, a := range before.alts {
				if a == nil {
					alts = append(alts, nil)
					continue
				}
				c := *a
				c.Deleted = true
				alts = append(alts, &c)
			}
			s.model[key] = &mblob{alts: alts, phase: s.phase}
		}
	}
	if s.B != nil && derr == nil {
		nb, _ := BuildNeedle(WriteArgs{Key: key, Cookie: CookieOf(key)}, 0)
		s.B.st.DeleteVolumeNeedle(VID, nb)
	}
}

// matchModel says whether a read outcome is what the model allows for one candidate state.
func matchModel(rr ReadResult, m *mblob, now time.Time) (bool, string) {
	if m == nil || !m.liveAt(now) {
		if rr.NotFound() {
			return true, ""
		}
		if rr.Err != nil {
			return false, "expected not-found, got error " + rr.Err.Error()
		}
		return false, fmt.Sprintf("expected not-found, got %d bytes", len(rr.N.Data))
	}
	if m.corrupt {
		if rr.Err != nil && !rr.NotFound() {
			return true, ""
		}
		if rr.Err == nil {
			if ok, _ := rr.Matches(m.Blob); !ok {
				return false, "altered stored bytes were returned instead of an error"
			}
			return false, "a record with an altered data byte was returned without error"
		}
		return false, "corrupted record reported as not found"
	}
	return rr.Matches(m.Blob)
}

// wrongCookieAccess sends a GET and then a DELETE that present another cookie than the stored
// one through the volume server's own HTTP handler (the cookie rule for reads and deletes lives
// there, not in the Store): the GET must not return the data, the DELETE must not remove it.
func (s *sess) wrongCookieAccess(key uint64, cookie uint32) {
	r := s.r
	m := s.model[key]
	if s.volumeGone || m == nil || m.alts != nil || !m.Exists || m.Cookie == cookie {
		return
	}
	live := m.liveAt(s.now()) && len(m.Data) > 0 && !s.heldEmpty[key] && !s.anySyncFailed()
	vs := weed_server.VerifNewVolumeServer(s.A.st)
	url := fmt.Sprintf("/%d,%x%08x", VID, key, cookie)
	get := httptest.NewRecorder()
	vs.VerifPrivateHandler(get, httptest.NewRequest("GET", url, nil))
	r.Log("GET %s (stored cookie %x) -> %d, %d bytes", url, m.Cookie, get.Code, get.Body.Len())
	r.Abs(fmt.Sprintf("wc-get:%d", get.Code))
	r.NonTrivial()
	r.Probe("wrong-cookie-read-through-handler")
	if get.Code < 300 || (live && get.Body.Len() >= len(m.Data) && len(m.Data) > 0 && bytes.Contains(get.Body.Bytes(), m.Data)) {
		vkey := "http-get"
		if len(m.Data) == 0 || s.heldEmpty[key] {
			vkey = "empty-blob" // recorded: a size-0 record is answered without being read, so its cookie is never compared
		}
		r.Violate("wrong-cookie-read-returned-data", vkey, "GET %s with cookie %x (stored: %x) answered %d with %d bytes", url, cookie, m.Cookie, get.Code, get.Body.Len())
		return
	}
	del := httptest.NewRecorder()
	vs.VerifPrivateHandler(del, httptest.NewRequest("DELETE", url, nil))
	r.Log("DELETE %s -> %d %s", url, del.Code, strings.TrimSpace(del.Body.String()))
	r.Abs(fmt.Sprintf("wc-del:%d", del.Code))
	r.Probe("wrong-cookie-delete-through-handler")
	if live && del.Code == 202 {
		r.Violate("wrong-cookie-delete-accepted", "http-delete", "DELETE %s with cookie %x (stored: %x) was accepted: %s", url, cookie, m.Cookie, strings.TrimSpace(del.Body.String()))
		return
	}
	// whatever it answered, nothing may have been removed
	s.checkKey(key, "read-after-wrong-cookie-delete")
}

func (s *sess) checkKey(key uint64, tag string) {
	r := s.r
	if s.volumeGone {
		return
	}
	m := s.model[key]
	cookie := CookieOf(key)
	if m != nil && m.alts == nil && m.Exists {
		cookie = m.Cookie
	}
	rr := ReadBlob(s.A.st, key, cookie)
	if rr.HeldChanged != "" {
		r.Violate("read-result-changed-after-return", "held-across-the-next-read", "%s: %s", tag, rr.HeldChanged)
		return
	}
	now := s.now()
	cands := []*mblob{m}
	if m != nil && m.alts != nil {
		cands = m.alts
	}
	ok, why := false, ""
	var hit *mblob
	for _, c := range cands {
		if good, w := matchModel(rr, c, now); good {
			ok, hit = true, c
			break
		} else {
			why = w
		}
	}
	if !ok && m != nil && m.alts != nil && rr.Err != nil && !rr.NotFound() && !m.alts[0].liveAt(now) {
		// after a faulted operation on a key that held no acknowledged data, a read may
		// fail with an error (un-acknowledged data may be lost) - it may never return data
		ok, hit = true, m
		r.Probe("read-error-after-faulted-op-on-unacked-key")
	}
	r.Log("%s key=%d -> err=%v len=%d ok=%v", tag, key, rr.Err, len(rr.N.Data), ok)
	if ok {
		if m != nil && m.alts != nil && hit != m {
			if hit == nil {
				delete(s.model, key)
			} else {
				s.model[key] = hit
			}
		}
		return
	}
	class := "wrong-data"
	var ref *mblob
	for _, c := range cands {
		if c != nil {
			ref = c
		}
	}
	wantLive := false
	for _, c := range cands {
		if c.liveAt(now) {
			wantLive = true
		}
	}
	switch {
	case rr.Err == nil && !wantLive:
		class = "readable-after-delete-or-expiry"
	case rr.NotFound() && wantLive:
		class = "lost-data"
	case rr.Err != nil && wantLive:
		class = "read-error"
	}
	if ref != nil && ref.corrupt {
		class = "corruption-not-reported"
	}
	key2 := s.blobClass(ref)
	if s.heldEmpty[key] {
		switch {
		case rr.Err == nil && len(rr.N.Data) == 0:
			key2 = "key-held-empty-blob:found-empty"
		case rr.NotFound():
			key2 = "key-held-empty-blob:not-found"
		}
	}
	if s.unchangedRewrite[key] && rr.Err == nil {
		for _, c := range cands {
			if c != nil && string(rr.N.Data) == string(c.Data) {
				key2 = "identical-data-rewrite-keeps-old-metadata"
			}
		}
	}
	if s.syncFailed[key] {
		class, key2 = "inconsistent-after-failed-fsync-batch", "key-written-in-that-batch"
	}
	if s.prop == "C09" && s.rewrittenUnchanged[key] {
		key2 = s.rewriteKey()
	} else if s.compacted {
		key2 += "/after-compaction-algo" + fmt.Sprint(s.calgo) + "/last-op-" + refPhase(ref)
		if ck := s.causeKey(key, m, ""); ck != "" && !strings.HasPrefix(key2, "key-held-empty-blob") && !strings.HasPrefix(key2, "identical-") && !strings.HasPrefix(key2, "key-written") {
			key2 = ck
		} else if strings.HasPrefix(key2, "key-held-empty-blob") {
			key2 = key2[:strings.Index(key2, "/")]
		}
	}
	r.Violate(class, key2, "%s key=%d: model %v at t=%v; got err=%v len=%d (%s)", tag, key, describe(cands, now), now.Sub(simkit.BubbleEpoch), rr.Err, len(rr.N.Data), why)
}

func refPhase(m *mblob) string {
	if m == nil {
		return "none"
	}
	return m.phase
}

func describe(cands []*mblob, now time.Time) string {
	out := ""
	for i, c := range cands {
		if i > 0 {
			out += " | "
		}
		if c == nil {
			out += "absent"
			continue
		}
		out += c.Blob.String()
		if c.ttlMin > 0 {
			out += fmt.Sprintf("[appended %v ttl %dmin live=%v]", c.appendAt.Sub(simkit.BubbleEpoch), c.ttlMin, c.liveAt(now))
		}
	}
	return out
}

func (s *sess) checkAll(tag string) {
	keys := make(map[uint64]Blob)
	for k := range s.model {
		keys[k] = Blob{}
	}
	for _, k := range sortedKeys(keys) {
		if s.r.Violated() {
			return
		}
		s.checkKey(k, tag)
	}
}

// compareTwin: immediately after a commit every key must read identically on
// the compacted volume and on the twin that was never compacted.
func (s *sess) compareTwin(tag string) {
	r := s.r
	if s.B == nil {
		return
	}
	keys := make(map[uint64]Blob)
	for k := range s.model {
		keys[k] = Blob{}
	}
	for _, k := range sortedKeys(keys) {
		ra := ReadBlob(s.A.st, k, CookieOf(k))
		rb := ReadBlob(s.B.st, k, CookieOf(k))
		m := s.model[k]
		key2 := s.causeKey(k, m, fmt.Sprintf("algo%d/%s/last-op-%s", s.calgo, s.blobClass(m), refPhase(m)))
		switch {
		case rb.Err == nil && ra.NotFound():
			r.Violate("dropped-by-compaction", key2, "%s key=%d: readable without compaction (%d bytes) but not after it (err=%v); model %v", tag, k, len(rb.N.Data), ra.Err, describe([]*mblob{m}, s.now()))
		case rb.NotFound() && ra.Err == nil:
			r.Violate("resurrected-by-compaction", key2, "%s key=%d: not found without compaction but readable after it (%d bytes)", tag, k, len(ra.N.Data))
		case rb.Err == nil && ra.Err == nil:
			bb := Blob{Exists: true, Cookie: uint32(rb.N.Cookie), Data: rb.N.Data, Name: string(rb.N.Name), Mime: string(rb.N.Mime), Pairs: string(rb.N.Pairs), LM: rb.N.LastModified, Gz: rb.N.IsCompressed(), Manifest: rb.N.IsChunkedManifest()}
			if rb.N.HasTtl() && rb.N.Ttl != nil {
				bb.Ttl = rb.N.Ttl.String()
			}
			if ok, why := ra.Matches(bb); !ok {
				r.Violate("changed-by-compaction", key2, "%s key=%d: %s", tag, k, why)
			}
		case rb.Err != nil && ra.Err != nil && rb.NotFound() != ra.NotFound():
			r.Violate("changed-by-compaction", key2, "%s key=%d: twin err=%v compacted err=%v", tag, k, rb.Err, ra.Err)
		case ra.Err != nil && !ra.NotFound() && rb.Err == nil:
			r.Violate("unreadable-after-compaction", key2, "%s key=%d: err=%v", tag, k, ra.Err)
		}
		if r.Violated() {
			return
		}
	}
}

type counters struct {
	fc, dc, cs, ds uint64
	mk             types.NeedleId
}

func (s *sess) counters(n *node) counters {
	v := s.vol(n)
	if v == nil {
		return counters{}
	}
	return counters{v.FileCount(), v.DeletedCount(), v.ContentSize(), v.DeletedSize(), v.MaxFileKey()}
}

// setMtimes makes the freshness checks of the LevelDB and sorted-file maps
// (which compare real file modification times) a function of the plan.
func (s *sess) setMtimes(n *node, stale bool) {
	tIdx := time.Unix(1600000000, 0)
	tDb := tIdx.Add(time.Hour)
	if stale {
		tDb = tIdx.Add(-time.Hour)
	}
	base := filepath.Join(n.dir, "7")
	os.Chtimes(base+".idx", tIdx, tIdx)
	os.Chtimes(filepath.Join(base+".ldb", "LOG"), tDb, tDb)
	os.Chtimes(base+".sdx", tDb, tDb)
}

func (s *sess) doRestart(stale bool) {
	r := s.r
	if s.cdone != nil || s.mdone != nil || s.volumeGone {
		return
	}
	before := s.counters(s.A)
	s.A.st.Close()
	s.A.ff = nil
	s.setMtimes(s.A, stale)
	s.open(s.A)
	r.Log("restart")
	r.Abs("restart")
	r.NonTrivial()
	r.Fault("clean-restart")
	if s.vol(s.A) == nil {
		r.Violate("reopen-failed", "clean-restart", "volume did not load after a clean restart")
		return
	}
	if s.readOnly {
		s.A.st.MarkVolumeReadonly(VID) // the flag is runtime state; the plan's notion of read-only continues
	}
	if s.r.Plan.C("stopping") == 1 {
		s.A.st.SetStopping()
	}
	after := s.counters(s.A)
	if s.r.Plan.C("counters") == 1 && before != after && (s.kind == storage.NeedleMapInMemory || s.lastStep) {
		// (LevelDB map: compared at the final restart only, so that its recorded
		// recount finding does not end every run at the first restart)
		hasEmpty := len(s.heldEmpty) > 0
		diff := ""
		if before.fc != after.fc {
			diff += "+FileCount"
		}
		if before.dc != after.dc {
			diff += "+DeletedCount"
		}
		if before.cs != after.cs {
			diff += "+ContentSize"
		}
		if before.ds != after.ds {
			diff += "+DeletedSize"
		}
		if before.mk != after.mk {
			diff += "+MaxFileKey"
		}
		key := KindName(s.kind) + ":" + diff
		if hasEmpty {
			key = KindName(s.kind) + ":(history-with-empty-blob)"
		}
		r.Violate("counters-changed-by-reload", key, "file/deleted counters and byte totals before restart %+v, after reload %+v", before, after)
	}
}

// doFlip flips one bit of one stored data byte of the key's current record.
func (s *sess) doFlip(st *simkit.Step) {
	r := s.r
	key := uint64(st.Int("key"))
	m := s.model[key]
	if m == nil || m.alts != nil || !m.Live() || m.corrupt || len(m.Data) == 0 || s.cdone != nil || s.mdone != nil {
		return
	}
	// locate the record: scan our own append log is not enough after compaction; ask the scanner
	var off int64 = -1
	sc := &recScanner{visit: func(n *needle.Needle, offset int64) {
		if uint64(n.Id) == key && n.Size > 0 {
			off = offset
		}
	}}
	v := s.vol(s.A)
	if v == nil {
		return
	}
	if err := storage.ScanVolumeFileFrom(v.Version(), v.DataBackend, int64(v.SuperBlock.BlockSize()), sc); err != nil || off < 0 {
		return
	}
	pos := off + types.NeedleHeaderSize + 4 + (st.Int("off") % int64(len(m.Data)))
	f, err := os.OpenFile(filepath.Join(s.A.dir, "7.dat"), os.O_RDWR, 0644)
	if err != nil {
		return
	}
	defer f.Close()
	b := make([]byte, 1)
	if _, err := f.ReadAt(b, pos); err != nil {
		return
	}
	b[0] ^= 1 << uint(st.Int("bit")%8)
	f.WriteAt(b, pos)
	c := *m
	c.corrupt = true
	s.model[key] = &c
	r.Log("flip key=%d byte=%d", key, pos-off)
	r.Abs("flip")
	r.Fault("byte-flip")
}

type recScanner struct {
	visit func(n *needle.Needle, offset int64)
}

func (s *recScanner) VisitSuperBlock(super_block.SuperBlock) error { return nil }
func (s *recScanner) ReadNeedleBody() bool                         { return true }
func (s *recScanner) VisitNeedle(n *needle.Needle, offset int64, h, b []byte) error {
	s.visit(n, offset)
	return nil
}

// doScan: scanning the data file visits exactly the appended records, in
// order, each at an 8-byte aligned offset.
func (s *sess) doScan() {
	r := s.r
	v := s.vol(s.A)
	if v == nil || s.cdone != nil || s.mdone != nil || !s.scanOK {
		return
	}
	type seen struct {
		key    uint64
		size   int
		offset int64
	}
	var got []seen
	sc := &recScanner{visit: func(n *needle.Needle, offset int64) {
		sz := -1
		if n.Size > 0 {
			sz = int(n.DataSize)
		} else if n.Size == 0 {
			sz = -1 // tombstone or empty payload: both carry no body
		}
		got = append(got, seen{uint64(n.Id), sz, offset})
	}}
	// the scanner parses bodies itself only when asked; we need DataSize, so parse here
	sc2 := &bodyScanner{version: v.Version(), inner: sc}
	err := storage.ScanVolumeFileFrom(v.Version(), v.DataBackend, int64(v.SuperBlock.BlockSize()), sc2)
	r.Log("scan -> %d records err=%v", len(got), err)
	r.Abs("scan")
	if err != nil {
		r.Violate("scan-failed", "scan", "scanning the data file failed: %v", err)
		return
	}
	if len(got) != len(s.records) {
		r.Violate("scan-mismatch", "count", "scan visited %d records, %d were appended", len(got), len(s.records))
		return
	}
	for i, g := range got {
		w := s.records[i]
		wantSize := w.size
		if wantSize == 0 {
			wantSize = -1
		}
		if g.key != w.key || g.size != wantSize {
			r.Violate("scan-mismatch", "order", "record %d: scan saw key=%d payload=%d, appended key=%d payload=%d", i, g.key, g.size, w.key, wantSize)
			return
		}
		if g.offset%8 != 0 {
			r.Violate("misaligned-record", "scan", "record %d of key %d starts at offset %d (not 8-byte aligned)", i, g.key, g.offset)
			return
		}
	}
}

type bodyScanner struct {
	version needle.Version
	inner   *recScanner
}

func (b *bodyScanner) VisitSuperBlock(sb super_block.SuperBlock) error { return nil }
func (b *bodyScanner) ReadNeedleBody() bool                            { return true }
func (b *bodyScanner) VisitNeedle(n *needle.Needle, offset int64, h, body []byte) error {
	if n.Size > 0 && len(body) >= 4 {
		n.DataSize = uint32(body[0])<<24 | uint32(body[1])<<16 | uint32(body[2])<<8 | uint32(body[3])
	}
	b.inner.visit(n, offset)
	return nil
}

// ---- compaction under the gate scheduler

func (s *sess) compactStart(algo int, park, visits bool) {
	r := s.r
	if s.cdone != nil || s.mdone != nil || s.volumeGone {
		return
	}
	v := s.vol(s.A)
	if v == nil {
		return
	}
	s.A.st.CommitCleanupVolume(VID)
	s.calgo = algo
	if algo == 1 {
		var maxKey uint64
		maxOrd, maxKeyOrd := 0, 0
		for k, m := range s.model {
			if m == nil || m.alts != nil || !m.Live() || len(m.Data) == 0 {
				continue
			}
			if k > maxKey {
				maxKey, maxKeyOrd = k, s.appendOrd[k]
			}
			if s.appendOrd[k] > maxOrd {
				maxOrd = s.appendOrd[k]
			}
		}
		s.orderHazard = maxKeyOrd != maxOrd
		// the recorded TTL findings can drop the largest key during the copy; then any
		// inversion between key order and append order exposes the same truncation
		droppable, inversion := false, false
		for k, m := range s.model {
			if m == nil || m.alts != nil || !m.Live() || len(m.Data) == 0 {
				continue
			}
			if ck := s.causeKey(k, m, ""); ck == "blob-ttl-differs-from-volume-ttl" || ck == "ttl-blob-with-client-timestamp" {
				droppable = true
			}
			for k2, m2 := range s.model {
				if m2 != nil && m2.alts == nil && m2.Live() && len(m2.Data) > 0 && k2 > k && s.appendOrd[k2] < s.appendOrd[k] {
					inversion = true
				}
			}
		}
		if droppable && inversion {
			s.orderHazard = true
		}
	}
	if park {
		if algo == 1 {
			s.gates.Arm("compact.afterSnapshot")
		} else {
			s.gates.Arm("compact2.afterSnapshot")
		}
	}
	if visits {
		if algo == 1 {
			s.gates.Arm("compact.visit")
		} else {
			s.gates.Arm("compact2.visit")
		}
	}
	done := make(chan error, 1)
	s.cdone = done
	go func() {
		if algo == 1 {
			done <- v.Compact(0, 0)
		} else {
			done <- v.Compact2(0, 0)
		}
	}()
	simkit.Wait()
	s.phase = "during-compact"
	r.Log("compaction algo=%d started parked=%v", algo, s.gates.Parked())
	r.Abs(fmt.Sprintf("cstart%d", algo))
	r.NonTrivial()
}

func (s *sess) compactFinish() {
	r := s.r
	if s.cdone == nil {
		return
	}
	s.gates.Disarm("compact.afterSnapshot", "compact2.afterSnapshot", "compact.visit", "compact2.visit")
	for s.gates.Release("") {
		simkit.Wait()
	}
	simkit.Wait()
	select {
	case err := <-s.cdone:
		r.Log("compaction finished err=%v", err)
		if err != nil {
			r.Violate("compact-failed", fmt.Sprintf("algo%d", s.calgo), "compaction of a healthy volume failed: %v", err)
		}
	default:
		r.HarnessError("compaction did not finish after releasing every gate (parked=%v)", s.gates.Parked())
	}
	s.cdone = nil
	s.phase = "after-compact"
	r.Abs("cfinish")
}

func (s *sess) commitStart(park bool) {
	r := s.r
	if s.mdone != nil || s.volumeGone {
		return
	}
	if s.cdone != nil {
		s.compactFinish()
	}
	if r.Violated() {
		return
	}
	if _, err := os.Stat(filepath.Join(s.A.dir, "7.cpd")); err != nil {
		return // nothing to commit
	}
	v := s.vol(s.A)
	if park {
		s.gates.Arm("commit.beforeLock")
	}
	done := make(chan error, 1)
	s.mdone = done
	go func() { done <- v.CommitCompact() }()
	simkit.Wait()
	s.phase = "during-commit"
	r.Log("commit started parked=%v", s.gates.Parked())
	r.Abs("commit")
	if !park {
		s.commitFinish()
	}
}

func (s *sess) commitFinish() {
	r := s.r
	if s.mdone == nil {
		return
	}
	s.gates.Disarm("commit.beforeLock")
	for s.gates.Release("") {
		simkit.Wait()
	}
	simkit.Wait()
	select {
	case err := <-s.mdone:
		r.Log("commit finished err=%v", err)
		if err != nil {
			r.Violate("commit-failed", fmt.Sprintf("algo%d", s.calgo), "commit of a successful compaction failed: %v", err)
		}
	default:
		r.HarnessError("commit did not finish after releasing its gate (parked=%v)", s.gates.Parked())
	}
	s.mdone = nil
	s.A.ff = nil
	s.compacted = true
	s.scanOK = false // compaction rewrites the record sequence; the append log no longer describes the file
	r.Abs("committed")
	if r.Violated() {
		return
	}
	if s.readOnly {
		s.A.st.MarkVolumeReadonly(VID)
	}
	// "immediately after the compaction commits"
	s.compareTwin("after-commit")
	if !r.Violated() {
		s.checkAll("after-commit")
	}
	s.phase = "before"
}

func sortedModelKeys(m map[uint64]*mblob) []uint64 {
	keys := make(map[uint64]Blob)
	for k := range m {
		keys[k] = Blob{}
	}
	return sortedKeys(keys)
}

// candsOf lists the states a model entry may be in (one, unless an earlier fault left it undecided).
func candsOf(m *mblob) []*mblob {
	if m != nil && m.alts != nil {
		return append([]*mblob{}, m.alts...)
	}
	return []*mblob{m}
}

// causeKey maps a failing key to the recorded root cause it matches, if any;
// otherwise it returns the detailed situation (so that anything else stays a
// distinct, unlisted violation).
func (s *sess) causeKey(key uint64, m *mblob, detail string) string {
	ref := m
	if m != nil && m.alts != nil {
		for _, c := range m.alts {
			if c != nil {
				ref = c
			}
		}
	}
	switch {
	case s.heldEmpty[key]:
		return "empty-blob"
	case s.rewrittenUnchanged[key]:
		return s.rewriteKey()
	case s.compacted && s.calgo == 1 && s.orderHazard:
		// (before the TTL causes: the truncation behind this one hits every blob, whatever its TTL)
		return "algo1:largest-key-not-last-record"
	case ref != nil && ref.ttlMin > 0 && ttlMinutes(s.volTtl) != ref.ttlMin:
		return "blob-ttl-differs-from-volume-ttl"
	case ref != nil && ref.ttlMin > 0 && ref.LM != 0 && ref.appendAt.Unix()-int64(ref.LM) > 30:
		return "ttl-blob-with-client-timestamp" // a client timestamp in the past
	case ref != nil && ref.ttlMin > 0 && ref.LM != 0 && int64(ref.LM)-ref.appendAt.Unix() > 30:
		return "ttl-blob-with-future-client-timestamp"
	case s.compacted && s.calgo == 1 && s.orderHazard:
		return "algo1:largest-key-not-last-record"
	}
	return detail
}

func (s *sess) anySyncFailed() bool { return len(s.syncFailed) > 0 }

func (s *sess) rewriteKey() string {
	if s.volTtl == "" {
		return "identical-rewrite-does-not-restart-ttl/volume-without-ttl"
	}
	return "identical-rewrite-does-not-restart-ttl/ttl-volume"
}
