package logsim

import (
	"fmt"
	"runtime"
	"runtime/debug"
	"time"

	"verifsim/simkit"

	"github.com/chrislusf/seaweedfs/weed/util/log_buffer"
)

func init() {
	// every run allocates 16 MiB of log buffers plus multi-megabyte payload copies;
	// the driver's GOGC=800 would let a worker's heap grow to gigabytes
	debug.SetGCPercent(200)
	simkit.Register(&simkit.Prop{ID: "C22", Gen: genC22, Exec: execC22, Shrink: shrinkC22,
		Teardown: func(r *simkit.Run) {
			if r.Plan.C("sizeprof") != 0 {
				runtime.GC()
			}
		}})
}

// Step kinds:
//	app   append n events (size bytes of filler each; z: pass timestamp 0; inv: 1 tie / 2 inversion with
//	      the previous caller timestamp; dt: timestamp step in client-timestamp mode)
//	adv   advance the fake clock by ms milliseconds (the buffer's interval flusher and sleeping subscribers run)
//	fl    let the parked flush function proceed by n phases (write visible / return)
//	sub   start a subscriber; kind says how its start timestamp is chosen from the state of the run
//	rel   let subscriber i run through n park points (disk read, each delivered event, condition wait)

var startKinds = []string{"zero", "event", "gap", "boundary", "future", "ago"}

func genC22(tier string, seed uint64, idx int) *simkit.Plan {
	rng := simkit.NewRand(seed)
	p := &simkit.Plan{Engine: "logsim"}
	tsmode := rng.Pick(36, 18, 16, 10, 20)
	p.SetC("tsmode", int64(tsmode))
	interval := []int{2, 5, 10, 30, 60}[rng.Intn(5)]
	p.SetC("interval", int64(interval))
	p.SetC("t0ms", int64(rng.Intn(60000)))
	sizeprof := rng.Pick(70, 24, 6) // tiny / big (rotation by size) / giant (entries larger than the buffer)
	p.SetC("sizeprof", int64(sizeprof))
	switch rng.Pick(30, 35, 10, 25) {
	case 0:
		p.SetC("lagcap", 0) // prompt disk
	case 1:
		p.SetC("lagcap", int64(rng.Range(1, 2))) // flushes lag by at most two sealed buffers
	case 2:
		p.SetC("lagcap", 3) // all three sealed buffers may be waiting for their flush
	default:
		p.SetC("lagcap", 8) // slow disk: sealed buffers can be evicted before their flush completes
	}
	p.SetC("disk", int64(rng.Intn(2))) // 0 flat (every segment is read), 1 minute-named files as logFlushFunc / ReadPersistedLogBuffer
	maxSubs := rng.Range(1, 4)
	n := rng.Range(15, 60)
	wApp := rng.Range(20, 50)
	wAdv := rng.Range(5, 30)
	wFl := rng.Range(0, 20)
	wSub := rng.Range(3, 12)
	wRel := rng.Range(10, 50)
	lateJoin := rng.Chance(1, 3) // subscribers mostly start after a stretch of history
	kindW := make([]int, len(startKinds))
	for i := range kindW { // swarm: some start kinds are switched off per run
		if rng.Chance(2, 3) {
			kindW[i] = rng.Range(1, 10)
		}
	}
	kindW[rng.Intn(len(kindW))] += 5
	subs := 0
	advStep := func() simkit.Step {
		var ms int
		switch rng.Pick(30, 25, 30, 15) {
		case 0:
			ms = rng.Range(1, 50)
		case 1:
			ms = rng.Range(200, 1500)
		case 2:
			ms = interval*1000 + rng.Range(-500, 500)
		default:
			ms = 2*interval*1000 + rng.Range(0, 3000)
		}
		if ms < 1 {
			ms = 1
		}
		return simkit.St("adv", rng.Uint64(), "ms", ms)
	}
	appStep := func() simkit.Step {
		size, cnt := rng.Range(0, 2000), rng.Range(1, 4)
		switch sizeprof {
		case 1:
			switch rng.Pick(40, 40, 20) {
			case 1:
				size, cnt = rng.Range(1<<20, 2300<<10), rng.Range(1, 2)
			case 2:
				size, cnt = rng.Range(3500<<10, log_buffer.BufferSize-40), 1
			}
		case 2:
			switch rng.Pick(50, 30, 20) {
			case 1:
				size, cnt = rng.Range(1<<20, 2300<<10), 1
			case 2:
				size, cnt = rng.Range(log_buffer.BufferSize-80, 6<<20), 1
			}
		}
		st := simkit.St("app", rng.Uint64(), "n", cnt, "size", size)
		switch tsmode {
		case tsRacing:
			if rng.Chance(1, 3) {
				st.A["inv"] = int64(rng.Range(1, 2))
			}
		case tsMixed:
			if rng.Chance(1, 2) {
				st.A["z"] = 1
			}
		case tsClient:
			var dt int64
			switch rng.Pick(25, 25, 25, 15, 10) {
			case 0:
				dt = 1
			case 1:
				dt = int64(rng.Range(2, 5000))
			case 2:
				dt = int64(rng.Range(1, 2000)) * int64(time.Millisecond)
			case 3:
				dt = int64(interval)*int64(time.Second) + int64(rng.Range(-2, 2))
			default:
				dt = int64(rng.Range(interval, 3*interval)) * int64(time.Second)
			}
			st.A["dt"] = dt
		}
		return st
	}
	for i := 0; i < n; i++ {
		ws := wSub
		if subs >= maxSubs || (lateJoin && i < n/2) {
			ws = 0
		}
		wr := wRel
		if subs == 0 {
			wr = 0
		}
		switch rng.Pick(wApp, wAdv, wFl, ws, wr) {
		case 0:
			p.Add(appStep())
		case 1:
			p.Add(advStep())
		case 2:
			p.Add(simkit.St("fl", rng.Uint64(), "n", rng.Range(1, 4)))
		case 3:
			p.Add(simkit.St("sub", rng.Uint64(), "kind", rng.Pick(kindW...)))
			subs++
		default:
			nn := rng.Range(1, 3)
			if rng.Chance(1, 4) {
				nn = rng.Range(4, 200)
			}
			p.Add(simkit.St("rel", rng.Uint64(), "i", rng.Intn(4), "n", nn))
		}
	}
	if subs == 0 {
		at := rng.Intn(len(p.Steps) + 1)
		st := simkit.St("sub", rng.Uint64(), "kind", rng.Pick(kindW...))
		p.Steps = append(p.Steps[:at], append([]simkit.Step{st}, p.Steps[at:]...)...)
	}
	return p
}

func shrinkC22(s simkit.Step) []simkit.Step {
	var out []simkit.Step
	clone := func() simkit.Step {
		c := simkit.Step{Kind: s.Kind, Seed: s.Seed, A: map[string]int64{}}
		for k, v := range s.A {
			c.A[k] = v
		}
		return c
	}
	switch s.Kind {
	case "app":
		if s.A["n"] > 1 {
			c := clone()
			c.A["n"] = s.A["n"] - 1
			out = append(out, c)
		}
		if s.A["size"] > 64 {
			c := clone()
			c.A["size"] = 16
			out = append(out, c)
		}
		for _, f := range []string{"inv", "z"} {
			if s.A[f] != 0 {
				c := clone()
				c.A[f] = 0
				out = append(out, c)
			}
		}
	case "adv":
		if s.A["ms"] > 1 {
			c := clone()
			c.A["ms"] = s.A["ms"] / 2
			out = append(out, c)
		}
	case "fl", "rel":
		if s.A["n"] > 1 {
			c := clone()
			c.A["n"] = s.A["n"] - 1
			out = append(out, c)
			c2 := clone()
			c2.A["n"] = 1
			out = append(out, c2)
		}
	case "sub":
		if s.A["kind"] != 0 {
			c := clone()
			c.A["kind"] = 0
			out = append(out, c)
		}
	}
	return out
}

func execC22(r *simkit.Run) {
	h := newHarness(r)
	defer h.cleanup()
	// the buffer (and its interval flusher) is created at a drawn offset within the first minute
	time.Sleep(time.Duration(r.Plan.C("t0ms")) * time.Millisecond)
	h.lb = log_buffer.NewLogBuffer("local", h.interval, h.flushFn, h.notifyFn)
	simkit.Wait()
	r.Abs(fmt.Sprintf("cfg(ts%d,lag%d,disk%d,sz%d)", h.tsMode, h.lagCap, r.Plan.C("disk"), r.Plan.C("sizeprof")))
	r.Log("cfg tsmode=%d interval=%v lagcap=%d flatdisk=%v t0=%d", h.tsMode, h.interval, h.lagCap, h.flat, time.Now().UnixNano())
	for i := range r.Plan.Steps {
		h.step(&r.Plan.Steps[i])
		if r.Violated() || r.Res.HarnessError != "" {
			return
		}
		if h.gapSeen() {
			break // decide lost vs out-of-order by draining
		}
	}
	h.finish()
}

func (h *harness) step(st *simkit.Step) {
	r := h.r
	switch st.Kind {
	case "app":
		n := int(st.Int("n"))
		if n < 1 {
			n = 1
		}
		for i := 0; i < n && !r.Violated(); i++ {
			inv := 0
			if i == 0 {
				inv = int(st.Int("inv"))
			}
			h.appendOne(int(st.Int("size")), st.Int("z") == 1, inv, st.Int("dt"), false)
			h.enforceLag()
		}
	case "adv":
		d := time.Duration(st.Int("ms")) * time.Millisecond
		if d <= 0 {
			d = time.Millisecond
		}
		time.Sleep(d)
		simkit.Wait()
		r.Log("adv %v now=%d", d, time.Now().UnixNano())
		if h.noteSeals("by-interval") {
			r.Probe("interval-flush-fired")
			h.abs("seal")
		}
		woke := 0
		for _, s := range h.subs {
			if w, _ := h.subState(s); w == "woke" {
				woke++
			}
		}
		h.abs(fmt.Sprintf("woke%d", woke))
	case "fl":
		n := int(st.Int("n"))
		for i := 0; i < n; i++ {
			ph := h.phase()
			if !h.releaseFlushPhase() {
				break
			}
			h.abs(ph)
		}
	case "sub":
		kind := startKinds[int(st.Int("kind"))%len(startKinds)]
		since, detail := h.chooseStart(kind, simkit.StepRand(st))
		h.startSub(since, kind)
		r.Log("sub start detail=%s", detail)
		h.abs(kind + ":" + detail)
	case "rel":
		if len(h.subs) == 0 {
			return
		}
		s := h.subs[int(st.Int("i"))%len(h.subs)]
		n := int(st.Int("n"))
		if n < 1 {
			n = 1
		}
		if !h.release(s, n) {
			w, _ := h.subState(s)
			h.abs(fmt.Sprintf("s%d:blocked-%s", s.id, w))
		}
	}
	h.enforceLag()
	h.flushAbs(st.Kind)
}

// chooseStart resolves a start-timestamp kind against the current state.
func (h *harness) chooseStart(kind string, rng *simkit.Rand) (since int64, detail string) {
	now := time.Now().UnixNano()
	st := h.lb.VerifState()
	last := int64(0)
	if len(h.events) > 0 {
		last = h.events[len(h.events)-1].ts
	}
	switch kind {
	case "zero":
		return 0, "zero"
	case "event":
		if len(h.events) == 0 {
			return now, "now-no-events"
		}
		switch rng.Pick(30, 20, 25, 25) {
		case 0:
			e := h.events[rng.Intn(len(h.events))]
			h.r.Probe("sub-start-exact-event-ts")
			return e.ts, "any-" + h.residence(e)
		case 1:
			h.r.Probe("sub-start-exact-event-ts")
			return last, "last-event"
		case 2: // first or last event of a sealed generation
			if len(h.gens) > 0 {
				g := h.gens[rng.Intn(len(h.gens))]
				seq := g.firstSeq
				d := "gen-first"
				if rng.Chance(1, 2) {
					seq, d = g.lastSeq, "gen-last"
				}
				e := h.events[seq-1]
				h.r.Probe("sub-start-exact-event-ts")
				return e.ts, d + "-" + h.residence(e)
			}
		}
		// first event of the current buffer, or the first event ever
		for _, e := range h.events {
			if e.gen == -1 {
				h.r.Probe("sub-start-exact-event-ts")
				return e.ts, "cur-first"
			}
		}
		h.r.Probe("sub-start-exact-event-ts")
		return h.events[0].ts, "first-event"
	case "gap":
		if len(h.events) == 0 {
			return now - 1, "now-no-events"
		}
		i := rng.Intn(len(h.events))
		e := h.events[i]
		if i+1 < len(h.events) {
			nx := h.events[i+1]
			if nx.ts-e.ts >= 2 {
				d := "between-" + h.residence(e)
				if e.gen != nx.gen {
					d = "between-buffers-" + h.residence(e)
				}
				return e.ts + 1 + rng.Int63n(nx.ts-e.ts-1), d
			}
			return e.ts - 1, "just-before-" + h.residence(e) // adjacent timestamps: start 1 ns before e
		}
		return e.ts + 1 + rng.Int63n(1000), "after-last"
	case "boundary":
		var cands []int64
		var names []string
		add := func(t time.Time, name string) {
			if !t.IsZero() && t.UnixNano() > 0 {
				cands = append(cands, t.UnixNano()-1, t.UnixNano(), t.UnixNano()+1)
				names = append(names, name+"-1", name, name+"+1")
			}
		}
		for i, b := range st.Sealed {
			if b.Size > 0 {
				add(b.Start, fmt.Sprintf("sealed%d-start", i))
				add(b.Stop, fmt.Sprintf("sealed%d-stop", i))
			}
		}
		if st.Pos > 0 {
			add(st.Start, "cur-start")
			add(st.Stop, "cur-stop")
		}
		add(st.LastFlush, "last-flush")
		for _, g := range h.gens {
			if g.written && !g.returned {
				add(g.stop, "written-not-returned-stop")
			}
		}
		if len(cands) == 0 {
			return now, "now-no-boundaries"
		}
		i := rng.Intn(len(cands))
		return cands[i], names[i]
	case "future":
		base := now
		if last > base {
			base = last
		}
		return base + 1 + rng.Int63n(2*int64(h.interval)), "future"
	default: // "ago": MetaAggregator starts at time.Now().Add(-LogFlushInterval)
		d := int64(h.interval)
		if rng.Chance(1, 2) {
			d = rng.Int63n(3*int64(h.interval)) + 1
		}
		base := now
		if h.tsMode == tsClient && last > 0 {
			base = last
		}
		return base - d, "ago"
	}
}
