// Package logsim is the simulation engine for the metadata log buffer
// (property C22): the real log_buffer.LogBuffer inside a synctest bubble,
// appends issued by the plan, the buffer's own interval flusher driven by the
// fake clock, a flush function that parks until the plan lets the "disk write"
// happen, and subscribers that run the consumer loop of
// weed/server/filer_grpc_server_sub_meta.go (SubscribeLocalMetadata) around
// the real LoopProcessLogData, parked in its callbacks.
package logsim

import (
	"bytes"
	"fmt"
	"io"
	"runtime/debug"
	"sort"
	"strings"
	"sync"
	"time"

	"github.com/golang/protobuf/proto"

	"verifsim/simkit"

	"github.com/chrislusf/seaweedfs/weed/filer"
	"github.com/chrislusf/seaweedfs/weed/pb/filer_pb"
	"github.com/chrislusf/seaweedfs/weed/util/log_buffer"
	"github.com/chrislusf/seaweedfs/weed/verif"
)

// ---------------------------------------------------------------- events and generations

// event is one appended namespace change as the harness knows it.
type event struct {
	seq      int   // 1-based, embedded in the payload (entry name "e<seq>")
	ts       int64 // timestamp assigned by the buffer (LogEntry.TsNs)
	viaFiler bool  // appended by the real Filer.logMetaEvent
	callerTs int64 // what the caller passed (0 = let the buffer stamp)
	size     int   // filler bytes
	gen      int   // index into harness.gens once sealed, -1 while in the current buffer
	sentinel bool
}

// gen is one sealed buffer generation (= one flush unit).
type gen struct {
	start, stop       time.Time
	firstSeq, lastSeq int
	written           bool // segment visible on the simulated disk
	returned          bool // flushFn returned (lastFlushTime updated)
	why               string
}

// ---------------------------------------------------------------- simulated disk

// The disk is what Filer.logFlushFunc would have produced: files named after
// the minute of the flushed buffer's start time, appended to in flush order.
type diskFile struct {
	day, name string   // "2000-01-01", "00-03.segment"
	segs      [][]byte // appended flushes, in order (the file content is their concatenation)
	maxTs     int64    // stop time of the last segment appended (harness bookkeeping, for attribution only)
}

type disk struct {
	files []*diskFile // sorted by (day,name)
}

func (d *disk) appendSegment(start, stop time.Time, buf []byte, flat bool, ord int) {
	start = start.UTC()
	day := fmt.Sprintf("%04d-%02d-%02d", start.Year(), start.Month(), start.Day())
	name := fmt.Sprintf("%02d-%02d.segment", start.Hour(), start.Minute())
	if flat {
		// idealised disk: one file per flushed segment, never skipped by name
		day, name = "flat", fmt.Sprintf("%08d.segment", ord)
	}
	seg := append([]byte(nil), buf...) // the caller recycles buf
	for _, f := range d.files {
		if f.day == day && f.name == name {
			f.segs = append(f.segs, seg)
			f.maxTs = stop.UnixNano()
			return
		}
	}
	d.files = append(d.files, &diskFile{day: day, name: name, segs: [][]byte{seg}, maxTs: stop.UnixNano()})
	sort.SliceStable(d.files, func(i, j int) bool {
		if d.files[i].day != d.files[j].day {
			return d.files[i].day < d.files[j].day
		}
		return d.files[i].name < d.files[j].name
	})
}

type fileSnap struct {
	day, name string
	segs      [][]byte
	maxTs     int64
}

func (f *fileSnap) reader() io.Reader {
	rs := make([]io.Reader, 0, len(f.segs))
	for _, sg := range f.segs {
		rs = append(rs, bytes.NewReader(sg))
	}
	return &fullReader{io.MultiReader(rs...)}
}

// fullReader makes Read fill the buffer across segment boundaries, as a
// reader over one contiguous file does (ReadEachLogEntry relies on that).
type fullReader struct{ r io.Reader }

func (f *fullReader) Read(p []byte) (int, error) {
	n, err := io.ReadFull(f.r, p)
	if err == io.ErrUnexpectedEOF {
		err = nil // short read: the next call reports EOF
	}
	return n, err
}

func (d *disk) snapshot() []fileSnap {
	out := make([]fileSnap, 0, len(d.files))
	for _, f := range d.files {
		out = append(out, fileSnap{f.day, f.name, f.segs[:len(f.segs):len(f.segs)], f.maxTs})
	}
	return out
}

// ---------------------------------------------------------------- harness

type harness struct {
	r        *simkit.Run
	lb       *log_buffer.LogBuffer
	interval time.Duration
	tsMode   int
	flat     bool
	lagCap   int

	mu sync.Mutex // guards everything touched by SUT-side goroutines (flushFn, subscribers)

	events  []*event
	gens    []*gen
	lastCli int64 // last caller timestamp in client-ts mode
	disk    disk
	subs    []*sub

	// flush function state (one loopFlush goroutine => at most one flush inside flushFn)
	flGate      chan struct{}
	flPhase     string // "", "write" (parked before the segment becomes visible), "ret" (visible, parked before returning)
	flCalls     int
	passthrough bool

	lastSealed log_buffer.VerifMem
	absStep    []string
	quitting   bool
}

const (
	tsNow    = 0 // caller passes the (tick) clock, as Filer.logMetaEvent does
	tsZero   = 1 // caller passes 0, the buffer stamps (MetaAggregator, broker default)
	tsRacing = 2 // clock timestamps taken outside the buffer lock: ties and small inversions
	tsMixed  = 3 // clock timestamps and zeros mixed
	tsClient = 4 // free strictly increasing client timestamps (broker EventTimeNs), decoupled from the clock
)

func newHarness(r *simkit.Run) *harness {
	h := &harness{r: r, flGate: make(chan struct{})}
	h.interval = time.Duration(r.Plan.C("interval")) * time.Second
	if h.interval <= 0 {
		h.interval = 10 * time.Second
	}
	h.tsMode = int(r.Plan.C("tsmode"))
	h.flat = r.Plan.C("disk") == 0
	h.lagCap = int(r.Plan.C("lagcap"))
	return h
}

func (h *harness) abs(tok string) { h.absStep = append(h.absStep, tok) }

func (h *harness) flushAbs(kind string) {
	h.r.Abs(kind + "(" + strings.Join(h.absStep, ",") + ")")
	h.absStep = h.absStep[:0]
}

// flushFn is the LogBuffer's flush function: Filer.logFlushFunc writes the
// buffer to a log file synchronously (retrying until it succeeds) and only
// then returns, after which loopFlush sets lastFlushTime. Two park points:
// before the data becomes visible on the disk, and before returning.
func (h *harness) flushFn(start, stop time.Time, buf []byte) {
	if len(buf) == 0 { // as logFlushFunc
		return
	}
	h.mu.Lock()
	h.flCalls++
	ord := h.flCalls
	pass := h.passthrough
	h.flPhase = "write"
	h.mu.Unlock()
	if !pass {
		<-h.flGate
	}
	h.mu.Lock()
	h.disk.appendSegment(start, stop, buf, h.flat, ord)
	h.flPhase = "ret"
	pass = h.passthrough
	h.mu.Unlock()
	if !pass {
		<-h.flGate
	}
	h.mu.Lock()
	h.flPhase = ""
	h.mu.Unlock()
}

// notifyFn is the LogBuffer's notify function: FilerServer passes
// listenersCond.Broadcast, which wakes exactly the subscribers waiting now.
func (h *harness) notifyFn() {
	h.mu.Lock()
	for _, s := range h.subs {
		if s.parkedAt == "wait" {
			s.notified = true
		}
	}
	h.mu.Unlock()
}

func (h *harness) phase() string {
	h.mu.Lock()
	defer h.mu.Unlock()
	return h.flPhase
}

// pendingFlushes = sealed generations whose flush has not returned yet.
func (h *harness) pendingFlushes() int {
	n := 0
	for _, g := range h.gens {
		if !g.returned {
			n++
		}
	}
	return n
}

// releaseFlushPhase lets the parked flush function proceed by one phase.
func (h *harness) releaseFlushPhase() bool {
	ph := h.phase()
	if ph == "" {
		return false
	}
	h.flGate <- struct{}{}
	simkit.Wait()
	// bookkeeping: flushes complete in generation order
	for _, g := range h.gens {
		if !g.returned {
			if ph == "write" {
				g.written = true
				h.r.Log("flush-written gen=%d [%d,%d] seq %d..%d", h.genIndex(g), g.start.UnixNano(), g.stop.UnixNano(), g.firstSeq, g.lastSeq)
			} else {
				g.returned = true
				h.r.Log("flush-returned gen=%d lastFlushTime=%d", h.genIndex(g), h.lb.VerifState().LastFlush.UnixNano())
			}
			break
		}
	}
	h.r.Count("flush-phase-" + ph)
	return true
}

func (h *harness) genIndex(g *gen) int {
	for i, x := range h.gens {
		if x == g {
			return i
		}
	}
	return -1
}

// noteSeals compares the buffer's newest sealed buffer with what the harness
// knows and records a new generation when a rotation happened.
func (h *harness) noteSeals(why string) bool {
	st := h.lb.VerifState()
	newest := st.Sealed[len(st.Sealed)-1]
	if newest.Size == 0 || (newest.Start.Equal(h.lastSealed.Start) && newest.Stop.Equal(h.lastSealed.Stop) && newest.Size == h.lastSealed.Size) {
		return false
	}
	h.lastSealed = newest
	g := &gen{start: newest.Start, stop: newest.Stop, why: why}
	gi := len(h.gens)
	for _, e := range h.events {
		if e.gen == -1 && e.ts <= newest.Stop.UnixNano() {
			e.gen = gi
			if g.firstSeq == 0 {
				g.firstSeq = e.seq
			}
			g.lastSeq = e.seq
		}
	}
	h.gens = append(h.gens, g)
	if g.firstSeq == 0 {
		h.r.HarnessError("sealed buffer [%d,%d] size %d holds no event known to the harness", newest.Start.UnixNano(), newest.Stop.UnixNano(), newest.Size)
		return true
	}
	first, last := h.events[g.firstSeq-1], h.events[g.lastSeq-1]
	if first.ts != newest.Start.UnixNano() || last.ts != newest.Stop.UnixNano() {
		h.r.Violate("sealed-buffer-bounds", "why="+why, "sealed buffer start/stop [%d,%d] differ from its first/last entry timestamps [%d,%d] (seq %d..%d)",
			newest.Start.UnixNano(), newest.Stop.UnixNano(), first.ts, last.ts, g.firstSeq, g.lastSeq)
	}
	h.r.Log("seal gen=%d why=%s [%d,%d] seq %d..%d bytes=%d", gi, why, newest.Start.UnixNano(), newest.Stop.UnixNano(), g.firstSeq, g.lastSeq, newest.Size)
	h.r.Probe("rotation-" + why)
	if gi >= log_buffer.PreviousBufferCount {
		h.r.Probe("sealed-buffer-evicted")
		if ev := h.gens[gi-log_buffer.PreviousBufferCount]; !ev.returned {
			h.r.Probe("sealed-buffer-evicted-before-flushed")
		}
	}
	h.r.NonTrivial()
	return true
}

// residence says where an event lives right now.
func (h *harness) residence(e *event) string {
	if e.gen < 0 {
		return "cur"
	}
	g := h.gens[e.gen]
	fl := "unflushed"
	if g.returned {
		fl = "flushed"
	} else if g.written {
		fl = "written"
	}
	if e.gen >= len(h.gens)-log_buffer.PreviousBufferCount {
		return "sealed-" + fl
	}
	return "evicted-" + fl
}

// enforceLag keeps the number of unfinished flushes within the run's cap
// (lagcap 0 = the disk is prompt: every flush completes before the next step).
func (h *harness) enforceLag() {
	for h.pendingFlushes() > h.lagCap && h.phase() != "" {
		if !h.releaseFlushPhase() {
			break
		}
	}
}

// ---------------------------------------------------------------- appends

var filler = make([]byte, 8<<20)

func payload(seq int, innerTs int64, size int) []byte {
	ev := &filer_pb.SubscribeMetadataResponse{
		Directory: "/d",
		EventNotification: &filer_pb.EventNotification{
			NewEntry: &filer_pb.Entry{Name: fmt.Sprintf("e%d", seq)},
		},
		TsNs: innerTs,
	}
	if size > 0 {
		if size > len(filler) {
			filler = make([]byte, size)
		}
		ev.EventNotification.NewEntry.Content = filler[:size] // never written to
	}
	b, err := proto.Marshal(ev)
	if err != nil {
		panic(err)
	}
	return b
}

// appendOne performs one AddToBuffer the way a caller of the given mode would.
func (h *harness) appendOne(size int, zero bool, inv int, dtNs int64, sentinel bool) *event {
	before := h.lb.VerifState()
	var callerTs int64
	switch {
	case h.tsMode == tsClient:
		if h.lastCli == 0 {
			h.lastCli = time.Now().UnixNano()
		}
		if dtNs <= 0 {
			dtNs = 1
		}
		h.lastCli += dtNs
		callerTs = h.lastCli
	case zero || h.tsMode == tsZero:
		callerTs = 0
	default:
		callerTs = verif.Now().UnixNano() // what Filer.logMetaEvent passes in this build
		if h.tsMode == tsRacing && before.LastTsNs > 0 {
			switch inv {
			case 1: // tie with the previous caller's timestamp
				callerTs = before.LastTsNs
				h.r.Probe("caller-ts-tie")
			case 2: // a request that read the clock earlier got the lock later
				callerTs = before.LastTsNs - 1 - int64(size%997)
				h.r.Probe("caller-ts-inversion")
			}
		}
	}
	seq := len(h.events) + 1
	inner := callerTs
	viaFiler := false
	if callerTs != 0 && h.tsMode != tsClient && h.tsMode != tsRacing && seq%2 == 0 {
		// every other plain append goes through the real Filer.logMetaEvent (it reads the clock, stamps the
		// message and passes that timestamp on): the timestamp the subscriber will see in the message and
		// hand back when it resumes must be the one the log keeps
		viaFiler = true
		ev := &filer_pb.EventNotification{NewEntry: &filer_pb.Entry{Name: fmt.Sprintf("e%d", seq)}}
		if size > 0 {
			if size > len(filler) {
				filler = make([]byte, size)
			}
			ev.NewEntry.Content = filler[:size]
		}
		filer.VerifFilerForLogBuffer(h.lb).VerifLogMetaEvent(fmt.Sprintf("/d/e%d", seq), ev)
		callerTs = 0 // not chosen here
		h.r.Probe("append-through-filer-logMetaEvent")
	} else {
		data := payload(seq, inner, size)
		h.lb.AddToBuffer([]byte("/d"), data, callerTs)
	}
	simkit.Wait()
	st := h.lb.VerifState()
	e := &event{seq: seq, ts: st.LastTsNs, callerTs: callerTs, size: size, gen: -1, sentinel: sentinel, viaFiler: viaFiler}
	if len(h.events) > 0 && e.ts <= h.events[len(h.events)-1].ts {
		h.r.Violate("out-of-order", "append-assigned-ts-not-increasing", "event %d got timestamp %d, not after event %d's %d", seq, e.ts, seq-1, h.events[len(h.events)-1].ts)
	}
	if callerTs != 0 && callerTs > before.LastTsNs && e.ts != callerTs {
		h.r.Violate("garbled-event", "append-changed-caller-ts", "event %d: caller timestamp %d (after the last %d) was stored as %d", seq, callerTs, before.LastTsNs, e.ts)
	}
	if callerTs != 0 && callerTs <= before.LastTsNs {
		h.r.Probe("ts-bumped-by-buffer")
	}
	h.events = append(h.events, e)
	why := ""
	if before.Pos > 0 {
		if before.Start.Add(h.interval).Before(time.Unix(0, e.ts)) {
			why = "by-time-in-append"
		} else {
			why = "by-size"
		}
	}
	sealed := h.noteSeals(why)
	if size+64 > log_buffer.BufferSize {
		h.r.Probe("entry-larger-than-buffer")
	}
	h.r.Log("append seq=%d caller=%d ts=%d size=%d sealed=%v pos=%d", seq, callerTs, e.ts, size, sealed, st.Pos)
	tok := "a"
	if sealed {
		tok = "A:" + why
	}
	h.abs(tok)
	return e
}

// ---------------------------------------------------------------- subscribers

type delivery struct {
	seq   int
	ts    int64
	inner int64
	label string // disk | cur-search | cur-whole | sealed-whole | sealed-locate | mem-unpredicted
	bad   string
}

type subQuit struct{}

// sub is one subscriber: a goroutine running the SubscribeLocalMetadata loop.
type sub struct {
	h     *harness
	id    int
	since int64
	kind  string // start-timestamp kind

	gate     chan struct{}
	parkedAt string // "", start, disk, entry, wait, sleep, woke, done
	notified bool
	budget   int
	quit     bool

	delivered []delivery
	checked   int // deliveries already examined by the oracle
	next      int // index into h.events of the next expected event
	got       int
	gap       *gapNote     // first time this subscriber jumped over an event
	skipped   map[int]bool // seqs jumped over

	// mirror of the loop's variables, for labels and messages
	lastRead   int64
	inDisk     bool
	batchLabel string
	batchLo    int64
	batchHi    int64
	lastMemErr string
	skipRanges [][2]int64 // (ns, maxTs] of files skipped by name although they hold later entries
	counters   map[string]int
	trace      []string // park states passed through during the current release
	panicMsg   string
	diskErr    string
	aliasTaint bool // it has read a sealed buffer whose bytes the current buffer had overwritten
}

func (s *sub) count(name string) { s.counters[name]++ }

// park blocks the subscriber until the root goroutine releases it.
func (s *sub) park(where string) {
	h := s.h
	h.mu.Lock()
	if s.quit {
		h.mu.Unlock()
		panic(subQuit{})
	}
	s.trace = append(s.trace, where)
	if s.budget > 0 && where != "wait" && where != "woke" {
		s.budget--
		h.mu.Unlock()
		return
	}
	if where == "wait" {
		s.notified = false
	}
	s.parkedAt = where
	h.mu.Unlock()
	<-s.gate
	h.mu.Lock()
	s.parkedAt = ""
	q := s.quit
	h.mu.Unlock()
	if q {
		panic(subQuit{})
	}
}

func (s *sub) sleep(d time.Duration) {
	h := s.h
	h.mu.Lock()
	s.budget = 0
	s.parkedAt = "sleep"
	s.trace = append(s.trace, "sleep")
	s.count("sub-sleep-1127ms")
	h.mu.Unlock()
	time.Sleep(d)
	s.park("woke")
}

// predict mirrors the branch structure of ReadFromBuffer on a snapshot, only
// to label where the next in-memory batch comes from (never used as an oracle).
func predictRead(st log_buffer.VerifState, last time.Time) (label string, lo, hi int64, sealedIdx int) {
	sealedIdx = -1
	if !st.LastFlush.IsZero() && st.LastFlush.After(last) {
		return "disk", 0, 0, -1
	}
	if last.Equal(st.Stop) {
		return "nil-equal-stop", 0, 0, -1
	}
	if last.After(st.Stop) {
		return "nil-after-stop", 0, 0, -1
	}
	if last.Before(st.Start) {
		for i, b := range st.Sealed {
			if b.Start.After(last) {
				return "sealed-whole", b.Start.UnixNano() - 1, b.Stop.UnixNano(), i
			}
			if !b.Start.After(last) && b.Stop.After(last) {
				return "sealed-locate", last.UnixNano(), b.Stop.UnixNano(), i
			}
		}
		return "cur-whole", st.Start.UnixNano() - 1, st.Stop.UnixNano(), -1
	}
	return "cur-search", last.UnixNano(), st.Stop.UnixNano(), -1
}

func (s *sub) predict() {
	st := s.h.lb.VerifState()
	label, lo, hi, si := predictRead(st, time.Unix(0, s.lastRead))
	s.h.mu.Lock()
	s.batchLabel, s.batchLo, s.batchHi = label, lo, hi
	s.count("read-" + label)
	if si >= 0 && si == st.AliasedSealed && st.Pos > 0 {
		// the sealed buffer about to be served shares its bytes with the current buffer,
		// which has been written to since: whatever this subscriber sees from now on is suspect
		s.aliasTaint = true
		s.count("read-of-sealed-buffer-overwritten-by-current-buffer")
	}
	if strings.HasPrefix(label, "nil") && st.Pos == 0 {
		// the current buffer is empty; is there unread data in sealed buffers?
		for _, b := range st.Sealed {
			if b.Size > 0 && b.Stop.UnixNano() > s.lastRead {
				s.count("read-nil-while-sealed-has-later-data")
				break
			}
		}
	}
	s.h.mu.Unlock()
}

// each mirrors eachLogEntryFn + eachEventNotificationFn + stream.Send.
func (s *sub) each(logEntry *filer_pb.LogEntry) error {
	ev := &filer_pb.SubscribeMetadataResponse{}
	d := delivery{ts: logEntry.TsNs}
	if err := proto.Unmarshal(logEntry.Data, ev); err != nil {
		d.bad = "unmarshal: " + err.Error()
	} else {
		d.inner = ev.TsNs
		name := ""
		if ev.EventNotification != nil && ev.EventNotification.NewEntry != nil {
			name = ev.EventNotification.NewEntry.Name
		}
		if _, err := fmt.Sscanf(name, "e%d", &d.seq); err != nil {
			d.bad = "unknown payload name " + name
		}
	}
	s.h.mu.Lock()
	if s.inDisk {
		d.label = "disk"
	} else if d.ts > s.batchLo && d.ts <= s.batchHi && s.batchHi != 0 {
		d.label = s.batchLabel
	} else {
		d.label = "mem-unpredicted"
	}
	s.delivered = append(s.delivered, d)
	s.lastRead = d.ts
	inDisk := s.inDisk
	hi := s.batchHi
	s.h.mu.Unlock()
	s.park("entry") // the stream.Send of this event takes as long as the plan says
	if !inDisk && d.ts == hi {
		s.predict() // the batch is exhausted: LoopProcessLogData reads again right after we return
	}
	return nil
}

// readDisk mirrors Filer.ReadPersistedLogBuffer over the simulated disk and
// decodes every file with the real filer.ReadEachLogEntry.
func (s *sub) readDisk(startTime time.Time) (lastTsNs int64, err error) {
	startTime = startTime.UTC()
	startDate := fmt.Sprintf("%04d-%02d-%02d", startTime.Year(), startTime.Month(), startTime.Day())
	startHourMinute := fmt.Sprintf("%02d-%02d.segment", startTime.Hour(), startTime.Minute())
	sizeBuf := make([]byte, 4)
	startTsNs := startTime.UnixNano()
	s.h.mu.Lock()
	files := s.h.disk.snapshot()
	flat := s.h.flat
	s.inDisk = true
	s.h.mu.Unlock()
	defer func() {
		s.h.mu.Lock()
		s.inDisk = false
		s.h.mu.Unlock()
	}()
	for _, f := range files {
		if !flat {
			if f.day < startDate { // ListDirectoryEntries(SystemLogDir, startDate, inclusive)
				continue
			}
			if f.day == startDate && strings.Compare(f.name, startHourMinute) < 0 {
				if f.maxTs > startTsNs {
					s.h.mu.Lock()
					s.skipRanges = append(s.skipRanges, [2]int64{startTsNs, f.maxTs})
					s.count("disk-skipped-file-holding-later-events")
					s.h.mu.Unlock()
				}
				continue
			}
		}
		if lastTsNs, err = filer.ReadEachLogEntry(f.reader(), sizeBuf, startTsNs, s.each); err != nil {
			if err == io.EOF {
				continue
			}
			return lastTsNs, fmt.Errorf("reading %s/%s: %v", f.day, f.name, err)
		}
	}
	return lastTsNs, nil
}

// run is FilerServer.SubscribeLocalMetadata with the stream, the persisted
// log and the listeners' condition variable replaced by the harness.
func (s *sub) run() {
	defer func() {
		p := recover()
		s.h.mu.Lock()
		if p != nil {
			if _, ok := p.(subQuit); !ok {
				s.panicMsg = fmt.Sprint(p) + "\n" + string(debug.Stack())
			}
		}
		s.parkedAt = "done"
		s.h.mu.Unlock()
	}()
	lb := s.h.lb
	lastReadTime := time.Unix(0, s.since)
	var processedTsNs int64
	var readPersistedLogErr error
	var readInMemoryLogErr error
	s.park("start")
	for {
		s.park("disk")
		processedTsNs, readPersistedLogErr = s.readDisk(lastReadTime)
		if readPersistedLogErr != nil {
			s.h.mu.Lock()
			s.diskErr = readPersistedLogErr.Error()
			s.h.mu.Unlock()
			return
		}
		if processedTsNs != 0 {
			lastReadTime = time.Unix(0, processedTsNs)
			s.count("disk-read-delivered")
		} else {
			if readInMemoryLogErr == log_buffer.ResumeFromDiskError {
				s.count("disk-read-empty-after-resume")
				s.sleep(1127 * time.Millisecond)
				continue
			}
		}
		s.h.mu.Lock()
		s.lastRead = lastReadTime.UnixNano()
		s.h.mu.Unlock()
		s.predict()
		lastReadTime, readInMemoryLogErr = lb.LoopProcessLogData(fmt.Sprintf("localMeta:sub%d", s.id), lastReadTime, func() bool {
			s.park("wait") // fs.listenersCond.Wait()
			s.predict()
			return true
		}, s.each)
		s.h.mu.Lock()
		s.lastMemErr = fmt.Sprint(readInMemoryLogErr)
		s.lastRead = lastReadTime.UnixNano()
		s.h.mu.Unlock()
		if readInMemoryLogErr != nil {
			if readInMemoryLogErr == log_buffer.ResumeFromDiskError {
				s.count("resume-from-disk")
				continue
			}
			s.count("mem-error-" + readInMemoryLogErr.Error())
			s.sleep(1127 * time.Millisecond)
			if readInMemoryLogErr != log_buffer.ResumeError {
				break
			}
		}
	}
}

func (h *harness) startSub(since int64, kind string) *sub {
	s := &sub{h: h, id: len(h.subs), since: since, kind: kind, gate: make(chan struct{}), counters: map[string]int{}}
	h.mu.Lock()
	h.subs = append(h.subs, s)
	h.mu.Unlock()
	go s.run()
	simkit.Wait()
	h.r.Log("sub%d start since=%d kind=%s", s.id, since, kind)
	h.r.Probe("sub-start-" + kind)
	return s
}

func (h *harness) subState(s *sub) (where string, notified bool) {
	h.mu.Lock()
	defer h.mu.Unlock()
	return s.parkedAt, s.notified
}

func (h *harness) releasable(s *sub) bool {
	where, notified := h.subState(s)
	switch where {
	case "start", "disk", "entry", "woke":
		return true
	case "wait":
		return notified
	}
	return false
}

// release lets subscriber s run through up to n park points, then examines
// what it delivered.
func (h *harness) release(s *sub, n int) bool {
	if !h.releasable(s) {
		return false
	}
	h.mu.Lock()
	s.budget = n - 1
	s.trace = s.trace[:0]
	from := s.parkedAt
	h.mu.Unlock()
	s.gate <- struct{}{}
	simkit.Wait()
	h.mu.Lock()
	s.budget = 0
	trace := append([]string{}, s.trace...)
	h.mu.Unlock()
	h.r.NonTrivial()
	h.checkDeliveries(s)
	where, _ := h.subState(s)
	h.r.Log("sub%d released from=%s n=%d passed=%s now=%s delivered=%d", s.id, from, n, strings.Join(trace, ">"), where, s.got)
	h.abs(fmt.Sprintf("s%d:%s>%s", s.id, from, compress(trace)))
	h.checkSubHealth(s)
	return true
}

func compress(trace []string) string {
	var out []string
	for i, t := range trace {
		if i > 0 && trace[i-1] == t {
			if !strings.HasSuffix(out[len(out)-1], "+") {
				out[len(out)-1] += "+"
			}
			continue
		}
		out = append(out, t)
	}
	return strings.Join(out, ">")
}

func (h *harness) checkSubHealth(s *sub) {
	h.mu.Lock()
	pm, de, where := s.panicMsg, s.diskErr, s.parkedAt
	h.mu.Unlock()
	if pm != "" {
		frame := "unknown"
		for _, l := range strings.Split(pm, "\n") {
			l = strings.TrimSpace(l)
			if strings.HasPrefix(l, "github.com/chrislusf/seaweedfs/weed/") && !strings.Contains(l, "/verif.") {
				if i := strings.LastIndex(l, "("); i > 0 {
					l = l[:i]
				}
				frame = strings.TrimPrefix(l, "github.com/chrislusf/seaweedfs/")
				break
			}
		}
		if frame == "unknown" {
			h.r.HarnessError("subscriber %d panicked outside SUT code: %s", s.id, firstLine(pm))
			h.r.Log("STACK %s", pm)
			return
		}
		h.subViolate(s, "sut-panic", frame, "subscriber %d (start kind %s): panic in the read path: %s", s.id, s.kind, firstLine(pm))
		h.r.Log("STACK %s", pm)
		return
	}
	if de != "" {
		h.subViolate(s, "garbled-event", "disk-decode-error;start="+s.kind, "subscriber %d: reading the flushed log failed: %s", s.id, de)
		return
	}
	if where == "done" && !h.quitting {
		h.mu.Lock()
		lme := s.lastMemErr
		h.mu.Unlock()
		h.subViolate(s, "subscriber-terminated", "mem-error="+lme+";start="+s.kind, "subscriber %d: the subscription loop ended by itself (last in-memory read error: %s)", s.id, lme)
	}
}

const aliasKey = "read-of-oldest-sealed-buffer-overwritten-by-current-buffer"

// subViolate raises a violation observed by subscriber s. Once a subscriber
// has been served a sealed buffer whose bytes the current buffer had already
// overwritten, everything it observes later is attributed to that one cause.
func (h *harness) subViolate(s *sub, class, key, format string, a ...interface{}) {
	h.mu.Lock()
	taint := s.aliasTaint
	h.mu.Unlock()
	if taint {
		key = aliasKey
		format += " [this subscriber had been served the oldest sealed buffer while the current buffer was writing into the same byte slice]"
	}
	h.r.Violate(class, key, format, a...)
}

func firstLine(s string) string {
	if i := strings.Index(s, "\n"); i >= 0 {
		return s[:i]
	}
	return s
}

// ---------------------------------------------------------------- the oracle

// checkDeliveries examines the events subscriber s delivered since the last
// call. Expected: exactly the appended events with timestamp > since, each
// once, in increasing timestamp order. The buffer assigns strictly increasing
// timestamps, so a delivery that jumps over an appended event means that
// event is either lost or will arrive out of order; which of the two is
// decided at the end of the run (the run stops taking plan steps and drains).
func (h *harness) checkDeliveries(s *sub) {
	h.mu.Lock()
	fresh := append([]delivery{}, s.delivered[s.checked:]...)
	s.checked = len(s.delivered)
	skips := append([][2]int64{}, s.skipRanges...)
	h.mu.Unlock()
	for _, d := range fresh {
		// events at or before the start timestamp form a prefix (timestamps increase)
		for s.next < len(h.events) && h.events[s.next].ts <= s.since {
			s.next++
		}
		h.r.Probe("served-from-" + d.label)
		if d.label == "mem-unpredicted" {
			h.mu.Lock()
			taint := s.aliasTaint
			h.mu.Unlock()
			if !taint {
				h.r.Probe("mem-unpredicted-without-alias") // the labelling mirror and ReadFromBuffer disagree
			}
		}
		if d.bad != "" || d.seq < 1 || d.seq > len(h.events) {
			h.subViolate(s, "garbled-event", "via="+d.label+";start="+s.kind, "subscriber %d (since %d) received an undecodable or unknown event (ts %d seq %d): %s", s.id, s.since, d.ts, d.seq, d.bad)
			return
		}
		e := h.events[d.seq-1]
		if e.viaFiler {
			// the message carries the timestamp logMetaEvent read; the subscriber hands it back as its position when it
			// resumes, so it has to be the position the log keeps for the event
			if d.ts != e.ts {
				h.subViolate(s, "garbled-event", "ts-mismatch;via="+d.label+";start="+s.kind, "subscriber %d received event %d with log timestamp %d, appended with %d", s.id, d.seq, d.ts, e.ts)
				return
			}
			if d.inner != d.ts {
				h.subViolate(s, "message-timestamp-differs-from-log-position", "filer-logMetaEvent", "subscriber %d received event %d whose message timestamp is %d while the log keeps it at %d: a subscriber resuming from the timestamp of the last message it got receives that message again (or skips others)", s.id, d.seq, d.inner, d.ts)
				return
			}
		} else if d.ts != e.ts || d.inner != e.callerTs {
			h.subViolate(s, "garbled-event", "ts-mismatch;via="+d.label+";start="+s.kind, "subscriber %d received event %d with timestamp %d/inner %d, appended with %d/inner %d", s.id, d.seq, d.ts, d.inner, e.ts, e.callerTs)
			return
		}
		idx := d.seq - 1
		res := h.residence(e)
		h.r.Log("sub%d got seq=%d ts=%d via=%s at=%s", s.id, d.seq, d.ts, d.label, res)
		if strings.HasPrefix(res, "evicted") && d.label != "disk" {
			h.r.Probe("served-from-stale-copy-of-evicted-buffer")
		}
		switch {
		case idx == s.next:
			s.next++
			s.got++
			if s.since == e.ts-1 {
				h.r.Probe("delivered-event-1ns-after-start")
			}
		case idx > s.next:
			lost := h.events[s.next]
			where := h.residence(lost)
			attr := ""
			for _, sk := range skips {
				if lost.ts > sk[0] && lost.ts <= sk[1] {
					attr = ";disk-minute-file-skipped"
				}
			}
			if s.gap == nil {
				s.gap = &gapNote{first: lost.seq, last: d.seq - 1,
					key: gapKey(d.label, where, attr, s.kind),
					msg: fmt.Sprintf("subscriber %d (since %d, kind %s) received event %d (ts %d, via %s) while event(s) %d..%d (ts %d.., at that moment %s) with later-than-start timestamps had not been delivered (delivered before: %d events)",
						s.id, s.since, s.kind, d.seq, d.ts, d.label, lost.seq, d.seq-1, lost.ts, where, s.got)}
				h.r.Log("GAP sub%d %s", s.id, s.gap.msg)
			}
			if s.skipped == nil {
				s.skipped = map[int]bool{}
			}
			for i := s.next; i < idx; i++ {
				s.skipped[i+1] = true
			}
			s.next = idx + 1
			s.got++
		default: // idx < s.next
			if e.ts <= s.since {
				h.subViolate(s, "unexpected-event", fmt.Sprintf("not-after-start;via=%s;at=%s;start=%s", d.label, res, s.kind),
					"subscriber %d (since %d) received event %d whose timestamp %d is not later than its start", s.id, s.since, d.seq, d.ts)
				return
			}
			if s.skipped[d.seq] {
				h.subViolate(s, "out-of-order", fmt.Sprintf("via=%s;at=%s;start=%s", d.label, res, s.kind),
					"subscriber %d (since %d) received event %d (ts %d, via %s) after later events; earlier: %s", s.id, s.since, d.seq, d.ts, d.label, s.gap.msg)
				return
			}
			h.subViolate(s, "duplicate-event", fmt.Sprintf("via=%s;at=%s;start=%s", d.label, res, s.kind),
				"subscriber %d (since %d) received event %d (ts %d, via %s) a second time; expected next event %d", s.id, s.since, d.seq, d.ts, d.label, s.next+1)
			return
		}
	}
}

func gapKey(via, where, attr, kind string) string {
	if attr != "" {
		// the lost event sits in a log file that ReadPersistedLogBuffer's name filter skipped
		return "via=" + via + attr
	}
	if where == "evicted-unflushed" || where == "evicted-written" {
		// the lost event's buffer left the sealed list while its flush had not completed:
		// it was neither in memory nor (as far as lastFlushTime says) on disk
		return "via=" + via + ";lost-at=evicted-before-flush-completed"
	}
	return fmt.Sprintf("via=%s;lost-at=%s;start=%s", via, where, kind)
}

type gapNote struct {
	first, last int
	key, msg    string
}

// gapSeen reports whether some subscriber has jumped over an event.
func (h *harness) gapSeen() bool {
	for _, s := range h.subs {
		if s.gap != nil {
			return true
		}
	}
	return false
}

// missing returns the first event that subscriber s should have received by
// now but has not (nil if none).
func (h *harness) missing(s *sub) *event {
	for i := s.next; i < len(h.events); i++ {
		if h.events[i].ts <= s.since {
			continue
		}
		return h.events[i]
	}
	return nil
}

// ---------------------------------------------------------------- end of run

// settle: no more appends; every flush completes; fake time passes; every
// subscriber that can run runs, until nothing can move any more or the
// fake-time budget is used up.
func (h *harness) settle(budget time.Duration) {
	start := time.Now()
	for !h.r.Violated() {
		for h.releaseFlushPhase() {
		}
		for _, s := range h.subs {
			for i := 0; i < 64 && h.releasable(s) && !h.r.Violated(); i++ {
				h.release(s, 1000)
			}
		}
		if h.r.Violated() || time.Since(start) >= budget {
			return
		}
		allWaiting := true
		for _, s := range h.subs {
			if w, _ := h.subState(s); w != "wait" {
				allWaiting = false
			}
		}
		if allWaiting && h.phase() == "" && h.pendingFlushes() == 0 && h.lb.VerifState().Pos == 0 {
			return // everything flushed, every subscriber waits for the next broadcast: nothing can change
		}
		time.Sleep(1200 * time.Millisecond)
		simkit.Wait()
		if h.noteSeals("by-interval") {
			h.r.Probe("interval-flush-fired")
		}
	}
}

func (h *harness) finish() {
	r := h.r
	r.Log("finish: appends stop, flushes complete, subscribers drain")
	budget := 3*h.interval + 20*time.Second
	h.settle(budget)
	h.flushAbs("settle")
	if r.Violated() {
		return
	}
	type lag struct {
		s   *sub
		e   *event
		key string
	}
	var lagging []lag
	for _, s := range h.subs {
		if e := h.missing(s); e != nil && s.gap == nil {
			where, notified := h.subState(s)
			h.mu.Lock()
			key := fmt.Sprintf("state=%s;last-read=%s", where, s.batchLabel)
			h.mu.Unlock()
			lagging = append(lagging, lag{s, e, key})
			r.Log("sub%d quiescent but missing from seq=%d (at %s); state=%s notified=%v batch=%s memerr=%s", s.id, e.seq, h.residence(e), where, notified, s.batchLabel, s.lastMemErr)
		}
	}
	if len(lagging) > 0 {
		r.Probe("lagging-at-quiescence")
	}
	if len(h.subs) == 0 {
		return
	}
	// diagnosis: one more event. Does it bring the missing ones along, or are they gone for good?
	h.appendOne(16, false, 0, int64(time.Millisecond), true)
	h.settle(budget)
	h.flushAbs("sentinel")
	if r.Violated() {
		return
	}
	for _, s := range h.subs {
		if s.gap != nil {
			h.subViolate(s, "lost-event", s.gap.key, "%s; they were still undelivered after appends stopped, all flushes completed, one further event was appended and %v of fake time passed", s.gap.msg, 2*budget)
			return
		}
	}
	for _, l := range lagging {
		if e2 := h.missing(l.s); e2 != nil && e2.seq <= l.e.seq {
			h.subViolate(l.s, "lost-event", "never-delivered;"+l.key,
				"subscriber %d (since %d, kind %s): event %d (ts %d) still not delivered after quiescence plus one further event and %v of fake time", l.s.id, l.s.since, l.s.kind, e2.seq, e2.ts, 2*budget)
			return
		}
	}
	for _, l := range lagging {
		h.subViolate(l.s, "not-delivered-after-quiescence", l.key,
			"subscriber %d (since %d, kind %s): after appends stopped, all flushes completed and %v of fake time passed, event %d (ts %d) had not been delivered; it only arrived after a further event was appended",
			l.s.id, l.s.since, l.s.kind, budget, l.e.seq, l.e.ts)
		return
	}
	for _, s := range h.subs {
		if e := h.missing(s); e != nil {
			where, _ := h.subState(s)
			h.subViolate(s, "not-delivered-after-quiescence", fmt.Sprintf("sentinel;state=%s;last-read=%s", where, s.batchLabel),
				"subscriber %d (since %d): the final event %d (ts %d) was not delivered within %v of fake time", s.id, s.since, e.seq, e.ts, budget)
			return
		}
	}
}

// cleanup ends every goroutine of the run so that nothing (16 MiB of buffers
// per LogBuffer) stays referenced by goroutines leaked from the bubble.
func (h *harness) cleanup() {
	if h.lb == nil {
		return
	}
	h.quitting = true
	h.mu.Lock()
	h.passthrough = true
	for _, s := range h.subs {
		s.quit = true
	}
	h.mu.Unlock()
	for i := 0; i < 4 && h.phase() != ""; i++ {
		h.flGate <- struct{}{}
		simkit.Wait()
	}
	for _, s := range h.subs {
		if w, _ := h.subState(s); w != "done" && w != "sleep" && w != "" {
			s.gate <- struct{}{}
		}
	}
	simkit.Wait()
	h.lb.Shutdown()
	simkit.Wait()
	time.Sleep(h.interval + 2*time.Second) // loopInterval and sleeping subscribers notice and return
	simkit.Wait()
	for _, s := range h.subs {
		h.mu.Lock()
		for k, v := range s.counters {
			h.r.Res.Probes[k] += v
		}
		h.mu.Unlock()
	}
}
