package filersim

import (
	"strings"

	"verifsim/simkit"
)

func init() {
	simkit.Register(&simkit.Prop{ID: "C18", Gen: genC18, Exec: execSession("C18"), Shrink: shrinkStep})
	simkit.Register(&simkit.Prop{ID: "C21", Gen: genC21, Exec: execSession("C21"), Shrink: shrinkStep})
	simkit.Register(&simkit.Prop{ID: "C24", Gen: genC24, Exec: execSession("C24"), Shrink: shrinkStep})
	simkit.Register(&simkit.Prop{ID: "C20", Gen: genC20, Exec: execSession("C20"), Shrink: shrinkStep})
	simkit.Register(&simkit.Prop{ID: "C19", Gen: genC19, Exec: execSession("C19"), Shrink: shrinkStep})
	simkit.Register(&simkit.Prop{ID: "C36", Gen: genC36, Exec: execSession("C36"), Shrink: shrinkStep})
}

func execSession(prop string) func(r *simkit.Run) {
	return func(r *simkit.Run) {
		s := newSess(r, prop)
		if s == nil {
			return
		}
		defer s.close()
		for i := range r.Plan.Steps {
			if s.stopRun {
				r.Probe("run-ends-after-half-done-operation-on-hard-linked-tree")
				break
			}
			if len(s.excusedOrphans) > 0 {
				// an injected store failure inside a delete that was told to ignore errors has left entries without a
				// parent (excused). What the filer does with such a store afterwards is not something the statement
				// speaks about: the run ends here, judged up to this point.
				r.Probe("run-ends-after-excused-orphan")
				break
			}
			if !s.step(&r.Plan.Steps[i]) {
				return
			}
		}
		// every run ends with a clean restart and a full comparison: every acknowledged change is durable
		s.expireModel()
		if s.repl != nil {
			// the change stream lives in the filer's memory: replication runs end with a last
			// catch-up of both paths and the comparison of all four sinks
			s.finalChecks()
			return
		}
		s.doRestart()
		if !r.Violated() && s.deferred != nil && s.gc == nil {
			r.Violate(s.deferred.class, s.deferred.field, "%s", s.deferred.msg)
		}
	}
}

func cloneStep(s simkit.Step) simkit.Step {
	c := simkit.Step{Kind: s.Kind, Seed: s.Seed}
	if s.A != nil {
		c.A = map[string]int64{}
		for k, v := range s.A {
			c.A[k] = v
		}
	}
	if s.S != nil {
		c.S = map[string]string{}
		for k, v := range s.S {
			c.S[k] = v
		}
	}
	return c
}

func shrinkStep(s simkit.Step) []simkit.Step {
	var out []simkit.Step
	for _, f := range []string{"nch", "inl", "ext", "rich", "sym", "mime", "ttl", "gzlike", "excl", "ign", "uid", "gid", "mt", "csz"} {
		if s.A[f] != 0 {
			c := cloneStep(s)
			if f == "nch" && s.A[f] > 1 {
				c.A[f] = s.A[f] / 2
			} else {
				c.A[f] = 0
			}
			out = append(out, c)
		}
	}
	if s.Kind == "adv" && s.A["sec"] > 1 {
		c := cloneStep(s)
		c.A["sec"] = s.A["sec"] / 2
		out = append(out, c)
	}
	return out
}

var pathPool = []string{"/a", "/a/b", "/a/b/c", "/a/d", "/e", "/e/f", "/e/b", "/e/b/c", "/w", "/w/b", "/w2", "/w2/d", "/a/b/c/g"}

func pickUniverse(rng *simkit.Rand, lo, hi int) []string {
	n := rng.Range(lo, hi)
	var u []string
	seen := map[string]bool{}
	add := func(p string) {
		if !seen[p] {
			seen[p] = true
			u = append(u, p)
		}
	}
	if rng.Chance(3, 4) {
		add("/a")
		add("/a/b")
		add("/a/b/c")
	}
	for len(u) < n {
		add(pathPool[rng.Intn(len(pathPool))])
	}
	return u
}

func hasChildIn(u []string, p string) bool {
	for _, q := range u {
		if strings.HasPrefix(q, p+"/") {
			return true
		}
	}
	return false
}

var perms = []int{0644, 0600, 0755, 0700, 0666, 0444}

func genEntryArgs(rng *simkit.Rand, dir bool, heavy int) []interface{} {
	a := []interface{}{"dir", dir, "mode", perms[rng.Intn(len(perms))], "uid", rng.Intn(4), "gid", rng.Intn(3), "mt", rng.Intn(100000)}
	if dir {
		return a
	}
	switch heavy {
	case 0:
		a = append(a, "nch", rng.Intn(3))
	case 1:
		a = append(a, "nch", rng.Range(1, 4), "ext", rng.Intn(3), "mime", rng.Intn(4))
	default:
		nch := rng.Intn(5)
		if rng.Chance(1, 4) {
			nch = rng.Range(49, 70) // the stores compress entries with more than 50 chunks
		}
		a = append(a, "nch", nch, "ext", rng.Intn(4), "mime", rng.Intn(4), "rich", rng.Chance(1, 2), "sym", rng.Chance(1, 10))
		if rng.Chance(1, 3) {
			a = append(a, "inl", rng.Range(1, 300), "gzlike", rng.Chance(1, 3))
		}
	}
	return a
}

func storeFor(idx int) string { return storeKinds[idx%3] }

func genFault(rng *simkit.Rand) simkit.Step {
	ops := []string{"InsertEntry", "UpdateEntry", "DeleteEntry", "DeleteFolderChildren", "any", "any"}
	return simkit.St("fault", rng.Uint64(), "op", ops[rng.Intn(len(ops))], "n", rng.Range(1, 4))
}

// C18 — the namespace stays a well-formed tree.
func genC18(tier string, seed uint64, idx int) *simkit.Plan {
	rng := simkit.NewRand(seed)
	p := &simkit.Plan{Engine: "filersim"}
	p.SetCS("store", storeFor(idx))
	p.SetC("sig", int64(1+rng.Intn(1<<30)))
	faults := (idx/3)%3 == 2
	if faults {
		p.SetC("faults", 1)
	}
	u := pickUniverse(rng, 5, 8)
	p.SetCS("paths", strings.Join(u, ","))
	descRenames := rng.Chance(1, 8) // renames into the own subtree only in a fraction of the runs (see known findings)
	n := rng.Range(10, 40)
	pick := func() string { return u[rng.Intn(len(u))] }
	for i := 0; i < n; i++ {
		if faults && rng.Chance(1, 5) {
			p.Add(genFault(rng))
		}
		switch rng.Pick(6, 3, 2, 4, 6, 1) {
		case 0, 1: // create / overwrite
			q := pick()
			dir := hasChildIn(u, q)
			if rng.Chance(1, 5) {
				dir = !dir
			}
			a := append(genEntryArgs(rng, dir, 0), "p", q, "excl", rng.Chance(1, 10))
			p.Add(simkit.St("mk", rng.Uint64(), a...))
		case 2:
			q := pick()
			a := append(genEntryArgs(rng, rng.Chance(1, 2), 0), "p", q)
			p.Add(simkit.St("up", rng.Uint64(), a...))
		case 3:
			p.Add(simkit.St("rm", rng.Uint64(), "p", pick(), "rec", rng.Chance(1, 2), "ign", rng.Chance(1, 4), "data", rng.Chance(1, 2)))
		case 4:
			src := pick()
			dst := pick()
			switch x := rng.Intn(20); {
			case x < 3 && descRenames:
				dst = src + "/" + []string{"b", "c", "n"}[rng.Intn(3)]
				if rng.Chance(1, 2) {
					for _, q := range u {
						if strings.HasPrefix(q, src+"/") {
							dst = q
						}
					}
				}
			case x < 6:
				dst = parentOf(dst)
				if dst == "/" {
					dst = ""
				}
				dst += "/" + []string{"n", "m"}[rng.Intn(2)]
			case x < 7:
				dst = src
			}
			if !descRenames && (dst == src || strings.HasPrefix(dst, src+"/")) && dst != src {
				dst = "/n"
			}
			p.Add(simkit.St("mv", rng.Uint64(), "p", src, "q", dst))
		default:
			p.Add(simkit.St("restart", rng.Uint64()))
		}
	}
	return p
}

// C21 — hard links share one file.
func genC21(tier string, seed uint64, idx int) *simkit.Plan {
	rng := simkit.NewRand(seed)
	p := &simkit.Plan{Engine: "filersim"}
	p.SetCS("store", storeFor(idx))
	p.SetC("sig", int64(1+rng.Intn(1<<30)))
	p.SetC("links", 1)
	faults := (idx/3)%4 == 3
	if faults {
		p.SetC("faults", 1)
	}
	all := []string{"/a/x", "/a/y", "/e/z", "/e/y", "/a/s/x", "/x"}
	rng.Shuffle(len(all), func(i, j int) { all[i], all[j] = all[j], all[i] })
	names := all[:rng.Range(3, 5)]
	u := append([]string{}, names...)
	for _, d := range []string{"/a", "/e", "/a/s"} {
		for _, nme := range names {
			if strings.HasPrefix(nme, d+"/") {
				u = append(u, d)
				break
			}
		}
	}
	p.SetCS("paths", strings.Join(u, ","))
	// which of the operations the recorded findings are about may appear in this run
	renames := rng.Chance(1, 3)
	overwrites := rng.Chance(1, 3)
	recDeletes := rng.Chance(1, 3)
	if rng.Chance(1, 3) {
		p.SetC("lnover", 1) // links may land on existing file names (of another identity or plain)
	}
	n := rng.Range(8, 30)
	pick := func() string { return names[rng.Intn(len(names))] }
	// start from one or two files
	for i, k := 0, rng.Range(1, 2); i < k; i++ {
		a := append(genEntryArgs(rng, false, 1), "p", pick())
		p.Add(simkit.St("mk", rng.Uint64(), a...))
	}
	for i := 0; i < n; i++ {
		if faults && rng.Chance(1, 5) {
			ops := []string{"InsertEntry", "UpdateEntry", "DeleteEntry", "KvPut", "KvPut", "KvDelete", "any"}
			p.Add(simkit.St("fault", rng.Uint64(), "op", ops[rng.Intn(len(ops))], "n", rng.Range(1, 3)))
		}
		switch rng.Pick(2, 6, 5, 4, 2, 2, 1, 1) {
		case 0: // a fresh file at a (possibly linked) name
			if !overwrites {
				// only where the kernel's O_EXCL create would succeed
				a := append(genEntryArgs(rng, false, 1), "p", pick(), "excl", true)
				p.Add(simkit.St("mk", rng.Uint64(), a...))
				break
			}
			a := append(genEntryArgs(rng, false, 1), "p", pick())
			p.Add(simkit.St("mk", rng.Uint64(), a...))
		case 1:
			p.Add(simkit.St("ln", rng.Uint64(), "p", pick(), "q", pick()))
		case 2: // write through a name
			k := "mk"
			if rng.Chance(1, 2) {
				k = "up"
			}
			a := append(genEntryArgs(rng, false, 1), "p", pick(), "keep", true)
			p.Add(simkit.St(k, rng.Uint64(), a...))
		case 3: // unlink, the way the mount decides about the data
			p.Add(simkit.St("rm", rng.Uint64(), "p", pick(), "data", 2))
		case 4:
			if renames {
				p.Add(simkit.St("mv", rng.Uint64(), "p", pick(), "q", pick()))
			}
		case 5:
			if recDeletes {
				d := []string{"/a", "/e", "/a/s"}[rng.Intn(3)]
				p.Add(simkit.St("rm", rng.Uint64(), "p", d, "rec", true, "ign", true, "data", !rng.Chance(1, 4)))
			}
		case 6:
			if renames {
				d := []string{"/a", "/e", "/a/s"}[rng.Intn(3)]
				p.Add(simkit.St("mv", rng.Uint64(), "p", d, "q", []string{"/a", "/e", "/m"}[rng.Intn(3)]))
			}
		default:
			p.Add(simkit.St("restart", rng.Uint64()))
		}
	}
	return p
}

// C20 — chunk garbage collection never deletes referenced data.
func genC20(tier string, seed uint64, idx int) *simkit.Plan {
	rng := simkit.NewRand(seed)
	p := &simkit.Plan{Engine: "filersim"}
	p.SetCS("store", storeFor(idx))
	if rng.Chance(1, 4) {
		p.SetC("fidstruct", 1)
	}
	p.SetC("sig", int64(1+rng.Intn(1<<30)))
	p.SetC("gc", 1)
	if (idx/3)%4 == 1 {
		p.SetC("gcloop", 1) // the filer's own background loop drains the queue (on the fake clock)
	}
	faults := (idx/3)%4 == 3
	if faults {
		p.SetC("faults", 1)
	}
	all := []string{"/a/x", "/a/y", "/e/z", "/e/y", "/a/s/x", "/x"}
	rng.Shuffle(len(all), func(i, j int) { all[i], all[j] = all[j], all[i] })
	names := all[:rng.Range(3, 5)]
	u := append([]string{}, names...)
	for _, d := range []string{"/a", "/e", "/a/s"} {
		for _, nme := range names {
			if strings.HasPrefix(nme, d+"/") {
				u = append(u, d)
				break
			}
		}
	}
	p.SetCS("paths", strings.Join(u, ","))
	// the operations that the recorded hard-link findings are about appear only in some runs
	links := rng.Chance(2, 3)
	renames := rng.Chance(1, 2)
	linkRenames := rng.Chance(1, 4)
	overwrites := rng.Chance(1, 4)
	recDeletes := rng.Chance(1, 3)
	n := rng.Range(8, 30)
	pick := func() string { return names[rng.Intn(len(names))] }
	fileArgs := func() []interface{} {
		a := []interface{}{"mode", perms[rng.Intn(len(perms))], "mt", rng.Intn(100000), "nch", rng.Range(1, 4)}
		if rng.Chance(1, 4) {
			a = append(a, "nch", rng.Range(2, 5), "mf", rng.Range(1, 3))
		}
		return a
	}
	for i := 0; i < n; i++ {
		if faults && rng.Chance(1, 5) {
			ops := []string{"InsertEntry", "UpdateEntry", "DeleteEntry", "KvPut", "KvDelete", "DeleteFolderChildren", "any"}
			p.Add(simkit.St("fault", rng.Uint64(), "op", ops[rng.Intn(len(ops))], "n", rng.Range(1, 3)))
		}
		switch rng.Pick(5, 4, 3, 4, 3, 2, 2, 1) {
		case 0: // create, or overwrite through the name (keeps a hard-link identity, as a mounted client does)
			a := append(fileArgs(), "p", pick(), "keep", !overwrites || rng.Chance(1, 2))
			p.Add(simkit.St("mk", rng.Uint64(), a...))
		case 1:
			a := append(fileArgs(), "p", pick(), "keep", !overwrites || rng.Chance(1, 2), "keepold", rng.Intn(3)*rng.Intn(2))
			p.Add(simkit.St("up", rng.Uint64(), a...))
		case 2:
			p.Add(simkit.St("app", rng.Uint64(), "p", pick()))
		case 3:
			d := 2 // the mount's rule: delete data with the last name
			if rng.Chance(1, 4) {
				d = rng.Intn(2)
			}
			p.Add(simkit.St("rm", rng.Uint64(), "p", pick(), "data", d))
		case 4:
			if links {
				p.Add(simkit.St("ln", rng.Uint64(), "p", pick(), "q", pick()))
			}
		case 5:
			if renames {
				p.Add(simkit.St("mv", rng.Uint64(), "p", pick(), "q", pick(), "plainonly", !linkRenames))
			}
		case 6:
			if recDeletes {
				d := []string{"/a", "/e", "/a/s"}[rng.Intn(3)]
				p.Add(simkit.St("rm", rng.Uint64(), "p", d, "rec", true, "ign", true, "data", !rng.Chance(1, 4)))
			}
		default:
			p.Add(simkit.St("restart", rng.Uint64()))
		}
	}
	return p
}

// C36 — replication and sync mirror exactly the watched subtree.
func genC36(tier string, seed uint64, idx int) *simkit.Plan {
	rng := simkit.NewRand(seed)
	p := &simkit.Plan{Engine: "filersim"}
	p.SetCS("store", storeFor(idx))
	p.SetC("sig", int64(1+rng.Intn(1<<30)))
	p.SetC("repl", 1)
	if rng.Chance(1, 3) {
		p.SetC("noupd", 1) // no overwrites of existing entries, hence no update events
	}
	p.SetCS("target", []string{"/backup", "/backup", "/b", "/t", "/bk/deep/er"}[rng.Intn(5)])
	if (idx/3)%3 == 1 {
		// files carry real chunk data on replicated stub volume servers; the local sinks copy it
		p.SetC("chunks", 1)
		p.SetC("replicas", int64(idx/9)) // 2 or 3 replica locations per volume
	}
	inside := []string{"/w/a", "/w/a/b", "/w/c", "/w/a/b/d", "/w/e"}
	outside := []string{"/o", "/o/a", "/o/a/b"}
	sibling := []string{"/w2", "/w2/a", "/w2/a/b", "/wx"}
	u := append([]string{"/w"}, inside...)
	u = append(u, outside...)
	// the sibling whose name extends the watched directory's name appears only in a fraction of the runs
	withSibling := rng.Chance(1, 4)
	if withSibling {
		u = append(u, sibling...)
	}
	p.SetCS("paths", strings.Join(u, ","))
	pick := func() string {
		switch rng.Pick(6, 2, 2) {
		case 0:
			return inside[rng.Intn(len(inside))]
		case 1:
			return outside[rng.Intn(len(outside))]
		}
		if withSibling {
			return sibling[rng.Intn(len(sibling))]
		}
		return "/w"
	}
	fromTarget := rng.Chance(1, 2)
	n := rng.Range(8, 30)
	for i := 0; i < n; i++ {
		switch rng.Pick(7, 2, 3, 4, 3, 1) {
		case 0:
			q := pick()
			dir := hasChildIn(u, q) && rng.Chance(4, 5)
			a := []interface{}{"p", q, "dir", dir, "mode", perms[rng.Intn(len(perms))], "mt", rng.Intn(100000), "inl", rng.Intn(20), "ft", fromTarget && rng.Chance(1, 4)}
			p.Add(simkit.St("mk", rng.Uint64(), a...))
		case 1:
			q := pick()
			a := []interface{}{"p", q, "dir", hasChildIn(u, q), "mode", perms[rng.Intn(len(perms))], "mt", rng.Intn(100000)}
			p.Add(simkit.St("up", rng.Uint64(), a...))
		case 2:
			p.Add(simkit.St("rm", rng.Uint64(), "p", pick(), "rec", rng.Chance(3, 4), "data", true, "ft", fromTarget && rng.Chance(1, 4)))
		case 3:
			dst := pick()
			if rng.Chance(1, 3) {
				dst = parentOf(dst)
				if dst == "/" {
					dst = ""
				}
				dst += "/" + []string{"n", "m"}[rng.Intn(2)]
			}
			src := pick()
			if dst == src || strings.HasPrefix(dst, src+"/") {
				dst = "/zz"
			}
			p.Add(simkit.St("mv", rng.Uint64(), "p", src, "q", dst))
		case 4:
			p.Add(simkit.St("repl", rng.Uint64(), "act", "sync"))
		default:
			if rng.Chance(1, 4) {
				p.Add(simkit.St("repl", rng.Uint64(), "act", "lose"))
			} else {
				p.Add(simkit.St("repl", rng.Uint64(), "act", "redeliver", "k", rng.Range(1, 6)))
			}
		}
	}
	return p
}

// C19 — listings are exact, ordered and paginate completely.
func genC19(tier string, seed uint64, idx int) *simkit.Plan {
	rng := simkit.NewRand(seed)
	p := &simkit.Plan{Engine: "filersim"}
	p.SetCS("store", storeFor(idx))
	p.SetC("sig", int64(1+rng.Intn(1<<30)))
	if (idx/3)%6 == 5 {
		p.SetC("noprefix", 1) // a store without native prefix listing: FilerStoreWrapper's generic path
	}
	// request shapes that the recorded findings are about appear only in a fraction of the runs
	oddPatterns := rng.Chance(1, 5) // no wildcard at all; ? or [ ] before the first *
	startBelowPrefix := rng.Chance(1, 4)
	pool := []string{"a", "a1", "a2", "ab", "abc", "abd", "b", "b1", "ba", "c1", "c2", "ca", "x.txt", "y.txt", "z.log", "zz"}
	rng.Shuffle(len(pool), func(i, j int) { pool[i], pool[j] = pool[j], pool[i] })
	names := pool[:rng.Range(4, 12)]
	dir := []string{"/d", "/d", "/d/e"}[rng.Intn(3)]
	u := []string{dir}
	for _, n := range names {
		u = append(u, dir+"/"+n)
	}
	p.SetCS("paths", strings.Join(u, ","))
	ttlRun := rng.Chance(2, 3)
	mk := func(n string) {
		a := []interface{}{"p", dir + "/" + n, "mode", 0644, "mt", rng.Intn(1000), "nch", rng.Intn(2)}
		if ttlRun && rng.Chance(1, 2) {
			a = append(a, "ttl", []int{30, 60, 90, 120, 300}[rng.Intn(5)])
		}
		p.Add(simkit.St("mk", rng.Uint64(), a...))
	}
	// populate
	for _, n := range names {
		if rng.Chance(5, 6) {
			mk(n)
		}
	}
	if rng.Chance(1, 2) {
		p.Add(simkit.St("mk", rng.Uint64(), "p", dir+"/sub", "dir", true, "mode", 0755))
		p.Add(simkit.St("mk", rng.Uint64(), "p", dir+"/sub/a1", "mode", 0644))
	}
	prefixes := []string{"a", "ab", "b", "x", "c", "q", "abc", "z"}
	pats := []string{"a*", "*.txt", "a?", "?1", "ab*", "*", "a*c", "*a*", "?", "*[12]", "b*"}
	if oddPatterns {
		pats = append(pats, "abc", "[ab]*", "a?*", "abc", "[a-b]?*")
	}
	excls := []string{"*.txt", "a*", "?1", "b", "*"}
	n := rng.Range(5, 14)
	for i := 0; i < n; i++ {
		switch rng.Pick(9, 2, 2, 1, 1) {
		case 0:
			a := []interface{}{"p", dir, "limit", []int{1, 2, 3, 5, 100}[rng.Intn(5)], "incl", rng.Chance(1, 2), "grpc", rng.Chance(1, 4), "nolow", !startBelowPrefix}
			switch rng.Pick(6, 3, 2) {
			case 1:
				a = append(a, "startidx", rng.Intn(16))
			case 2:
				a = append(a, "start", []string{"aa", "b0", "zzz", "0", "abc", "a1"}[rng.Intn(6)])
			}
			switch rng.Pick(8, 5, 4, 3) {
			case 1:
				a = append(a, "prefix", prefixes[rng.Intn(len(prefixes))])
			case 2:
				a = append(a, "pat", pats[rng.Intn(len(pats))])
			case 3:
				a = append(a, "excl", excls[rng.Intn(len(excls))])
			}
			if ttlRun && rng.Chance(2, 5) {
				a = append(a, "adv", []int{10, 31, 45, 61, 100}[rng.Intn(5)])
			}
			if rng.Chance(1, 8) {
				a = append(a, "rst", true)
			}
			p.Add(simkit.St("ls", rng.Uint64(), a...))
		case 1:
			mk(names[rng.Intn(len(names))])
		case 2:
			if ttlRun {
				p.Add(simkit.St("adv", rng.Uint64(), "sec", []int{5, 29, 31, 59, 61, 125}[rng.Intn(6)]))
			}
		case 3:
			p.Add(simkit.St("rm", rng.Uint64(), "p", dir+"/"+names[rng.Intn(len(names))], "data", true))
		default:
			p.Add(simkit.St("restart", rng.Uint64()))
		}
	}
	return p
}

// C24 — stores return what was stored: rich entries, clean restart between write and read.
func genC24(tier string, seed uint64, idx int) *simkit.Plan {
	rng := simkit.NewRand(seed)
	p := &simkit.Plan{Engine: "filersim"}
	p.SetCS("store", storeFor(idx))
	p.SetC("sig", int64(1+rng.Intn(1<<30)))
	u := pickUniverse(rng, 4, 7)
	p.SetCS("paths", strings.Join(u, ","))
	n := rng.Range(6, 20)
	pick := func() string { return u[rng.Intn(len(u))] }
	// hard-link fields in half of the runs; those runs stay clear of the operations the recorded
	// hard-link findings of C21 are about (rename, overwrite by a plain entry, recursive delete without data)
	links := rng.Chance(1, 2)
	for i := 0; i < n; i++ {
		switch rng.Pick(6, 3, 1, 1, 2, 2) {
		case 0:
			q := pick()
			a := append(genEntryArgs(rng, hasChildIn(u, q), 2), "p", q, "keep", true, "bothforms", rng.Chance(1, 4))
			p.Add(simkit.St("mk", rng.Uint64(), a...))
		case 1:
			q := pick()
			a := append(genEntryArgs(rng, hasChildIn(u, q), 2), "p", q, "keep", true, "bothforms", rng.Chance(1, 3))
			p.Add(simkit.St("up", rng.Uint64(), a...))
		case 2:
			p.Add(simkit.St("rm", rng.Uint64(), "p", pick(), "rec", true, "data", links || rng.Chance(1, 2)))
		case 3:
			if !links {
				p.Add(simkit.St("mv", rng.Uint64(), "p", pick(), "q", "/n"+pick()))
			}
		case 4:
			if links {
				p.Add(simkit.St("ln", rng.Uint64(), "p", pick(), "q", pick()+"-l"))
			}
		default:
			p.Add(simkit.St("restart", rng.Uint64()))
		}
	}
	return p
}
