package filersim

import (
	"bytes"
	"context"
	"fmt"
	"io"
	"net"
	"net/http"
	"sort"
	"strings"
	"sync"
	"time"

	"github.com/golang/protobuf/proto"
	"google.golang.org/grpc"
	"google.golang.org/grpc/test/bufconn"

	"verifsim/simkit"

	"github.com/chrislusf/seaweedfs/weed/pb"
	"github.com/chrislusf/seaweedfs/weed/pb/filer_pb"
	"github.com/chrislusf/seaweedfs/weed/pb/master_pb"
	"github.com/chrislusf/seaweedfs/weed/pb/volume_server_pb"
	"github.com/chrislusf/seaweedfs/weed/util"
)

// ---------------------------------------------------------------- in-bubble stubs
//
// C20 observes chunk deletions where they leave the filer: the deletion queue
// (drained with the same Consume call the background loop makes) and the
// BatchDelete gRPC requests that Filer.DirectDeleteChunks and the background
// loop send to volume servers. For the latter the filer's real MasterClient
// learns the volume locations from a stub master over its real KeepConnected
// stream, and a stub volume server records BatchDelete requests; both are
// gRPC servers on in-memory bufconn listeners reached through the H1 dial
// hook (pb.VerifDialOptions). Manifest chunks are read by the filer over
// HTTP from the stub volume server through util.Transport's protocol seam.

const (
	stubMaster     = "master:9333"
	stubMasterGrpc = "master:19333"
	stubVolume     = "vs1:8080"
	stubVolumeGrpc = "vs1:18080"
)

type volStub struct {
	mu        sync.Mutex
	listeners map[string]*bufconn.Listener
	servers   []*grpc.Server
	hosts     []string            // volume server addresses the stub master announces (replica locations of every volume)
	behav     map[string][]string // file id -> per host: "ok" (default), "404", "500", "down"
	served    map[string]int      // "<behaviour>" -> number of HTTP requests answered that way
	lookups   int                 // LookupVolume requests the real filer gRPC server answered
	deleted   []string            // file ids named by BatchDelete requests since the last take()
	requests  int                 // BatchDelete requests seen
	blobs     map[string][]byte   // manifest chunk contents by file id
	failNext  bool
	master_pb.UnimplementedSeaweedServer
	volume_server_pb.UnimplementedVolumeServerServer
}

var curStub *volStub
var httpOnce sync.Once

type stubRT struct{}

func (stubRT) RoundTrip(req *http.Request) (*http.Response, error) {
	vs := curStub
	if vs == nil {
		return nil, fmt.Errorf("verif: no simulated volume server in this run")
	}
	fid := strings.TrimPrefix(req.URL.Path, "/")
	vs.mu.Lock()
	defer vs.mu.Unlock()
	b, ok := vs.blobs[fid]
	hostIdx := -1
	for i, h := range vs.hosts {
		if h == req.URL.Host {
			hostIdx = i
		}
	}
	how := "ok"
	if bh := vs.behav[fid]; hostIdx >= 0 && hostIdx < len(bh) {
		how = bh[hostIdx]
	}
	status := func(code int, text string) (*http.Response, error) {
		return &http.Response{StatusCode: code, Status: text, Body: io.NopCloser(bytes.NewReader(nil)), Header: http.Header{}, Request: req}, nil
	}
	switch {
	case hostIdx < 0:
		return nil, fmt.Errorf("verif: no simulated volume server at %s", req.URL.Host)
	case how == "down":
		vs.served["down"]++
		return nil, fmt.Errorf("dial tcp %s: connect: connection refused", req.URL.Host)
	case how == "500":
		vs.served["500"]++
		return status(500, "500 Internal Server Error")
	case how == "404" || !ok:
		vs.served["404"]++
		return status(404, "404 Not Found")
	}
	// a Range request (a chunk that is only partly visible) gets exactly that slice
	if rg := req.Header.Get("Range"); strings.HasPrefix(rg, "bytes=") {
		var from, to int
		if n, _ := fmt.Sscanf(rg, "bytes=%d-%d", &from, &to); n == 2 && from >= 0 && from <= to {
			if to >= len(b) {
				to = len(b) - 1
			}
			if from > to {
				return status(416, "416 Requested Range Not Satisfiable")
			}
			part := b[from : to+1]
			vs.served["ok-range"]++
			return &http.Response{StatusCode: 206, Status: "206 Partial Content", Body: io.NopCloser(bytes.NewReader(part)), ContentLength: int64(len(part)), Header: http.Header{}, Request: req}, nil
		}
	}
	vs.served["ok"]++
	return &http.Response{StatusCode: 200, Status: "200 OK", Body: io.NopCloser(bytes.NewReader(b)), ContentLength: int64(len(b)), Header: http.Header{}, Request: req}, nil
}

func (s *sess) startVolStub() {
	gcRun, chunkRun := s.r.Plan.C("gc") == 1, s.r.Plan.C("chunks") == 1
	if !gcRun && !chunkRun {
		return
	}
	vs := &volStub{listeners: map[string]*bufconn.Listener{}, blobs: map[string][]byte{}, behav: map[string][]string{}, served: map[string]int{}, hosts: []string{stubVolume}}
	if chunkRun {
		// every volume has 2-3 replica locations
		vs.hosts = []string{"vs1:8080", "vs2:8080", "vs3:8080"}[:2+int(s.r.Plan.C("replicas"))%2]
	}
	vs.listeners[stubMasterGrpc] = bufconn.Listen(1 << 20)
	ms := grpc.NewServer()
	master_pb.RegisterSeaweedServer(ms, vs)
	go ms.Serve(vs.listeners[stubMasterGrpc])
	vs.servers = []*grpc.Server{ms}
	for _, h := range vs.hosts {
		a := strings.Replace(h, ":8080", ":18080", 1)
		vs.listeners[a] = bufconn.Listen(1 << 20)
		vsrv := grpc.NewServer()
		volume_server_pb.RegisterVolumeServerServer(vsrv, vs)
		go vsrv.Serve(vs.listeners[a])
		vs.servers = append(vs.servers, vsrv)
	}
	pb.VerifResetGrpcClients()
	pb.VerifDialOptions = func(address string) []grpc.DialOption {
		return []grpc.DialOption{grpc.WithInsecure(), grpc.WithContextDialer(func(ctx context.Context, addr string) (net.Conn, error) {
			vs.mu.Lock()
			l := vs.listeners[addr]
			vs.mu.Unlock()
			if l == nil {
				return nil, fmt.Errorf("verif: no simulated node at %s", addr)
			}
			return l.Dial()
		})}
	}
	httpOnce.Do(func() { util.Transport.RegisterProtocol("http", stubRT{}) })
	curStub = vs
	s.vs = vs
	if gcRun {
		s.gc = &gcState{ever: map[string]int{}, loop: s.r.Plan.C("gcloop") == 1, renamedLink: map[string]bool{}, renameShared: map[string]bool{}}
	}
	s.chunkRun = chunkRun
	simkit.Wait()
}

func (s *sess) stopVolStub() {
	if s.vs == nil {
		return
	}
	pb.VerifResetGrpcClients()
	for _, srv := range s.vs.servers {
		srv.Stop()
	}
	pb.VerifDialOptions = nil
	curStub = nil
	s.vs = nil
}

// KeepConnected (stub master): announce every stub volume server for volumes 1..9, then stay silent.
func (vs *volStub) KeepConnected(stream master_pb.Seaweed_KeepConnectedServer) error {
	if _, err := stream.Recv(); err != nil {
		return err
	}
	for _, h := range vs.hosts {
		if err := stream.Send(&master_pb.VolumeLocation{Url: h, PublicUrl: h, NewVids: []uint32{1, 2, 3, 4, 5, 6, 7, 8, 9}}); err != nil {
			return err
		}
	}
	<-stream.Context().Done()
	return nil
}

// BatchDelete (stub volume server): record what the filer asks to delete.
func (vs *volStub) BatchDelete(ctx context.Context, req *volume_server_pb.BatchDeleteRequest) (*volume_server_pb.BatchDeleteResponse, error) {
	vs.mu.Lock()
	defer vs.mu.Unlock()
	vs.requests++
	vs.deleted = append(vs.deleted, req.FileIds...)
	if vs.failNext {
		vs.failNext = false
		return nil, fmt.Errorf("verif: simulated volume server failure")
	}
	resp := &volume_server_pb.BatchDeleteResponse{}
	for _, fid := range req.FileIds {
		resp.Results = append(resp.Results, &volume_server_pb.DeleteResult{FileId: fid, Status: http.StatusAccepted, Size: 1})
	}
	return resp, nil
}

func (vs *volStub) take() []string {
	vs.mu.Lock()
	defer vs.mu.Unlock()
	out := vs.deleted
	vs.deleted = nil
	return out
}

// afterOpen: a new Filer incarnation is up; connect its MasterClient to the stub master.
func (s *sess) afterOpen() {
	if s.vs == nil {
		return
	}
	go s.n.f.KeepConnectedToMaster()
	simkit.Wait()
	if _, found := s.n.f.MasterClient.GetLocations(1); !found {
		s.r.HarnessError("the filer's MasterClient did not learn the simulated volume location")
	}
	if locs, _ := s.n.f.MasterClient.GetLocations(1); len(locs) != len(s.vs.hosts) {
		s.r.HarnessError("the filer's MasterClient knows %d locations of volume 1, the stub master announced %d", len(locs), len(s.vs.hosts))
	}
	if s.gc != nil && s.gc.loop {
		go s.n.f.VerifLoopProcessingDeletion()
		simkit.Wait()
	}
	if s.chunkRun {
		s.serveFilerGrpc()
	}
}

// ---------------------------------------------------------------- the C20 oracle

type gcState struct {
	ever         map[string]int    // file id -> step at which its deletion was first scheduled / requested
	op           []string          // scheduled during the current operation
	loop         bool              // the filer's own loopProcessingDeletion drains the queue (else the harness does)
	prev         map[string]string // referenced file id -> one referencing path, as of the previous observation
	taints       []string
	requested    bool
	prevLinked   map[string]bool // referenced file id -> it was referenced through a hard-linked name
	renamedLink  map[string]bool // paths that a rename of a hard-linked name left behind as plain copies
	excused      map[string]bool // file ids that a FAILED (faulted) operation left referenced by two entries
	renameShared map[string]bool // file ids of those plain copies (shared with the link group they came from)
}

func (s *sess) taint(t string) {
	if s.gc == nil {
		return
	}
	for _, x := range s.gc.taints {
		if x == t {
			return
		}
	}
	s.gc.taints = append(s.gc.taints, t)
	sort.Strings(s.gc.taints)
}

// collectDeletions gathers what the filer scheduled for deletion during the operation just executed.
func (s *sess) collectDeletions() {
	if s.gc == nil {
		return
	}
	g := s.gc
	if g.loop {
		time.Sleep(1200 * time.Millisecond) // one period of the background loop
		simkit.Wait()
	}
	queued, sent := s.n.f.VerifDrainDeletionQueue(), s.vs.take()
	if len(queued) > 0 {
		s.r.Probe("deletion-seen-in-queue")
	}
	if len(sent) > 0 {
		if g.loop {
			s.r.Probe("deletion-seen-as-BatchDelete(own-loop-or-direct)")
		} else {
			s.r.Probe("deletion-seen-as-BatchDelete(direct)")
		}
	}
	ids := append(queued, sent...)
	sort.Strings(ids)
	g.op = ids
	for _, id := range ids {
		if _, ok := g.ever[id]; !ok {
			g.ever[id] = s.opIndex
		}
		if s.manifests[id] != nil {
			s.r.Probe("manifest-chunk-scheduled")
		}
	}
	if len(ids) > 0 {
		s.r.Log("scheduled for deletion: %s", strings.Join(ids, " "))
		s.r.Count("chunks-scheduled")
	}
}

// manifest registers a manifest chunk: its content is the serialized list of data chunks.
func (s *sess) newManifest(data []mchunk) mchunk {
	var pbs []*filer_pb.FileChunk
	var lo, hi int64
	for i, c := range data {
		pbs = append(pbs, c.pb())
		if i == 0 || c.Off < lo {
			lo = c.Off
		}
		if c.Off+int64(c.Size) > hi {
			hi = c.Off + int64(c.Size)
		}
	}
	filer_pb.BeforeEntrySerialization(pbs)
	b, _ := proto.Marshal(&filer_pb.FileChunkManifest{Chunks: pbs})
	m := mchunk{Fid: s.nextFid(), Off: lo, Size: uint64(hi - lo), Mtime: 946684800000000000 + int64(s.fidSeq)*1000, ETag: "mf", Manifest: true}
	if s.vs != nil {
		s.vs.mu.Lock()
		s.vs.blobs[m.Fid] = b
		s.vs.mu.Unlock()
	}
	if s.manifests == nil {
		s.manifests = map[string][]string{}
	}
	for _, c := range data {
		s.manifests[m.Fid] = append(s.manifests[m.Fid], c.Fid)
	}
	return m
}

// refsOf: every file id reachable from the observed entries (directly, through a manifest,
// through a hard link: lookups of linked names return the shared record's chunks).
func (s *sess) refsOf(o *observation) map[string]string {
	refs := map[string]string{}
	for _, p := range sortedKeys(o.entries) {
		for _, c := range o.entries[p].Chunks {
			if _, ok := refs[c.Fid]; !ok {
				refs[c.Fid] = p
			}
			for _, d := range s.manifests[c.Fid] {
				if _, ok := refs[d]; !ok {
					refs[d] = p
				}
			}
		}
	}
	return refs
}

// checkGCObs: safety and completeness of this operation's chunk deletions, on what is actually stored.
func (s *sess) checkGCObs(o *observation, requested bool, faulted bool) {
	if s.gc == nil {
		return
	}
	g := s.gc
	r := s.r
	refs := s.refsOf(o)
	suffix := ""
	if len(g.taints) > 0 {
		suffix = " (after " + strings.Join(g.taints, ", ") + ")"
	}
	// safety: nothing that is (still) referenced has ever been handed to deletion
	if faulted {
		// an operation that failed half way on a store without transactions (a rename that
		// created the new entry but could not delete the old one) leaves two entries that
		// reference the same chunks; what later happens to those chunks is recorded, not judged
		owners := map[string]map[string]bool{}
		for _, p := range sortedKeys(o.entries) {
			e := o.entries[p]
			owner := p
			if e.LinkId != "" {
				owner = "link:" + e.LinkId
			}
			for _, c := range e.Chunks {
				for _, fid := range append([]string{c.Fid}, s.manifests[c.Fid]...) {
					if owners[fid] == nil {
						owners[fid] = map[string]bool{}
					}
					owners[fid][owner] = true
				}
			}
		}
		for fid, ow := range owners {
			if len(ow) > 1 {
				if g.excused == nil {
					g.excused = map[string]bool{}
				}
				g.excused[fid] = true
			}
		}
	}
	for _, fid := range sortedKeys(refs) {
		if at, ok := g.ever[fid]; ok {
			if g.excused[fid] {
				r.Probe("chunk-duplicated-by-failed-operation-later-deleted")
				continue
			}
			p := refs[fid]
			victim := "file"
			if o.entries[p].LinkId != "" {
				victim = "linked-file"
			}
			when := "by this operation"
			if at != s.opIndex {
				when = fmt.Sprintf("at step %d", at)
			}
			key := s.lastOp + "; victim " + victim + suffix
			ro := s.role
			switch {
			case s.gc.renameShared[fid]:
				key = "chunks shared between a hard link group and the plain copy that the rename of one of its names left behind"
			case (ro.kind == "create" || ro.kind == "update" || ro.kind == "rename") && ro.dstLinked && ro.plain && victim == "linked-file":
				key = "hard-linked name overwritten by a plain entry: the shared chunks are deleted under the remaining names"
			case ro.kind == "delete" && ro.data && ro.srcLinked && victim == "linked-file":
				key = "delete with data deletion of a name that is not the last link"
			}
			r.Violate("referenced-chunk-deleted", key, "%s: chunk %s was handed to deletion %s, but %s [%s] still references it", s.lastOp+suffix, fid, when, p, o.entries[p].brief())
			return
		}
	}
	// completeness: what this operation dropped, having asked for data deletion, is scheduled
	if requested && !faulted && g.prev != nil {
		for _, fid := range sortedKeys(g.prev) {
			if _, still := refs[fid]; still {
				continue
			}
			if _, ok := g.ever[fid]; !ok {
				key := s.lastOp + suffix
				if s.role.kind == "delete" && s.role.linkedInside && g.prevLinked[fid] {
					key = "recursive delete: chunks of hard-linked files whose last name was inside"
				}
				r.Violate("unreferenced-chunk-not-scheduled", key, "%s: chunk %s (was referenced by %s) is no longer referenced after this operation, which deletes data, but it was never scheduled for deletion", s.lastOp+suffix, fid, g.prev[fid])
				return
			}
		}
	}
	if len(g.op) > 0 {
		r.Probe("deletion-checked")
	}
	g.prev = refs
	g.prevLinked = map[string]bool{}
	for fid, p := range refs {
		if o.entries[p].LinkId != "" {
			g.prevLinked[fid] = true
		}
	}
}

func (s *sess) checkGC(before, after *model, ok bool) {}
func (s *sess) gcResync()                             {}
func (s *sess) noteDeleteRequest(before, after *model, p string, data bool) {
	if s.gc != nil {
		s.gc.requested = data
	}
}

// doAppend: AppendToEntry with one or two new chunks (offsets are assigned by the filer).
func (s *sess) doAppend(st *simkit.Step) {
	p := st.Str("p")
	dir, name := split(p)
	rng := simkit.StepRand(st, 2)
	before := s.model
	after := before.clone()
	s.lastOp = fmt.Sprintf("append to %s", before.shape(p))
	s.role = opRole{kind: "append"}
	n := before.nodes[p]
	if n != nil && n.s.IsDir {
		s.r.Log("append %s skipped (directory)", p)
		return
	}
	var chunks []*filer_pb.FileChunk
	for i, k := 0, 1+rng.Intn(2); i < k; i++ {
		chunks = append(chunks, &filer_pb.FileChunk{FileId: s.nextFid(), Size: uint64(1 + rng.Intn(4096)), Mtime: 946684800000000000 + int64(s.fidSeq)*1000, ETag: "ap"})
	}
	if s.gc != nil {
		s.gc.requested = true
	}
	err, run := s.sut(func() error {
		_, err := s.n.fs.AppendToEntry(ctx, &filer_pb.AppendToEntryRequest{Directory: dir, EntryName: name, Chunks: chunks})
		return err
	})
	s.r.Log("append %s +%d chunks -> err=%v", p, len(chunks), err)
	// the reference tree does not predict appends (only C20 runs issue them): adopt what is there
	if s.gc == nil {
		s.r.HarnessError("append outside a C20 run")
		return
	}
	_ = after
	s.settle(mustOK, "appended", err, run, before, before)
}
