package filersim

import (
	"context"
	"fmt"
	"path/filepath"
	"sort"
	"strings"
	"time"

	"google.golang.org/grpc"
	"google.golang.org/grpc/metadata"

	"verifsim/simkit"

	"github.com/chrislusf/seaweedfs/weed/filer"
	"github.com/chrislusf/seaweedfs/weed/pb/filer_pb"
	"github.com/chrislusf/seaweedfs/weed/util"
)

// C19: one "ls" step is a complete paginated enumeration of one directory
// with one request shape (start name, inclusive flag, limit, prefix, name
// pattern, exclusion pattern). Every page is compared with exactly the page
// the statement defines over the model's live children at the instant of the
// call; between pages the plan may advance the fake clock (entries with a TTL
// expire while the enumeration is under way and are still physically in the
// store when the next page reaches them) or restart the filer.

// wantMatches: the matching live children in name order.
func wantMatches(names []string, prefix, pat, excl string) []string {
	var out []string
	for _, n := range names {
		if prefix != "" && !strings.HasPrefix(n, prefix) {
			continue
		}
		if pat != "" {
			if ok, err := filepath.Match(pat, n); err != nil || !ok {
				continue
			}
		}
		if excl != "" {
			if ok, err := filepath.Match(excl, n); err == nil && ok {
				continue
			}
		}
		out = append(out, n)
	}
	sort.Strings(out)
	return out
}

func after(names []string, start string, incl bool) []string {
	var out []string
	for _, n := range names {
		if start == "" || n > start || (incl && n == start) {
			out = append(out, n)
		}
	}
	return out
}

// fakeListStream lets FilerServer.ListEntries be called as a Go method.
type fakeListStream struct {
	grpc.ServerStream
	got []*filer_pb.Entry
}

func (f *fakeListStream) Send(r *filer_pb.ListEntriesResponse) error {
	f.got = append(f.got, r.Entry)
	return nil
}
func (f *fakeListStream) Context() context.Context     { return ctx }
func (f *fakeListStream) SetHeader(metadata.MD) error  { return nil }
func (f *fakeListStream) SendHeader(metadata.MD) error { return nil }
func (f *fakeListStream) SetTrailer(metadata.MD)       {}

// expireModel drops the entries whose TTL has run out from the model and remembers that their
// directories may still physically hold them (until the next full read-back visits them).
func (s *sess) expireModel() {
	for _, p := range s.model.expire(s.now().Unix()) {
		if s.zombies == nil {
			s.zombies = map[string]bool{}
		}
		s.zombies[parentOf(p)] = true
		s.r.Probe("entry-expired")
	}
}

func (s *sess) liveChildNames(dir string) []string {
	s.expireModel()
	var names []string
	for _, c := range s.model.children(dir) {
		names = append(names, baseOf(c))
	}
	sort.Strings(names)
	return names
}

func (s *sess) doList(st *simkit.Step) {
	r := s.r
	dir := st.Str("p")
	prefix, pat, excl := st.Str("prefix"), st.Str("pat"), st.Str("excl")
	limit := st.Int("limit")
	if limit <= 0 {
		limit = 3
	}
	incl := st.Int("incl") == 1
	viaGrpc := st.Int("grpc") == 1 && pat == "" && excl == ""
	start := st.Str("start")
	if st.Has("startidx") {
		// start at an existing name
		if names := s.liveChildNames(dir); len(names) > 0 {
			start = names[int(st.Int("startidx"))%len(names)]
		}
	}
	if st.Int("nolow") == 1 && start != "" {
		eff := prefix
		if i := strings.IndexAny(pat, "*?"); i > 0 {
			eff = pat[:i]
		}
		if eff != "" && start < eff {
			start = "" // this run keeps start names at or after the prefix
		}
	}
	shape := fmt.Sprintf("list limit=%d", limit)
	if start != "" {
		shape += fmt.Sprintf(" start(incl=%v)", incl)
	}
	if prefix != "" {
		shape += " prefix"
		if start != "" && start < prefix {
			shape += "(start<prefix)"
		}
	}
	if pat != "" {
		shape += " pattern=" + pat
	}
	if excl != "" {
		shape += " exclude=" + excl
	}
	if viaGrpc {
		shape += " via-ListEntries"
	}
	if s.n.st.noPrefix {
		shape += " generic-prefix-path"
	}
	s.lastOp = shape
	s.role = opRole{kind: "list"}
	r.Abs(shape)
	r.NonTrivial()
	seen := map[string]bool{}
	for page := 0; page < 40; page++ {
		names := s.liveChildNames(dir)
		all := wantMatches(names, prefix, pat, excl)
		want := after(all, start, incl)
		if int64(len(want)) > limit {
			want = want[:limit]
		}
		var got []string
		var ttlSeen bool
		err, run := s.sut(func() error {
			if viaGrpc {
				fl := &fakeListStream{}
				if err := s.n.fs.ListEntries(&filer_pb.ListEntriesRequest{Directory: dir, Prefix: prefix, StartFromFileName: start, InclusiveStartFrom: incl, Limit: uint32(limit)}, fl); err != nil {
					return err
				}
				for _, e := range fl.got {
					got = append(got, e.Name)
				}
				return nil
			}
			ents, _, err := s.n.f.ListDirectoryEntries(ctx, util.FullPath(dir), start, incl, limit, prefix, pat, excl)
			for _, e := range ents {
				got = append(got, e.Name())
				if e.TtlSec > 0 {
					ttlSeen = true
				}
			}
			return err
		})
		_ = ttlSeen
		r.Log("%s dir=%s start=%q incl=%v prefix=%q pat=%q excl=%q page %d -> %v err=%v   (children now: %v)", shape, dir, start, incl, prefix, pat, excl, page, got, err, names)
		if run != nil {
			key := shape
			if s.n.st.noPrefix {
				key = "store without native prefix listing: generic prefix filter of FilerStoreWrapper"
			}
			r.Violate("listing-never-terminates", key, "listing %s (start=%q incl=%v limit=%d prefix=%q pattern=%q exclude=%q) over children %v keeps calling the store without end", dir, start, incl, limit, prefix, pat, excl, names)
			return
		}
		if err != nil {
			r.Violate("listing-error", shape, "listing %s failed: %v", dir, err)
			return
		}
		if strings.Join(got, "\x00") != strings.Join(want, "\x00") {
			class := "listing-wrong-page"
			switch {
			case hasDup(got):
				class = "listing-duplicates"
			case !sort.StringsAreSorted(got):
				class = "listing-unordered"
			case int64(len(got)) > limit:
				class = "listing-exceeds-limit"
			case len(got) < len(want) && isPrefixOf(got, want):
				class = "listing-page-shortened"
			}
			// one key per root cause, decided from the request and the situation, not from the symptom
			key := shape
			beforeStart := false
			for _, n := range got {
				if start != "" && (n < start || (n == start && !incl)) {
					beforeStart = true
				}
			}
			wildcard := strings.ContainsAny(pat, "*?")
			litPrefix := pat
			if i := strings.Index(pat, "*"); i >= 0 {
				litPrefix = pat[:i]
			} else if i := strings.Index(pat, "?"); i >= 0 {
				litPrefix = pat[:i]
			}
			switch {
			case s.n.st.noPrefix && (prefix != "" || litPrefix != ""):
				key = "store without native prefix listing: generic prefix filter of FilerStoreWrapper"
			case s.zombies[dir] && (hasDup(got) || beforeStart || (start == "" && !isPrefixOf(got, want) && len(got) > len(want))):
				class = "listing-restarts-from-beginning"
				key = "expired entries still stored: an empty continuation pass resets the start name"
			case pat != "" && !wildcard:
				key = "name pattern without wildcard is ignored"
			case pat != "" && strings.ContainsAny(litPrefix, "?[\\"):
				key = "name pattern: the part before the first * is used as a literal prefix although it contains ? or [ ]"
			case (prefix != "" || litPrefix != "") && start != "" && start < prefix+litPrefix && len(got) < len(want):
				key = "start name sorts before the prefix: native prefixed listing stops at the first key without the prefix"
			case s.zombies[dir]:
				key += " expired-entries-present"
			}
			r.Violate(class, key, "%s: listing %s start=%q incl=%v limit=%d prefix=%q pattern=%q exclude=%q: got %v, the statement gives %v (live children: %v)", shape, dir, start, incl, limit, prefix, pat, excl, got, want, names)
			return
		}
		for _, n := range got {
			if seen[n] {
				r.Violate("listing-duplicates", shape+" across pages", "%s returned twice while paginating %s", n, dir)
				return
			}
			seen[n] = true
		}
		if len(got) == 0 {
			break
		}
		r.Probe("list-page-checked")
		start, incl = got[len(got)-1], false
		// what happens between two pages
		if sec := st.Int("adv"); sec > 0 {
			before := len(s.liveChildNames(dir))
			time.Sleep(time.Duration(sec) * time.Second)
			if len(s.liveChildNames(dir)) < before {
				r.Probe("entries-expired-between-pages")
				s.expiredPresent = true
			}
		}
		if st.Int("rst") == 1 && page == 0 {
			s.restartQuiet()
			r.Probe("restart-between-pages")
		}
	}
	s.expiredPresent = false
}

func hasDup(a []string) bool {
	m := map[string]bool{}
	for _, x := range a {
		if m[x] {
			return true
		}
		m[x] = true
	}
	return false
}

func isPrefixOf(a, b []string) bool {
	if len(a) > len(b) {
		return false
	}
	for i := range a {
		if a[i] != b[i] {
			return false
		}
	}
	return true
}

// restartQuiet: clean shutdown and reopen without reading the namespace back (a full read-back
// would lazily delete the expired entries the next page is supposed to run into).
func (s *sess) restartQuiet() {
	carry := s.n.st
	s.n.shutdown()
	s.n = nil
	if !s.open(carry) {
		return
	}
	s.n.st.noPrefix = carry.noPrefix
	s.r.Log("restart between pages")
	s.r.Fault("restart")
}

var _ = filer.PaginationSize
