// Package filersim is the deterministic-simulation engine around ONE real
// filer.Filer on a durable embedded store (leveldb, leveldb2, leveldb3): the
// real FilerStoreWrapper, the real store on a per-run directory, the real
// rename code of weed/server (through an overlay-added FilerServer
// constructor that sets fields only), the real hard-link bookkeeping, the
// real chunk deletion paths and the real metadata log / notification path.
// No sockets: volume servers are an in-bubble bufconn stub that records
// BatchDelete requests.
package filersim

import (
	"context"
	"errors"
	"fmt"
	"os"
	"sort"
	"strconv"
	"strings"
	"sync"
	"time"

	"verifsim/simkit"

	"google.golang.org/grpc"

	"github.com/chrislusf/seaweedfs/weed/filer"
	ldb1 "github.com/chrislusf/seaweedfs/weed/filer/leveldb"
	ldb2 "github.com/chrislusf/seaweedfs/weed/filer/leveldb2"
	ldb3 "github.com/chrislusf/seaweedfs/weed/filer/leveldb3"
	"github.com/chrislusf/seaweedfs/weed/pb/filer_pb"
	weed_server "github.com/chrislusf/seaweedfs/weed/server"
	"github.com/chrislusf/seaweedfs/weed/util"
)

// mapConf is the util.Configuration handed to the stores' own Initialize.
type mapConf map[string]string

func (m mapConf) GetString(k string) string { return m[k] }
func (m mapConf) GetBool(k string) bool     { return m[k] == "true" }
func (m mapConf) GetInt(k string) int {
	v, _ := strconv.Atoi(m[k])
	return v
}
func (m mapConf) GetStringSlice(k string) []string   { return nil }
func (m mapConf) SetDefault(k string, v interface{}) {}

var storeKinds = []string{"leveldb", "leveldb2", "leveldb3"}

func newRealStore(kind string) filer.FilerStore {
	switch kind {
	case "leveldb":
		return &ldb1.LevelDBStore{}
	case "leveldb3":
		return &ldb3.LevelDB3Store{}
	default:
		return &ldb2.LevelDB2Store{}
	}
}

// errInjected is what an armed store call returns.
var errInjected = errors.New("verif: injected store failure")

// runaway is thrown (as a panic) by the fault store when the SUT inserts an
// entry deeper than any legitimate operation of the path universe can
// produce: a rename that recurses into its own output. The executor recovers it.
type runaway struct{ path string }

const maxLegitDepth = 9

// depthLimit is the runaway bound in force: a single operation can at most hang the deepest existing subtree
// below the deepest path of the universe, so the session sets it to (deepest entry now) + (deepest universe
// path) + 1 before every SUT call; never below maxLegitDepth.
var depthLimit = maxLegitDepth

// faultStore sits between the real FilerStoreWrapper and the real store (the
// filer.FilerStore interface is an existing seam). It passes everything
// through, counts mutating calls, fails the armed one, and remembers every
// path that was ever written (the orphan check looks each of them up).
type faultStore struct {
	inner   filer.FilerStore
	mu      sync.Mutex
	touched map[string]bool
	kvKeys  map[string]bool
	calls   map[string]int // per mutating method, since the last arm()
	armOp   string         // method to fail ("" = none; "any" = the n-th mutating call of any kind)
	armN    int
	fired   string // method that was failed
	firedAt string
	trace   []string // mutating calls of the current operation (for messages)
	// noPrefix makes the store answer ListDirectoryPrefixedEntries with
	// ErrUnsupportedListDirectoryPrefixed, as the stores without native prefix
	// listing do: FilerStoreWrapper then takes its generic prefix-filter path.
	noPrefix  bool
	listCalls int // listing calls of the current operation (a listing that never ends is stopped)
}

func newFaultStore(inner filer.FilerStore) *faultStore {
	return &faultStore{inner: inner, touched: map[string]bool{}, kvKeys: map[string]bool{}, calls: map[string]int{}}
}

func (s *faultStore) arm(op string, n int) {
	s.mu.Lock()
	s.armOp, s.armN, s.fired, s.firedAt = op, n, "", ""
	s.calls = map[string]int{}
	s.mu.Unlock()
}

func (s *faultStore) disarm() (fired, at string) {
	s.mu.Lock()
	defer s.mu.Unlock()
	fired, at = s.fired, s.firedAt
	s.armOp, s.armN, s.fired, s.firedAt = "", 0, "", ""
	return
}

func (s *faultStore) beginOp() {
	s.mu.Lock()
	s.trace = s.trace[:0]
	s.listCalls = 0
	s.mu.Unlock()
}

func (s *faultStore) opTrace() string {
	s.mu.Lock()
	defer s.mu.Unlock()
	return strings.Join(s.trace, " ")
}

// hit records a mutating call and says whether it must fail.
func (s *faultStore) hit(op, what string) bool {
	s.mu.Lock()
	defer s.mu.Unlock()
	s.calls[op]++
	s.calls["any"]++
	fail := false
	if s.armOp != "" && s.fired == "" {
		if (s.armOp == op && s.calls[op] == s.armN) || (s.armOp == "any" && s.calls["any"] == s.armN) {
			s.fired, s.firedAt = op, what
			fail = true
		}
	}
	if len(s.trace) < 64 {
		t := op + "(" + what + ")"
		if fail {
			t += "!FAIL"
		}
		s.trace = append(s.trace, t)
	}
	return fail
}

func (s *faultStore) touch(p util.FullPath) {
	if strings.Count(string(p), "/") > depthLimit {
		panic(runaway{string(p)})
	}
	s.mu.Lock()
	s.touched[string(p)] = true
	s.mu.Unlock()
}

func (s *faultStore) touchedPaths() []string {
	s.mu.Lock()
	defer s.mu.Unlock()
	out := make([]string, 0, len(s.touched))
	for p := range s.touched {
		out = append(out, p)
	}
	sort.Strings(out)
	return out
}

func (s *faultStore) GetName() string { return s.inner.GetName() }
func (s *faultStore) Initialize(c util.Configuration, prefix string) error {
	return s.inner.Initialize(c, prefix)
}
func (s *faultStore) InsertEntry(ctx context.Context, e *filer.Entry) error {
	s.touch(e.FullPath)
	if s.hit("InsertEntry", string(e.FullPath)) {
		return errInjected
	}
	return s.inner.InsertEntry(ctx, e)
}
func (s *faultStore) UpdateEntry(ctx context.Context, e *filer.Entry) error {
	s.touch(e.FullPath)
	if s.hit("UpdateEntry", string(e.FullPath)) {
		return errInjected
	}
	return s.inner.UpdateEntry(ctx, e)
}
func (s *faultStore) FindEntry(ctx context.Context, p util.FullPath) (*filer.Entry, error) {
	return s.inner.FindEntry(ctx, p)
}
func (s *faultStore) DeleteEntry(ctx context.Context, p util.FullPath) error {
	if s.hit("DeleteEntry", string(p)) {
		return errInjected
	}
	return s.inner.DeleteEntry(ctx, p)
}
func (s *faultStore) DeleteFolderChildren(ctx context.Context, p util.FullPath) error {
	if s.hit("DeleteFolderChildren", string(p)) {
		return errInjected
	}
	return s.inner.DeleteFolderChildren(ctx, p)
}
func (s *faultStore) listGuard() {
	s.mu.Lock()
	s.listCalls++
	n := s.listCalls
	s.mu.Unlock()
	if n > 3000 {
		panic(runaway{"(listing)"})
	}
}
func (s *faultStore) ListDirectoryEntries(ctx context.Context, dirPath util.FullPath, startFileName string, includeStartFile bool, limit int64, eachEntryFunc filer.ListEachEntryFunc) (string, error) {
	s.listGuard()
	return s.inner.ListDirectoryEntries(ctx, dirPath, startFileName, includeStartFile, limit, eachEntryFunc)
}
func (s *faultStore) ListDirectoryPrefixedEntries(ctx context.Context, dirPath util.FullPath, startFileName string, includeStartFile bool, limit int64, prefix string, eachEntryFunc filer.ListEachEntryFunc) (string, error) {
	s.listGuard()
	if s.noPrefix {
		return "", filer.ErrUnsupportedListDirectoryPrefixed
	}
	return s.inner.ListDirectoryPrefixedEntries(ctx, dirPath, startFileName, includeStartFile, limit, prefix, eachEntryFunc)
}
func (s *faultStore) BeginTransaction(ctx context.Context) (context.Context, error) {
	return s.inner.BeginTransaction(ctx)
}
func (s *faultStore) CommitTransaction(ctx context.Context) error {
	return s.inner.CommitTransaction(ctx)
}
func (s *faultStore) RollbackTransaction(ctx context.Context) error {
	return s.inner.RollbackTransaction(ctx)
}
func (s *faultStore) KvPut(ctx context.Context, key []byte, value []byte) error {
	s.mu.Lock()
	s.kvKeys[string(key)] = true
	s.mu.Unlock()
	if s.hit("KvPut", fmt.Sprintf("%x", key)) {
		return errInjected
	}
	return s.inner.KvPut(ctx, key, value)
}
func (s *faultStore) KvGet(ctx context.Context, key []byte) ([]byte, error) {
	return s.inner.KvGet(ctx, key)
}
func (s *faultStore) KvDelete(ctx context.Context, key []byte) error {
	if s.hit("KvDelete", fmt.Sprintf("%x", key)) {
		return errInjected
	}
	return s.inner.KvDelete(ctx, key)
}
func (s *faultStore) Shutdown() { s.inner.Shutdown() }

// BucketAware pass-through (leveldb3 keeps one database per bucket).
func (s *faultStore) OnBucketCreation(bucket string) {
	if ba, ok := s.inner.(filer.BucketAware); ok {
		ba.OnBucketCreation(bucket)
	}
}
func (s *faultStore) OnBucketDeletion(bucket string) {
	if ba, ok := s.inner.(filer.BucketAware); ok {
		ba.OnBucketDeletion(bucket)
	}
}
func (s *faultStore) CanDropWholeBucket() bool {
	if ba, ok := s.inner.(filer.BucketAware); ok {
		return ba.CanDropWholeBucket()
	}
	return false
}

// flushed is one segment the metadata log buffer handed to its flush target.
type flushed struct {
	start, stop time.Time
	data        []byte
}

// fnode is one incarnation of the filer: a real Filer + FilerServer on the store directory.
type fnode struct {
	f       *filer.Filer
	fs      *weed_server.FilerServer
	st      *faultStore
	flushMu sync.Mutex
	flushes []flushed
}

// openFiler builds the filer exactly as NewFilerServer does, minus everything
// that talks to a master: the Filer struct of filer.NewFiler with an empty
// master list (its MasterClient is never started, so it never dials), buckets
// folder "/buckets", the store initialised through its own Initialize on dir,
// SetStore, LoadBuckets, LoadFilerConf. The log buffer's flush target (which
// would retry forever against the absent master) captures the flushed
// segments; the background deletion loop is started only by runs that want it.
func openFiler(kind, dir string, signature int32, carry *faultStore, withMaster bool) (*fnode, error) {
	n := &fnode{}
	var masters []string
	var dialOpt grpc.DialOption
	if withMaster {
		masters, dialOpt = []string{stubMaster}, grpc.WithInsecure()
	}
	f := filer.VerifNewFiler(masters, dialOpt, n.capture, nil)
	f.DirBucketsPath = "/buckets"
	real := newRealStore(kind)
	if err := os.MkdirAll(dir, 0755); err != nil {
		return nil, err
	}
	if err := real.Initialize(mapConf{"dir": dir}, ""); err != nil {
		return nil, err
	}
	n.st = newFaultStore(real)
	if carry != nil {
		n.st.touched, n.st.kvKeys = carry.touched, carry.kvKeys
	}
	// a fresh store would draw its signature from crypto/rand: pre-seed it from the plan
	if v, err := real.KvGet(context.Background(), []byte(filer.FilerStoreId)); err == filer.ErrKvNotFound || (err == nil && len(v) == 0) {
		b := make([]byte, 4)
		util.Uint32toBytes(b, uint32(signature))
		if err := real.KvPut(context.Background(), []byte(filer.FilerStoreId), b); err != nil {
			return nil, err
		}
	}
	f.SetStore(n.st)
	f.LoadBuckets()
	f.LoadFilerConf()
	n.f = f
	n.fs = weed_server.VerifNewFilerServer(f, &weed_server.FilerOption{DirListingLimit: 1000, MaxMB: 4})
	simkit.Wait()
	return n, nil
}

func (n *fnode) capture(start, stop time.Time, buf []byte) {
	n.flushMu.Lock()
	n.flushes = append(n.flushes, flushed{start, stop, append([]byte{}, buf...)})
	n.flushMu.Unlock()
}

func (n *fnode) shutdown() {
	n.f.Shutdown()
	simkit.Wait()
}

// ---------------------------------------------------------------- snapshots

// snap is the harness's own copy of everything an entry carries; the model
// and the observations are both expressed in it (no pointer is shared with the SUT).
type snap struct {
	Path    string
	IsDir   bool
	Mode    uint32
	Mtime   int64
	Crtime  int64
	Uid     uint32
	Gid     uint32
	Mime    string
	Ttl     int32
	Coll    string
	Repl    string
	Disk    string
	User    string
	Groups  string
	Symlink string
	Md5     string
	FSize   uint64
	Chunks  []mchunk
	Ext     string // canonical rendering, keys sorted
	Content string
	LinkId  string
	Counter int32
	Remote  string
	// model-side wildcards
	anyTimes bool // implicit parent: times are the filer's own clock reads
	loose    bool // name of a hard-link group whose bookkeeping was left inconsistent earlier: only the kind is compared
}

type mchunk struct {
	Fid      string
	Off      int64
	Size     uint64
	Mtime    int64
	ETag     string
	Src      string
	Cipher   string
	Gz       bool
	Manifest bool
	NonCanon string // set on entries READ from the filer whose chunk ids did not come back in string form
}

func (c mchunk) String() string {
	s := fmt.Sprintf("%s@%d+%d m%d e%s", c.Fid, c.Off, c.Size, c.Mtime, c.ETag)
	if c.Src != "" {
		s += " src=" + c.Src
	}
	if c.Cipher != "" {
		s += " ck=" + c.Cipher
	}
	if c.Gz {
		s += " gz"
	}
	if c.Manifest {
		s += " manifest"
	}
	if c.NonCanon != "" {
		s += " NOT-CANONICAL(" + c.NonCanon + ")"
	}
	return s
}

func extString(m map[string][]byte) string {
	if len(m) == 0 {
		return ""
	}
	keys := make([]string, 0, len(m))
	for k := range m {
		keys = append(keys, k)
	}
	sort.Strings(keys)
	var b strings.Builder
	for _, k := range keys {
		fmt.Fprintf(&b, "%s=%x;", k, m[k])
	}
	return b.String()
}

func chunkOf(c *filer_pb.FileChunk) mchunk {
	m := mchunk{Fid: c.GetFileIdString(), Off: c.Offset, Size: c.Size, Mtime: c.Mtime, ETag: c.ETag, Gz: c.IsCompressed, Manifest: c.IsChunkManifest}
	if c.SourceFileId != "" {
		m.Src = c.SourceFileId
	} else if c.SourceFid != nil {
		cp := &filer_pb.FileChunk{Fid: c.SourceFid}
		m.Src = cp.GetFileIdString()
	}
	if len(c.CipherKey) > 0 {
		m.Cipher = fmt.Sprintf("%x", c.CipherKey)
	}
	// what was written carried the ids as strings; an entry that comes back must carry them as strings again
	if c.FileId == "" && c.Fid != nil {
		m.NonCanon = "file id only as struct"
	}
	if c.SourceFileId == "" && c.SourceFid != nil {
		m.NonCanon += "source file id only as struct"
	}
	return m
}

func (c mchunk) pb() *filer_pb.FileChunk {
	p := &filer_pb.FileChunk{FileId: c.Fid, Offset: c.Off, Size: c.Size, Mtime: c.Mtime, ETag: c.ETag, SourceFileId: c.Src, IsCompressed: c.Gz, IsChunkManifest: c.Manifest}
	if c.Cipher != "" {
		p.CipherKey = unhex(c.Cipher)
	}
	return p
}

func unhex(s string) []byte {
	b := make([]byte, len(s)/2)
	for i := range b {
		v, _ := strconv.ParseUint(s[2*i:2*i+2], 16, 8)
		b[i] = byte(v)
	}
	return b
}

// snapOf copies an entry returned by the filer.
func snapOf(e *filer.Entry) *snap {
	s := &snap{Path: string(e.FullPath), IsDir: e.IsDirectory(), Mode: uint32(e.Mode), Mtime: e.Mtime.Unix(), Crtime: e.Crtime.Unix(),
		Uid: e.Uid, Gid: e.Gid, Mime: e.Mime, Ttl: e.TtlSec, Coll: e.Collection, Repl: e.Replication, Disk: e.DiskType, User: e.UserName,
		Groups: strings.Join(e.GroupNames, ","), Symlink: e.SymlinkTarget, FSize: e.FileSize, Ext: extString(e.Extended), Content: string(e.Content), Counter: e.HardLinkCounter}
	if len(e.Md5) > 0 {
		s.Md5 = fmt.Sprintf("%x", e.Md5)
	}
	if len(e.HardLinkId) > 0 {
		s.LinkId = fmt.Sprintf("%x", []byte(e.HardLinkId))
	}
	for _, c := range e.Chunks {
		s.Chunks = append(s.Chunks, chunkOf(c))
	}
	if e.Remote != nil {
		s.Remote = e.Remote.String()
	}
	return s
}

func (s *snap) clone() *snap {
	c := *s
	c.Chunks = append([]mchunk{}, s.Chunks...)
	return &c
}

// pbEntry renders the snapshot as the request a client would send.
func (s *snap) pbEntry(ext map[string][]byte) *filer_pb.Entry {
	_, name := util.FullPath(s.Path).DirAndName()
	e := &filer_pb.Entry{Name: name, IsDirectory: s.IsDir, Attributes: &filer_pb.FuseAttributes{
		FileMode: s.Mode, Mtime: s.Mtime, Crtime: s.Crtime, Uid: s.Uid, Gid: s.Gid, Mime: s.Mime, TtlSec: s.Ttl,
		Collection: s.Coll, Replication: s.Repl, DiskType: s.Disk, UserName: s.User, SymlinkTarget: s.Symlink, FileSize: s.FSize,
	}, Extended: ext, HardLinkCounter: s.Counter}
	if s.Groups != "" {
		e.Attributes.GroupName = strings.Split(s.Groups, ",")
	}
	if s.Md5 != "" {
		e.Attributes.Md5 = unhex(s.Md5)
	}
	if s.Content != "" {
		e.Content = []byte(s.Content)
	}
	if s.LinkId != "" {
		e.HardLinkId = unhex(s.LinkId)
	}
	for _, c := range s.Chunks {
		e.Chunks = append(e.Chunks, c.pb())
	}
	return e
}

// diff names the first field in which an observed entry differs from the expected one ("" = equal).
func (want *snap) diff(got *snap) string {
	switch {
	case want.IsDir != got.IsDir:
		return "kind"
	case want.loose:
		return ""
	case want.Mode != got.Mode:
		return "mode"
	case !want.anyTimes && want.Mtime != got.Mtime:
		return "mtime"
	case !want.anyTimes && want.Crtime != got.Crtime:
		return "crtime"
	case want.Uid != got.Uid || want.Gid != got.Gid:
		return "owner"
	case want.Mime != got.Mime:
		return "mime"
	case want.Ttl != got.Ttl:
		return "ttl"
	case want.Coll != got.Coll || want.Repl != got.Repl || want.Disk != got.Disk:
		return "placement"
	case want.User != got.User || want.Groups != got.Groups:
		return "user-group"
	case want.Symlink != got.Symlink:
		return "symlink"
	case want.Md5 != got.Md5:
		return "md5"
	case want.FSize != got.FSize:
		return "filesize"
	case want.Ext != got.Ext:
		return "extended"
	case want.Content != got.Content:
		return "content"
	case want.LinkId != got.LinkId:
		return "hardlink-id"
	case want.Counter != got.Counter:
		return "hardlink-counter"
	case want.Remote != got.Remote:
		return "remote"
	}
	if len(want.Chunks) != len(got.Chunks) {
		return "chunk-count"
	}
	for i := range want.Chunks {
		if want.Chunks[i] != got.Chunks[i] {
			if want.Chunks[i].Fid != got.Chunks[i].Fid {
				return "chunk-fileid"
			}
			return "chunk-fields"
		}
	}
	return ""
}

func (s *snap) brief() string {
	if s == nil {
		return "absent"
	}
	k := "file"
	if s.IsDir {
		k = "dir"
	}
	out := fmt.Sprintf("%s mode=%o mt=%d cr=%d uid=%d gid=%d", k, s.Mode, s.Mtime, s.Crtime, s.Uid, s.Gid)
	if s.Ttl != 0 {
		out += fmt.Sprintf(" ttl=%d", s.Ttl)
	}
	if s.Mime != "" {
		out += " mime=" + s.Mime
	}
	if len(s.Chunks) > 0 {
		var cs []string
		for i, c := range s.Chunks {
			if i == 4 {
				cs = append(cs, fmt.Sprintf("...%d", len(s.Chunks)))
				break
			}
			cs = append(cs, c.Fid)
		}
		out += " chunks=[" + strings.Join(cs, " ") + "]"
	}
	if s.Content != "" {
		out += fmt.Sprintf(" content=%dB", len(s.Content))
	}
	if s.Ext != "" {
		out += " ext=" + s.Ext
	}
	if s.LinkId != "" {
		out += fmt.Sprintf(" link=%s#%d", s.LinkId[:8], s.Counter)
	}
	return out
}

func parentOf(p string) string {
	if p == "/" {
		return ""
	}
	i := strings.LastIndex(p, "/")
	if i <= 0 {
		return "/"
	}
	return p[:i]
}

func baseOf(p string) string { return p[strings.LastIndex(p, "/")+1:] }

func under(p, dir string) bool { // p strictly inside dir
	if dir == "/" {
		return p != "/"
	}
	return strings.HasPrefix(p, dir+"/")
}

func sortedKeys[V any](m map[string]V) []string {
	out := make([]string, 0, len(m))
	for k := range m {
		out = append(out, k)
	}
	sort.Strings(out)
	return out
}
