package filersim

import (
	"fmt"
	"os"
	"sort"
	"strings"
)

// The reference model: a tree map path -> expected entry, plus the hard-link
// groups. It is stepped alongside the filer; what it predicts follows the
// property statements, and where they are silent, the implementation's
// documented behaviour (implicit parents, crtime kept on overwrite).

type mnode struct {
	s    *snap  // expected entry (for a linked name: only Path is meaningful)
	link *mlink // hard-link group this name belongs to
}

type mlink struct {
	id    string // hex of the hard link id
	inode *snap  // the shared attributes / chunks / extended
	names map[string]bool
	bias  int  // counter offset inherited from a faulted (failed) client-side link/unlink sequence
	loose bool // counter / record disagree with the names since an earlier accepted divergence: names are only checked for existence and kind
}

type model struct {
	nodes map[string]*mnode
	links map[string]*mlink // every link id ever issued (empty names = record must be gone)
}

func newModel() *model { return &model{nodes: map[string]*mnode{}, links: map[string]*mlink{}} }

func (m *model) clone() *model {
	c := newModel()
	for id, l := range m.links {
		nl := &mlink{id: l.id, names: map[string]bool{}, bias: l.bias, loose: l.loose}
		if l.inode != nil {
			nl.inode = l.inode.clone()
		}
		for n := range l.names {
			nl.names[n] = true
		}
		c.links[id] = nl
	}
	for p, n := range m.nodes {
		nn := &mnode{s: n.s.clone()}
		if n.link != nil {
			nn.link = c.links[n.link.id]
		}
		c.nodes[p] = nn
	}
	return c
}

// expected renders what a lookup / listing of path p must return.
func (m *model) expected(p string) *snap {
	n := m.nodes[p]
	if n == nil {
		return nil
	}
	if n.link == nil {
		return n.s
	}
	e := n.link.inode.clone()
	e.Path = p
	e.LinkId = n.link.id
	e.Counter = int32(len(n.link.names) + n.link.bias)
	e.loose = n.link.loose
	return e
}

func (m *model) isDir(p string) bool {
	if p == "/" {
		return true
	}
	n := m.nodes[p]
	return n != nil && n.s.IsDir
}

func (m *model) children(dir string) []string {
	var out []string
	for p := range m.nodes {
		if parentOf(p) == dir {
			out = append(out, p)
		}
	}
	sort.Strings(out)
	return out
}

func (m *model) subtree(dir string) []string { // strictly inside, sorted
	var out []string
	for p := range m.nodes {
		if under(p, dir) {
			out = append(out, p)
		}
	}
	sort.Strings(out)
	return out
}

func (m *model) remove(p string) {
	n := m.nodes[p]
	if n == nil {
		return
	}
	if n.link != nil {
		delete(n.link.names, p)
	}
	delete(m.nodes, p)
}

// expire drops entries whose TTL has run out at unix second now (the filer
// hides and lazily deletes them: crtime+ttl < now, with now never on a whole second).
func (m *model) expire(nowUnix int64) (dropped []string) {
	for _, p := range sortedKeys(m.nodes) {
		n := m.nodes[p]
		e := m.expected(p)
		if e.Ttl > 0 && !e.IsDir && e.Crtime+int64(e.Ttl) <= nowUnix {
			_ = n
			m.remove(p)
			dropped = append(dropped, p)
		}
	}
	return
}

// blockedAncestor returns the nearest existing ancestor of p that is a file ("" if none).
func (m *model) fileAncestor(p string) string {
	for a := parentOf(p); a != "/" && a != ""; a = parentOf(a) {
		if n := m.nodes[a]; n != nil && !n.s.IsDir {
			return a
		}
	}
	return ""
}

// implicitParents creates the missing ancestors of p the way
// Filer.ensureParentDirecotryEntry does: directories carrying the new entry's
// permission bits | 0110, owner, collection, replication, user and groups; times are the filer's own.
func (m *model) implicitParents(p string, from *snap) (created []string) {
	var missing []string
	for a := parentOf(p); a != "/" && a != ""; a = parentOf(a) {
		if m.nodes[a] == nil {
			missing = append(missing, a)
		}
	}
	for i := len(missing) - 1; i >= 0; i-- {
		a := missing[i]
		m.nodes[a] = &mnode{s: &snap{Path: a, IsDir: true, Mode: uint32(os.ModeDir) | from.Mode | 0110, Uid: from.Uid, Gid: from.Gid,
			Coll: from.Coll, Repl: from.Repl, User: from.User, Groups: from.Groups, anyTimes: true}}
		created = append(created, a)
	}
	return
}

type outcome int

const (
	mustOK outcome = iota
	mustFail
	either          // the statement does not say; whichever the filer reports, the state must be unchanged
	mustFailPartial // refused in the middle of a directory merge: the moves done before the conflict stay
	unspecified     // the statement says nothing about the result: only the structural invariants are demanded
)

func (o outcome) String() string {
	return [...]string{"ok", "fail", "either", "fail-partial", "unspecified"}[o]
}

// shape describes a path's situation in abstract terms (used in violation keys and the abstract trace).
func (m *model) shape(p string) string {
	n := m.nodes[p]
	switch {
	case p == "/":
		return "root"
	case n == nil:
		if fa := m.fileAncestor(p); fa != "" {
			return "absent-under-file"
		}
		if m.nodes[parentOf(p)] == nil && parentOf(p) != "/" {
			return "absent-noparent"
		}
		return "absent"
	case n.s.IsDir:
		if len(m.children(p)) > 0 {
			return "dir-nonempty"
		}
		return "dir-empty"
	case n.link != nil:
		if len(n.link.names) == 1 {
			return "linked-file(last name)"
		}
		return "linked-file"
	}
	return "file"
}

func (m *model) hasLinkedInside(dir string) bool {
	for _, p := range m.subtree(dir) {
		if m.nodes[p].link != nil {
			return true
		}
	}
	return false
}

// applyCreate: CreateEntry of want at want.Path. keepLink: the writer sends
// the hard link identity it read (write-through); otherwise a fresh plain entry.
func (m *model) applyCreate(want *snap, oexcl bool, keepLink bool) (outcome, string) {
	p := want.Path
	old := m.nodes[p]
	if old != nil {
		if oexcl {
			return mustFail, "o_excl on existing"
		}
		if old.s.IsDir != want.IsDir {
			return mustFail, "kind conflict"
		}
		m.replace(p, want, keepLink)
		return mustOK, "update"
	}
	if fa := m.fileAncestor(p); fa != "" {
		return mustFail, "ancestor is a file"
	}
	m.implicitParents(p, want)
	m.nodes[p] = &mnode{s: want.clone()}
	return mustOK, "insert"
}

// replace overwrites the existing entry at p; crtime of the existing entry is kept (Filer.UpdateEntry).
func (m *model) replace(p string, want *snap, keepLink bool) {
	old := m.nodes[p]
	oldE := m.expected(p)
	n := want.clone()
	n.Path = p
	n.Crtime = oldE.Crtime
	if oldE.anyTimes {
		n.anyTimes = true // crtime unknown (implicit directory): stays unknown; mtime is then not compared either
	}
	if old.link != nil && keepLink {
		old.link.inode = n
		return
	}
	if old.link != nil {
		delete(old.link.names, p)
	}
	m.nodes[p] = &mnode{s: n}
}

func (m *model) applyUpdate(want *snap, keepLink bool) (outcome, string) {
	p := want.Path
	old := m.nodes[p]
	if old == nil {
		return mustFail, "not found"
	}
	if old.s.IsDir != want.IsDir {
		return mustFail, "kind conflict"
	}
	m.replace(p, want, keepLink)
	return mustOK, "update"
}

func (m *model) applyDelete(p string, recursive bool) (outcome, string) {
	n := m.nodes[p]
	if n == nil {
		return either, "not found"
	}
	if n.s.IsDir {
		// only what can be reached from p (an excused left-over below a missing directory is neither
		// seen nor removed by a delete further up)
		var kids []string
		for _, k := range m.subtree(p) {
			reach := true
			for a := parentOf(k); a != p && a != "/" && a != ""; a = parentOf(a) {
				if an := m.nodes[a]; an == nil || !an.s.IsDir {
					reach = false
				}
			}
			if reach {
				kids = append(kids, k)
			}
		}
		if len(kids) > 0 && !recursive {
			return mustFail, "non-empty directory, not recursive"
		}
		for _, k := range kids {
			m.remove(k)
		}
	}
	m.remove(p)
	return mustOK, "deleted"
}

// applyRename mirrors AtomicRenameEntry as far as the statement reaches:
// whole subtree moves, nothing lost or duplicated, into-own-descendant
// refused, no file<->directory replacement. Moving a directory onto an
// existing directory merges (the statement is silent; this is what the
// implementation does): children are moved one by one in name order and the
// first kind conflict stops the operation with the moves done so far kept.
func (m *model) applyRename(p, q string) (outcome, string) {
	src := m.nodes[p]
	if src == nil {
		return mustFail, "source not found"
	}
	if p == q {
		return either, "same path"
	}
	if under(q, p) {
		return mustFail, "into own descendant"
	}
	if under(p, q) && src.s.IsDir {
		// a directory renamed onto one of its own ancestors (the ancestor's subtree contains the
		// source): POSIX refuses, the implementation merges and may trip over its own source; the
		// statement is silent
		return unspecified, "onto own ancestor"
	}
	if fa := m.fileAncestor(q); fa != "" {
		return mustFail, "target ancestor is a file"
	}
	if t := m.nodes[q]; t != nil && t.s.IsDir != src.s.IsDir {
		return mustFail, "kind conflict at target"
	}
	if err := m.moveEntry(p, q); err != "" {
		return mustFailPartial, err
	}
	return mustOK, "moved"
}

func (m *model) moveEntry(p, q string) string {
	src := m.nodes[p]
	srcE := m.expected(p)
	t := m.nodes[q]
	if t != nil && t.s.IsDir != src.s.IsDir {
		return "kind conflict inside merge at " + q
	}
	moved := srcE.clone()
	moved.Path = q
	moved.LinkId, moved.Counter = "", 0
	if t != nil {
		tE := m.expected(q)
		moved.Crtime = tE.Crtime
		if tE.anyTimes {
			moved.anyTimes = true
		}
		if t.link != nil && !(src.link != nil && src.link == t.link) {
			delete(t.link.names, q) // a linked name was overwritten by the moved entry
			t.link = nil
		}
	} else {
		m.implicitParents(q, srcE)
	}
	nn := &mnode{s: moved}
	if src.link != nil {
		// the statement: the name keeps its hard-link identity across a rename
		if t != nil && t.link == src.link {
			// one name of a group renamed onto another name of the same group
		}
		nn.link = src.link
		src.link.names[q] = true
	}
	m.nodes[q] = nn
	if src.s.IsDir {
		for _, c := range m.children(p) {
			if err := m.moveEntry(c, q+"/"+baseOf(c)); err != "" {
				return err
			}
		}
	}
	if src.link != nil {
		delete(src.link.names, p)
	}
	delete(m.nodes, p)
	return ""
}

// paths lists the model's live paths, sorted.
func (m *model) paths() []string { return sortedKeys(m.nodes) }

func (m *model) describe() string {
	var b strings.Builder
	for _, p := range m.paths() {
		fmt.Fprintf(&b, "%s[%s] ", p, m.expected(p).brief())
	}
	return b.String()
}
