package filersim

import (
	"context"
	"fmt"
	"os"
	"path/filepath"
	"runtime/debug"
	"sort"
	"strings"
	"time"

	"verifsim/simkit"

	"github.com/chrislusf/seaweedfs/weed/filer"
	"github.com/chrislusf/seaweedfs/weed/pb/filer_pb"
	"github.com/chrislusf/seaweedfs/weed/storage/needle"
	"github.com/chrislusf/seaweedfs/weed/util"
)

// A session executes a plan step by step against one live filer and steps the
// reference model alongside; after EVERY step the whole namespace is read back
// (recursive listing from "/", a direct lookup of every path the model, the
// path universe or the store wrapper has ever seen) and compared.
//
// Step kinds:
//	mk      CreateEntry (file or directory; insert or overwrite; o_excl; write-through a linked name)
//	up      UpdateEntry
//	rm      DeleteEntry (recursive / ignore-recursive-error / delete-data flags)
//	mv      AtomicRenameEntry
//	ln      hard link, the two requests weed/filesys/dir_link.go sends
//	app     AppendToEntry
//	restart Shutdown + reopen the same store directory with a new Filer
//	fault   arm the n-th mutating store call of the next operation to fail
//	adv     advance the fake clock
//	ls      paginated listing (C19)
//	repl    replication actions (C36)

type sess struct {
	r              *simkit.Run
	prop           string
	kind           string
	dir            string
	sig            int32
	n              *fnode
	model          *model
	universe       []string
	fidSeq         uint64
	linkSeq        int
	faults         bool
	opIndex        int
	lastOp         string // abstract shape of the last operation (goes into violation keys)
	gc             *gcState
	repl           *replState
	vs             *volStub
	deferred       *discrepancy // reported at the end of the run if nothing else is violated
	role           opRole
	manifests      map[string][]string // manifest chunk file id -> data chunk file ids
	expiredPresent bool                // C19: an enumeration is under way during which entries expired
	zombies        map[string]bool     // directories that may still physically hold entries the model has expired
	chunkRun       bool                // C36: files carry real chunk bytes on replicated stub volume servers
	curFired       string              // store call that was failed inside the current operation ("" = none)
	stopRun        bool                // stop executing further steps (see settleFaulted)
	excusedOrphans map[string]bool     // entries left under a deleted parent by ignore_recursive_error + injected store failure
	sigs           []int32             // signatures the next request carries (C36: a change that came from the target cluster)
	fromOther      bool
}

// opRole says which hard-link situations the current operation touches; violation keys are
// derived from it so that one root cause has one key whatever the surrounding tree looks like.
type opRole struct {
	kind         string // create update delete rename link restart
	srcLinked    bool   // rename: the moved name (or a name inside the moved directory) is hard linked
	dstLinked    bool   // the name that gets overwritten is hard linked
	plain        bool   // the written entry carries no hard link id
	linkedInside bool   // recursive delete of a directory that contains hard-linked names
	data         bool
	ign          bool // delete: the client set ignore_recursive_error
}

// causeKey maps a discrepancy found after the current operation to (class, key).
func (s *sess) causeKey(d *discrepancy, failed bool) (string, string) {
	linkish := strings.HasPrefix(d.class, "hardlink-") || d.class == "entry-mismatch" || d.class == "lost-entry" || d.class == "extra-entry"
	ro := s.role
	switch {
	case ro.kind == "rename" && ro.srcLinked && linkish && !failed:
		return "rename-of-hard-linked-name", d.class
	case (ro.kind == "rename" || ro.kind == "create" || ro.kind == "update") && ro.dstLinked && ro.plain && strings.HasPrefix(d.class, "hardlink-") && !failed:
		return "hard-linked-name-overwritten-by-plain-entry", d.class
	case ro.kind == "delete" && ro.linkedInside && strings.HasPrefix(d.class, "hardlink-") && !failed:
		return "recursive-delete-over-hard-linked-names", fmt.Sprintf("data=%v:%s", ro.data, d.class)
	}
	key := s.lastOp + ":" + d.field
	if failed {
		key = s.lastOp + ":failed:" + d.field
	}
	return d.class, key
}

var ctx = context.Background()

func newSess(r *simkit.Run, prop string) *sess {
	p := r.Plan
	s := &sess{r: r, prop: prop, kind: p.CS("store"), dir: filepath.Join(r.Dir, "filerdb"), sig: int32(p.C("sig")), model: newModel()}
	if s.kind == "" {
		s.kind = "leveldb2"
	}
	if s.sig == 0 {
		s.sig = 0x5157
	}
	s.faults = p.C("faults") == 1
	r.Res.FaultConfig = s.faults
	if u := p.CS("paths"); u != "" {
		s.universe = strings.Split(u, ",")
	}
	// every instant the SUT reads is half a second away from a whole second: TTL comparisons never sit on an edge
	time.Sleep(500 * time.Millisecond)
	s.startVolStub()
	s.startRepl()
	if !s.open(nil) {
		return nil
	}
	return s
}

func (s *sess) open(carry *faultStore) bool {
	n, err := openFiler(s.kind, s.dir, s.sig, carry, s.vs != nil)
	if err != nil {
		s.r.HarnessError("open filer on %s: %v", s.kind, err)
		return false
	}
	s.n = n
	s.n.st.noPrefix = s.r.Plan.C("noprefix") == 1
	s.afterOpen()
	return true
}

func (s *sess) close() {
	if s.n != nil {
		s.n.shutdown()
		s.n = nil
	}
	s.stopVolStub()
	s.stopRepl()
	simkit.Wait()
}

func (s *sess) now() time.Time { return time.Now() }

func (s *sess) nextFid() string {
	s.fidSeq++
	return needle.NewFileId(needle.VolumeId(1+s.fidSeq%3), 0x100+s.fidSeq, uint32(0x9e3779b9*uint32(s.fidSeq)+7)).String()
}

func split(p string) (dir, name string) {
	return util.FullPath(p).DirAndName()
}

// sut runs one SUT call and converts the store guard's runaway panic into a value.
func (s *sess) sut(f func() error) (err error, run *runaway) {
	defer func() {
		if p := recover(); p != nil {
			if rw, ok := p.(runaway); ok {
				run = &rw
				return
			}
			simkit.Reclassify(s.r, p, string(debug.Stack()))
		}
	}()
	s.n.st.beginOp()
	deepest, uni := 0, 0
	for _, p := range s.model.paths() {
		if d := strings.Count(p, "/"); d > deepest {
			deepest = d
		}
	}
	for _, p := range s.universe {
		if d := strings.Count(p, "/"); d > uni {
			uni = d
		}
	}
	depthLimit = maxLegitDepth
	if deepest+uni+3 > depthLimit {
		depthLimit = deepest + uni + 3
	}
	err = f()
	return
}

func errOf(err error, respErr string) error {
	if err != nil {
		return err
	}
	if respErr != "" {
		return fmt.Errorf("%s", respErr)
	}
	return nil
}

// structOnly: in runs with cfg "fidstruct" the requests name their chunks by the structured id only (file_id
// string empty), the form entries have inside the stores and on the wire between filers.
func (s *sess) structOnly(e *filer_pb.Entry) {
	if s.r.Plan.C("fidstruct") == 1 && e != nil && len(e.Chunks) > 0 {
		filer_pb.BeforeEntrySerialization(e.Chunks)
		s.r.Probe("request-names-chunks-by-struct-only")
	}
}

func (s *sess) rpcCreate(e *filer_pb.Entry, dir string, oexcl bool) error {
	s.structOnly(e)
	resp, err := s.n.fs.CreateEntry(ctx, &filer_pb.CreateEntryRequest{Directory: dir, Entry: e, OExcl: oexcl, IsFromOtherCluster: s.fromOther, Signatures: s.sigs})
	if resp != nil {
		return errOf(err, resp.Error)
	}
	return err
}

func (s *sess) rpcUpdate(e *filer_pb.Entry, dir string) error {
	s.structOnly(e)
	_, err := s.n.fs.UpdateEntry(ctx, &filer_pb.UpdateEntryRequest{Directory: dir, Entry: e, IsFromOtherCluster: s.fromOther, Signatures: s.sigs})
	return err
}

func (s *sess) rpcLookup(p string) (*filer_pb.Entry, error) {
	dir, name := split(p)
	resp, err := s.n.fs.LookupDirectoryEntry(ctx, &filer_pb.LookupDirectoryEntryRequest{Directory: dir, Name: name})
	if err != nil {
		return nil, err
	}
	return resp.Entry, nil
}

// snapFromStep builds the entry a step asks for.
func (s *sess) snapFromStep(st *simkit.Step, p string) (*snap, map[string][]byte) {
	rng := simkit.StepRand(st, 1)
	now := s.now().Unix()
	e := &snap{Path: p, IsDir: st.Int("dir") == 1, Mode: uint32(st.Int("mode")), Uid: uint32(st.Int("uid")), Gid: uint32(st.Int("gid")),
		Mtime: 946684800 + st.Int("mt"), Crtime: now, Ttl: int32(st.Int("ttl"))}
	if e.Mode == 0 {
		e.Mode = 0644
	}
	if e.IsDir {
		e.Mode |= uint32(os.ModeDir)
		return e, nil
	}
	if m := st.Int("mime"); m > 0 {
		e.Mime = []string{"", "text/plain", "image/png", "application/json"}[m%4]
	}
	if st.Int("rich") == 1 {
		e.Coll, e.Repl, e.Disk = "col1", "001", "ssd"
		e.User, e.Groups = "alice", "staff,dev"
		e.Md5 = fmt.Sprintf("%x", rng.Bytes(16))
		e.FSize = uint64(rng.Intn(1 << 20))
	}
	if st.Int("sym") == 1 {
		e.Symlink = "../target/of/link"
		e.Mode |= uint32(os.ModeSymlink)
	}
	off := int64(0)
	for i := int64(0); i < st.Int("nch"); i++ {
		sz := uint64(st.Int("csz"))
		if sz == 0 {
			sz = 1 + uint64(rng.Intn(4096))
		}
		c := mchunk{Fid: s.nextFid(), Off: off, Size: sz, Mtime: 946684800000000000 + int64(s.fidSeq)*1000 + int64(rng.Intn(999)), ETag: fmt.Sprintf("%08x", rng.Uint64()&0xffffffff)}
		if st.Int("rich") == 1 {
			switch i % 4 {
			case 1:
				c.Src = needle.NewFileId(needle.VolumeId(7), 0x9000+s.fidSeq, 0xabcdef01).String()
			case 2:
				c.Cipher = fmt.Sprintf("%x", rng.Bytes(16))
			case 3:
				c.Gz = true
			}
		}
		off += int64(sz)
		e.Chunks = append(e.Chunks, c)
	}
	if keep := int(st.Int("keepold")); keep > 0 {
		// the writer keeps some of the file's current chunks (a partial overwrite, an append done by the client)
		if cur := s.model.nodes[p]; cur != nil && !cur.s.IsDir && cur.link == nil { // (plain files only: sharing chunks with a link group is the recorded hard-link findings' business)
			var kept []mchunk
			for _, c := range s.model.expected(p).Chunks {
				if !c.Manifest && len(kept) < keep {
					c.NonCanon = ""
					kept = append(kept, c)
				}
			}
			if len(kept) > 0 {
				e.Chunks = append(kept, e.Chunks...)
				s.r.Probe("write-keeps-existing-chunks")
			}
		}
	}
	if k := int(st.Int("mf")); k > 0 && len(e.Chunks) >= 2 && s.vs != nil {
		if k > len(e.Chunks) {
			k = len(e.Chunks)
		}
		m := s.newManifest(e.Chunks[:k])
		e.Chunks = append([]mchunk{}, e.Chunks[k:]...)
		e.Chunks = append(e.Chunks, m) // cleanupChunks puts manifest chunks last
	}
	if n := st.Int("inl"); n > 0 {
		b := rng.Bytes(int(n))
		if st.Int("gzlike") == 1 && len(b) >= 3 {
			b[0], b[1], b[2] = 0x1f, 0x8b, 0x08 // looks like a gzip stream: the stores sniff values for compression
		}
		e.Content = string(b)
	}
	var ext map[string][]byte
	if n := st.Int("ext"); n > 0 {
		ext = map[string][]byte{}
		for i := int64(0); i < n; i++ {
			ext[fmt.Sprintf("user.k%d", i)] = rng.Bytes(1 + rng.Intn(12))
		}
		e.Ext = extString(ext)
	}
	return e, ext
}

// step executes one plan step; false = stop the run.
func (s *sess) step(st *simkit.Step) bool {
	r := s.r
	s.opIndex++
	s.curFired = ""
	s.expireModel()
	if s.r.Plan.C("noupd") == 1 {
		// this run keeps clear of operations that overwrite an existing entry (update events)
		tgt := st.Str("p")
		if st.Kind == "mv" {
			tgt = st.Str("q")
		}
		if (st.Kind == "mk" || st.Kind == "up" || st.Kind == "mv") && s.model.nodes[tgt] != nil {
			r.Log("%s %s skipped (the target exists; this run produces no update events)", st.Kind, tgt)
			return true
		}
	}
	switch st.Kind {
	case "mk", "up":
		s.doWrite(st)
	case "rm":
		s.doDelete(st)
	case "mv":
		s.doRename(st)
	case "ln":
		s.doLink(st)
	case "app":
		s.doAppend(st)
	case "restart":
		s.doRestart()
	case "fault":
		if s.faults {
			s.n.st.arm(st.Str("op"), int(st.Int("n")))
			r.Log("arm fault: %s call #%d of the next operation fails", st.Str("op"), st.Int("n"))
			r.Abs("fault:" + st.Str("op"))
		}
	case "adv":
		time.Sleep(time.Duration(st.Int("sec")) * time.Second)
		r.Log("adv %ds -> %s", st.Int("sec"), s.now().UTC().Format("15:04:05.000"))
		r.Abs("adv")
		r.NonTrivial()
	case "ls":
		s.doList(st)
	case "repl":
		s.doRepl(st)
	case "check":
		s.checkAgainst(s.model, "check")
	}
	return !r.Violated() && r.Res.HarnessError == ""
}

// ---------------------------------------------------------------- operations

func (s *sess) doWrite(st *simkit.Step) {
	p := st.Str("p")
	want, ext := s.snapFromStep(st, p)
	if s.chunkRun && !want.IsDir {
		s.addDataChunks(st, want)
	}
	keep := st.Int("keep") == 1
	oexcl := st.Int("excl") == 1
	dir, _ := split(p)
	before := s.model
	after := before.clone()
	shapeP := before.shape(p)
	if keep {
		// write-through: the client read the entry first and keeps its hard-link identity (and, for a
		// plain file, nothing changes compared with a fresh write)
		if cur := before.nodes[p]; cur != nil && cur.link != nil {
			want.LinkId = cur.link.id
			want.Counter = int32(len(cur.link.names))
			if got, err := s.rpcLookup(p); err == nil && got != nil {
				want.Counter = got.HardLinkCounter // what a client would have read
			}
		} else {
			keep = false
		}
	}
	var out outcome
	var why string
	verb := "create"
	if st.Kind == "up" {
		verb = "update"
		out, why = after.applyUpdate(want, keep)
	} else {
		out, why = after.applyCreate(want, oexcl, keep)
	}
	kindS := "file"
	if want.IsDir {
		kindS = "dir"
	}
	s.lastOp = fmt.Sprintf("%s %s over %s", verb, kindS, shapeP)
	s.role = opRole{kind: verb, plain: !keep, dstLinked: before.nodes[p] != nil && before.nodes[p].link != nil}
	if oexcl {
		s.lastOp += " excl"
	}
	if keep {
		s.lastOp += " write-through"
	}
	pb := want.pbEntry(ext)
	if st.Int("bothforms") == 1 && len(pb.Chunks) > 0 {
		// a client that read the entry back (both id forms are set then) and changed the string ids before
		// writing it again: the string is what GetFileIdString(), and so every reader, takes as the chunk's id
		for _, c := range pb.Chunks {
			c.Fid = &filer_pb.FileId{VolumeId: 61, FileKey: 0x5151, Cookie: 0x1f1f1f1f}
			if c.SourceFileId != "" {
				c.SourceFid = &filer_pb.FileId{VolumeId: 62, FileKey: 0x5252, Cookie: 0x2e2e2e2e}
			}
		}
		s.r.Probe("chunk-written-with-both-id-forms")
	}
	if s.gc != nil {
		s.gc.requested = true
	}
	ft := s.beginFromTarget(st, p)
	if ft {
		s.r.Log("(the next change comes from the target cluster: signature %d, from-other-cluster)", s.repl.targetSig)
	}
	err, run := s.sut(func() error {
		if st.Kind == "up" {
			return s.rpcUpdate(pb, dir)
		}
		return s.rpcCreate(pb, dir, oexcl)
	})
	s.r.Log("%s %s %s -> err=%v   (model: %s, %s)", verb, p, want.brief(), err, out, why)
	s.noteSibling(p)
	s.settle(out, why, err, run, before, after)
	s.endFromTarget(ft, before)
}

func (s *sess) doDelete(st *simkit.Step) {
	p := st.Str("p")
	rec, ign, data := st.Int("rec") == 1, st.Int("ign") == 1, st.Int("data") == 1
	dir, name := split(p)
	if st.Int("data") == 2 {
		// the mount's rule (weed/filesys/dir.go removeOneFile): delete the data with the last name
		data = true
		if e, err := s.rpcLookup(p); err == nil && e != nil {
			data = e.HardLinkCounter <= 1
		}
	}
	before := s.model
	after := before.clone()
	s.lastOp = fmt.Sprintf("delete %s rec=%v data=%v", before.shape(p), rec, data)
	if ign {
		s.lastOp += " ignore-recursive-error"
	}
	s.role = opRole{kind: "delete", data: data, ign: ign, linkedInside: before.isDir(p) && before.hasLinkedInside(p)}
	if n := before.nodes[p]; n != nil && n.link != nil && len(n.link.names) > 1 {
		s.role.srcLinked = true // a hard-linked name that is not the last one
	}
	if before.isDir(p) && before.hasLinkedInside(p) {
		s.lastOp += " linked-inside"
	}
	out, why := after.applyDelete(p, rec)
	ft := s.beginFromTarget(st, p)
	err, run := s.sut(func() error {
		resp, err := s.n.fs.DeleteEntry(ctx, &filer_pb.DeleteEntryRequest{Directory: dir, Name: name, IsDeleteData: data, IsRecursive: rec, IgnoreRecursiveError: ign, IsFromOtherCluster: s.fromOther, Signatures: s.sigs})
		if resp != nil {
			return errOf(err, resp.Error)
		}
		return err
	})
	s.r.Log("delete %s rec=%v ign=%v data=%v -> err=%v   (model: %s, %s)", p, rec, ign, data, err, out, why)
	s.noteDeleteRequest(before, after, p, data)
	s.noteSibling(p)
	s.settle(out, why, err, run, before, after)
	s.endFromTarget(ft, before)
}

func (s *sess) doRename(st *simkit.Step) {
	p, q := st.Str("p"), st.Str("q")
	od, on := split(p)
	nd, nn := split(q)
	before := s.model
	after := before.clone()
	s.lastOp = fmt.Sprintf("rename %s -> %s", before.shape(p), before.shape(q))
	s.role = opRole{kind: "rename", plain: true}
	if n := before.nodes[p]; n != nil {
		s.role.srcLinked = n.link != nil || (n.s.IsDir && before.hasLinkedInside(p))
	}
	if n := before.nodes[q]; n != nil {
		s.role.dstLinked = n.link != nil || (n.s.IsDir && before.hasLinkedInside(q))
	}
	if under(q, p) {
		s.lastOp += " (own descendant)"
	} else if p == q {
		s.lastOp += " (same path)"
	}
	if st.Int("plainonly") == 1 && (s.role.srcLinked || s.role.dstLinked) {
		s.r.Log("rename %s -> %s skipped (this run keeps renames away from hard-linked names)", p, q)
		return
	}
	out, why := after.applyRename(p, q)
	if s.gc != nil {
		s.gc.requested = true // the overwritten target's chunks, if any, are the filer's to delete
	}
	err, run := s.sut(func() error {
		_, err := s.n.fs.AtomicRenameEntry(ctx, &filer_pb.AtomicRenameEntryRequest{OldDirectory: od, OldName: on, NewDirectory: nd, NewName: nn})
		return err
	})
	s.r.Log("rename %s -> %s -> err=%v   (model: %s, %s)", p, q, err, out, why)
	s.noteSibling(p, q)
	s.settle(out, why, err, run, before, after)
}

// doLink sends what weed/filesys/dir_link.go sends: UpdateEntry of the old name with the hard
// link id (fresh if it had none) and the incremented counter, then CreateEntry of the new name
// with the same attributes, chunks, extended attributes, id and counter. The kernel has checked
// before that the old name is a file, the new name is free and its directory exists.
func (s *sess) doLink(st *simkit.Step) {
	p, q := st.Str("p"), st.Str("q")
	before := s.model
	src := before.nodes[p]
	// lnover: a client that links onto an EXISTING file name without unlinking it first (the filer API
	// allows it and handleUpdateToHardLinks has a branch for it); otherwise only what the kernel lets through
	over := false
	if qn := before.nodes[q]; qn != nil && src != nil && !src.s.IsDir && !qn.s.IsDir && p != q &&
		s.r.Plan.C("lnover") == 1 && s.gc == nil && (qn.link == nil || qn.link != src.link) {
		over = true
	}
	if src == nil || src.s.IsDir || (before.nodes[q] != nil && !over) || !before.isDir(parentOf(q)) {
		s.r.Log("link %s -> %s skipped (kernel would refuse: %s -> %s)", p, q, before.shape(p), before.shape(q))
		return
	}
	old, err := s.rpcLookup(p)
	if err != nil || old == nil {
		s.r.Violate("lookup-failed", "link-source", "lookup of %s, which the model holds, failed: %v", p, err)
		return
	}
	after := before.clone()
	an := after.nodes[p]
	s.lastOp = fmt.Sprintf("link %s", before.shape(p))
	s.role = opRole{kind: "link"}
	if len(old.HardLinkId) == 0 {
		s.linkSeq++
		id := append(simkit.NewRand(simkit.Mix(s.r.Plan.Seed, 77, uint64(s.linkSeq))).Bytes(16), 0x01)
		old.HardLinkId = id
		old.HardLinkCounter = 1
		l := &mlink{id: fmt.Sprintf("%x", id), names: map[string]bool{p: true}}
		l.inode = after.expected(p).clone()
		after.links[l.id] = l
		an.link = l
	}
	old.HardLinkCounter++
	l := after.links[fmt.Sprintf("%x", old.HardLinkId)]
	if l == nil || an.link != l {
		// the entry carries a link id the model does not attribute to this name: an earlier
		// divergence that the per-step comparison has already reported or accepted
		s.r.Log("link %s -> %s skipped (entry carries link id %x unknown to the model)", p, q, old.HardLinkId)
		return
	}
	if over {
		// the overwritten name leaves its own link group (if any); the group's record goes with its last name
		if ql := after.nodes[q].link; ql != nil {
			delete(ql.names, q)
			if len(ql.names) == 0 {
				delete(after.links, ql.id)
			}
		}
		s.r.Probe("link-over-existing-name")
		s.r.Abs("lnover")
	}
	l.names[q] = true
	after.nodes[q] = &mnode{s: &snap{Path: q}, link: l}
	if l.inode.Content != "" {
		// dir_link.go's CreateEntry request for the new name carries no Content field, and the
		// shared record is rewritten from it: the model follows the requests (see the report)
		l.inode.Content = ""
		s.r.Probe("link-request-drops-inline-content")
	}
	od, _ := split(p)
	nd, nn := split(q)
	if s.gc != nil {
		s.gc.requested = false
	}
	err1, run := s.sut(func() error {
		if _, err := s.n.fs.UpdateEntry(ctx, &filer_pb.UpdateEntryRequest{Directory: od, Entry: old}); err != nil {
			return fmt.Errorf("update old name: %v", err)
		}
		return s.rpcCreate(&filer_pb.Entry{Name: nn, IsDirectory: false, Attributes: old.Attributes, Chunks: old.Chunks, Extended: old.Extended,
			HardLinkId: old.HardLinkId, HardLinkCounter: old.HardLinkCounter}, nd, false)
	})
	s.r.Log("link %s -> %s id=%x counter=%d -> err=%v", p, q, old.HardLinkId[:4], old.HardLinkCounter, err1)
	s.settle(mustOK, "linked", err1, run, before, after)
}

func (s *sess) doRestart() {
	carry := s.n.st
	s.n.shutdown()
	s.n = nil
	if !s.open(carry) {
		return
	}
	s.r.Log("restart (clean shutdown, reopen %s)", s.kind)
	s.r.Abs("restart")
	s.r.Fault("restart")
	s.lastOp = "restart"
	s.role = opRole{kind: "restart"}
	s.curFired = ""
	if s.gc != nil {
		s.gc.requested = false
		s.gc.op = nil
		s.settleGC(mustOK, nil, s.model, s.model, false)
		return
	}
	s.checkAgainst(s.model, "after restart")
}

// ---------------------------------------------------------------- observation

type observation struct {
	entries map[string]*snap
}

// observe reads the whole namespace back. Anything that is wrong whatever the model says
// (unordered or duplicated listing, listing and lookup disagreeing, an entry without a parent
// directory) is reported here.
func (s *sess) observe(extra ...*model) *observation {
	r := s.r
	o := &observation{entries: map[string]*snap{}}
	var walk func(dir string, depth int) bool
	walk = func(dir string, depth int) bool {
		if depth > depthLimit+2 {
			r.Violate("tree-too-deep", s.lastOp, "listing reached depth %d at %s", depth, dir)
			return false
		}
		ents, _, err := s.n.f.ListDirectoryEntries(ctx, util.FullPath(dir), "", false, 100000, "", "", "")
		if err != nil {
			r.Violate("listing-error", s.lastOp, "listing %s failed: %v", dir, err)
			return false
		}
		last := ""
		for i, e := range ents {
			name := e.Name()
			if i > 0 && name <= last {
				r.Violate("listing-order", s.lastOp, "listing of %s returns %q after %q", dir, name, last)
				return false
			}
			last = name
			sn := snapOf(e)
			if parentOf(sn.Path) != dir {
				r.Violate("listing-foreign-entry", s.lastOp, "listing of %s returned %s", dir, sn.Path)
				return false
			}
			o.entries[sn.Path] = sn
		}
		for _, e := range ents {
			if e.IsDirectory() {
				if !walk(string(e.FullPath), depth+1) {
					return false
				}
			}
		}
		return true
	}
	if !walk("/", 0) {
		return nil
	}
	s.zombies = nil // the walk has visited (and thereby lazily deleted) every expired entry
	// direct lookups
	seen := map[string]bool{}
	var cand []string
	add := func(p string) {
		if p != "/" && p != "" && !seen[p] {
			seen[p] = true
			cand = append(cand, p)
		}
	}
	for _, p := range s.universe {
		add(p)
	}
	for _, p := range s.n.st.touchedPaths() {
		add(p)
	}
	for _, m := range append(extra, s.model) {
		if m != nil {
			for _, p := range m.paths() {
				add(p)
			}
		}
	}
	for p := range o.entries {
		add(p)
	}
	sort.Strings(cand)
	for _, p := range cand {
		e, err := s.n.f.FindEntry(ctx, util.FullPath(p))
		listed := o.entries[p]
		switch {
		case err == filer_pb.ErrNotFound || (err == nil && e == nil):
			delete(s.excusedOrphans, p)
			if listed != nil {
				r.Violate("lookup-misses-listed-entry", s.lastOp, "%s is returned by the listing of %s but a direct lookup says not found", p, parentOf(p))
				return nil
			}
		case err != nil:
			r.Violate("lookup-error", s.lastOp, "lookup of %s failed: %v", p, err)
			return nil
		default:
			got := snapOf(e)
			if listed != nil {
				delete(s.excusedOrphans, p)
			}
			if listed == nil {
				par := parentOf(p)
				underExcused := false
				for a := par; a != "/" && a != ""; a = parentOf(a) {
					if s.excusedOrphans[a] {
						underExcused = true
					}
				}
				if underExcused {
					// created below an excused left-over directory: as unreachable as that directory
					if s.excusedOrphans == nil {
						s.excusedOrphans = map[string]bool{}
					}
					s.excusedOrphans[p] = true
				}
				if par != "/" && (o.entries[par] == nil || !o.entries[par].IsDir || underExcused) {
					what := "does not exist"
					if o.entries[par] != nil {
						what = "is a file"
					}
					if s.excusedOrphans[p] || (s.role.kind == "delete" && s.role.ign && s.curFired != "") {
						// the client asked to ignore errors inside the recursion and a store failure was
						// injected into this very operation: an entry left behind under a deleted parent is
						// what that flag means, not a violation of the statement. It stays excused (and is
						// adopted by the model should a later operation make it reachable again).
						if !s.excusedOrphans[p] {
							if s.excusedOrphans == nil {
								s.excusedOrphans = map[string]bool{}
							}
							s.excusedOrphans[p] = true
							r.Probe("orphan-left-by-ignored-recursive-error-under-store-failure")
							r.Log("observation: %s [%s] stays in the store under the deleted %s (ignore_recursive_error + injected %s failure)", p, got.brief(), par, s.curFired)
						}
						// it is part of what is stored: later operations on that path meet it
						o.entries[p] = got
						for _, m := range append(extra, s.model) {
							if m != nil && m.nodes[p] == nil {
								m.nodes[p] = &mnode{s: got.clone()}
							}
						}
						continue
					}
					r.Violate("orphan-entry", s.lastOp, "entry %s [%s] exists in the store but its parent %s %s", p, got.brief(), par, what)
				} else {
					r.Violate("listing-misses-entry", s.lastOp, "lookup finds %s but the listing of %s does not return it", p, par)
				}
				return nil
			}
			if d := listed.diff(got); d != "" {
				if listed.LinkId != "" || got.LinkId != "" {
					// a hard-linked name: the lookup (which reads the shared record) is taken as the
					// entry's state for the comparison with the model; that the listing shows something
					// else is reported at the end of the run unless something else is wrong first
					if s.deferred == nil {
						s.deferred = &discrepancy{"listing-differs-from-lookup", "hard-linked entry", fmt.Sprintf("after %s, %s: the listing of %s says [%s], a lookup says [%s] (%s differs)", s.lastOp, p, parentOf(p), listed.brief(), got.brief(), d)}
					}
					r.Probe("listing-stale-for-hard-linked-name")
					o.entries[p] = got
					continue
				}
				r.Violate("listing-differs-from-lookup", s.lastOp+":"+d, "%s: listing says [%s], lookup says [%s]", p, listed.brief(), got.brief())
				return nil
			}
		}
	}
	return o
}

type discrepancy struct {
	class, field, msg string
}

// compare reports the first difference between what the model expects and what was observed.
func (s *sess) compare(m *model, o *observation) *discrepancy {
	// an entry written with a TTL that, counted from the (kept) creation time, has already run out
	// is hidden at once; the read-back that produced o has visited and removed it
	m.expire(s.now().Unix())
	for _, p := range m.paths() {
		want := m.expected(p)
		got := o.entries[p]
		if got == nil {
			return &discrepancy{"lost-entry", kindWord(want), fmt.Sprintf("%s [%s] is gone", p, want.brief())}
		}
		if d := want.diff(got); d != "" {
			class := "entry-mismatch"
			switch d {
			case "kind":
				class = "kind-changed"
			case "hardlink-id", "hardlink-counter":
				class = d
			}
			return &discrepancy{class, d, fmt.Sprintf("%s: expected [%s], found [%s]", p, want.brief(), got.brief())}
		}
	}
	for _, p := range sortedKeys(o.entries) {
		if m.nodes[p] == nil && s.excusedOrphans[p] {
			// an excused left-over became reachable again (its parent was re-created): the model adopts it
			m.nodes[p] = &mnode{s: o.entries[p].clone()}
			s.r.Probe("excused-orphan-reachable-again")
			continue
		}
		if m.nodes[p] == nil {
			return &discrepancy{"extra-entry", kindWord(o.entries[p]), fmt.Sprintf("%s [%s] exists but should not", p, o.entries[p].brief())}
		}
	}
	// the shared hard-link record exists exactly while at least one name does
	for _, id := range sortedKeys(m.links) {
		l := m.links[id]
		if l.loose {
			continue
		}
		_, err := s.n.f.Store.KvGet(ctx, unhex(id))
		exists := err == nil
		if err != nil && err != filer.ErrKvNotFound {
			return &discrepancy{"hardlink-record-error", "kvget", fmt.Sprintf("reading hard link record %s: %v", id[:8], err)}
		}
		if exists && len(l.names) == 0 {
			return &discrepancy{"hardlink-record-leaked", "no-names-left", fmt.Sprintf("hard link record %s still exists although no name refers to it", id[:8])}
		}
		if !exists && len(l.names) > 0 {
			return &discrepancy{"hardlink-record-missing", "names-left", fmt.Sprintf("hard link record %s is gone although %v still refer to it", id[:8], sortedKeys(l.names))}
		}
	}
	return nil
}

func kindWord(s *snap) string {
	if s.IsDir {
		return "dir"
	}
	if s.LinkId != "" {
		return "linked-file"
	}
	return "file"
}

// modelFromObs rebuilds the model from what is there (used only after a faulted operation that
// reported failure and left a state that is neither before nor after).
func (s *sess) modelFromObs(o *observation, prev *model) *model {
	m := newModel()
	for id, l := range prev.links {
		m.links[id] = &mlink{id: l.id, names: map[string]bool{}, inode: l.inode}
	}
	for _, p := range sortedKeys(o.entries) {
		e := o.entries[p].clone()
		n := &mnode{s: e}
		if e.LinkId != "" {
			l := m.links[e.LinkId]
			if l == nil {
				l = &mlink{id: e.LinkId, names: map[string]bool{}}
				m.links[e.LinkId] = l
			}
			in := e.clone()
			in.LinkId, in.Counter = "", 0
			l.inode = in
			l.names[p] = true
			l.bias = int(e.Counter) - len(l.names) // settles when the last name of the group has been seen
			n.link = l
		}
		m.nodes[p] = n
	}
	// a group whose counter or record no longer agrees with its names (a client-side link or unlink
	// sequence that failed half way, or one of the recorded hard-link findings) is from now on
	// only checked for the existence and kind of its names
	for id, l := range m.links {
		if pl := prev.links[id]; pl != nil && pl.loose {
			l.loose = true
		}
		_, err := s.n.f.Store.KvGet(ctx, unhex(id))
		if l.bias != 0 || (err == nil) != (len(l.names) > 0) {
			l.loose = true
		}
	}
	return m
}

func (s *sess) checkAgainst(m *model, tag string) {
	o := s.observe()
	if o == nil {
		return
	}
	if d := s.compare(m, o); d != nil {
		s.r.Violate(d.class, s.lastOp+":"+d.field, "%s: %s", tag, d.msg)
	}
}

// settle compares the filer's answer and the state it left with the model's prediction.
func (s *sess) settle(out outcome, why string, err error, run *runaway, before, after *model) {
	r := s.r
	fired, firedAt := s.n.st.disarm()
	s.curFired = fired
	okS := "ok"
	if err != nil {
		okS = "fail"
	}
	r.Abs(s.lastOp + "=" + okS)
	if before != nil && len(before.nodes) > 0 {
		r.NonTrivial()
	}
	if run != nil {
		r.Violate("rename-into-own-subtree", "not refused: unbounded recursion", "%s: the operation never terminates: it keeps creating ever deeper entries (stopped by the harness at %s); store calls: %s", s.lastOp, run.path, s.n.st.opTrace())
		return
	}
	s.collectDeletions()
	if fired != "" {
		s.lastOp += " [store failure: " + fired + "]"
	}
	if s.gc != nil {
		if fired != "" {
			r.Fault("store-" + fired)
			r.Log("fault fired: %s(%s); store calls: %s", fired, firedAt, s.n.st.opTrace())
		}
		s.settleGC(out, err, before, after, fired != "")
		return
	}
	if fired != "" {
		r.Fault("store-" + fired)
		r.Log("fault fired: %s(%s); store calls: %s", fired, firedAt, s.n.st.opTrace())
		s.settleFaulted(out, err, before, after, fired)
		return
	}
	if out == unspecified {
		o := s.observe(before, after)
		if o == nil {
			return
		}
		for _, p := range before.paths() {
			if got := o.entries[p]; got != nil && got.IsDir != before.nodes[p].s.IsDir {
				r.Violate("kind-changed", s.lastOp, "%s changed kind: was [%s], is [%s]", p, before.expected(p).brief(), got.brief())
				return
			}
		}
		r.Probe("result-unspecified-by-the-statement:" + why)
		s.model = s.modelFromObs(o, before)
		return
	}
	if out == mustOK && err != nil {
		r.Violate("operation-refused", s.lastOp, "the operation must succeed (%s) but failed: %v", why, err)
		return
	}
	if (out == mustFail || out == mustFailPartial) && err == nil {
		// report the state too: what did the accepted operation do?
		o := s.observe(before, after)
		extra := ""
		if o != nil {
			if d := s.compare(before, o); d != nil {
				extra = "; afterwards " + d.msg
			} else {
				extra = "; the namespace is unchanged"
			}
		}
		r.Violate("operation-accepted", s.lastOp, "the operation must be refused (%s) but reported success%s", why, extra)
		return
	}
	target := after
	if err != nil && out != mustFailPartial {
		target = before
	}
	if out == mustFailPartial {
		s.r.Probe("merge-rename-stopped-at-kind-conflict")
	}
	o := s.observe(before, after)
	if o == nil {
		return
	}
	if d := s.compare(target, o); d != nil {
		class, key := s.causeKey(d, err != nil)
		if err != nil {
			r.Violate(class, key, "%s failed (%v) but changed the namespace: %s", s.lastOp, err, d.msg)
		} else {
			r.Violate(class, key, "after %s: %s", s.lastOp, d.msg)
		}
		return
	}
	s.checkGC(before, target, err == nil)
	s.model = target
}

// settleGC (C20 runs): the oracle is about chunks, on what is actually stored; whether the
// namespace matches the reference tree is C18's and C21's business, so a mismatch only
// re-synchronises the model (and is remembered as context for violation keys).
func (s *sess) settleGC(out outcome, err error, before, after *model, faulted bool) {
	o := s.observe(before, after)
	if o == nil {
		return
	}
	s.checkGCObs(o, s.gc.requested && err == nil, faulted)
	if s.r.Violated() {
		return
	}
	if faulted && err != nil && len(before.links) > 0 {
		// a failed, possibly half-done operation on a tree with hard links (no transactions): the shared records may
		// now disagree with the names, and later chunk deletions follow from that; the run is judged up to here
		s.stopRun = true
	}
	target := after
	if err != nil && out != mustFailPartial {
		target = before
	}
	if d := s.compare(target, o); d != nil {
		if !faulted {
			class, _ := s.causeKey(d, err != nil)
			switch class {
			case "rename-of-hard-linked-name":
				s.taint(class)
				// remember which names the rename left behind as plain copies of a linked file
				for _, p := range after.paths() {
					if e := after.expected(p); e.LinkId != "" {
						if got := o.entries[p]; got != nil && got.LinkId == "" {
							s.gc.renamedLink[p] = true
							for _, c := range got.Chunks {
								s.gc.renameShared[c.Fid] = true
								for _, d := range s.manifests[c.Fid] {
									s.gc.renameShared[d] = true
								}
							}
						}
					}
				}
			case "hard-linked-name-overwritten-by-plain-entry", "recursive-delete-over-hard-linked-names":
				s.taint(class)
			}
			s.r.Probe("model-resynchronised")
			s.r.Log("note: %s", d.msg)
		}
		s.model = s.modelFromObs(o, after)
		return
	}
	s.model = target
}

// settleFaulted: a store call of this operation was failed. An operation that nevertheless
// reports success must have taken full effect. One that reports failure must leave a
// well-formed tree without any file<->directory replacement; whether it left the state before,
// the state after or (multi-step operations on a store without transactions) something in
// between is recorded, not judged.
func (s *sess) settleFaulted(out outcome, err error, before, after *model, fired string) {
	r := s.r
	o := s.observe(before, after)
	if o == nil {
		return // structural violation already recorded
	}
	if out == unspecified {
		s.model = s.modelFromObs(o, before)
		return
	}
	if err == nil {
		r.Probe("success-despite-store-failure")
		if d := s.compare(after, o); d != nil {
			if s.role.kind == "delete" && s.role.ign {
				// the client asked to ignore errors inside the recursive delete: an incomplete result
				// under an injected store failure is what the flag means (recorded, model re-synchronised)
				r.Probe("incomplete-delete-excused-by-ignore-recursive-error")
				r.Log("observation: %s reported success after the injected %s failure, but: %s", s.lastOp, fired, d.msg)
				s.model = s.modelFromObs(o, after)
				return
			}
			r.Violate("acknowledged-but-incomplete", s.lastOp+":"+fired+":"+d.field, "store call %s failed, the operation still reported success, but: %s", fired, d.msg)
			return
		}
		s.model = after
		return
	}
	for _, p := range before.paths() {
		if got := o.entries[p]; got != nil && got.IsDir != before.nodes[p].s.IsDir {
			r.Violate("kind-changed", s.lastOp+":"+fired, "after the failed operation %s changed kind: was [%s], is [%s]", p, before.expected(p).brief(), got.brief())
			return
		}
	}
	switch {
	case s.compare(before, o) == nil:
		r.Probe("failed-op-left-state-before")
		s.model = before
	case s.compare(after, o) == nil:
		r.Probe("failed-op-left-state-after")
		s.model = after
	default:
		r.Probe("failed-op-left-intermediate-state")
		r.Log("observation: intermediate state after failed %s: %s", s.lastOp, s.compare(before, o).msg)
		s.model = s.modelFromObs(o, after)
		if len(s.model.links) > 0 {
			// a half-done operation on a tree with hard links: the shared records (counters) may disagree with the
			// names in ways the observation cannot express, and what follows is a consequence of the missing
			// transaction, not something the statements speak about. The run is judged up to here.
			s.stopRun = true
		}
	}
	s.gcResync()
}
