//go:debug randseednop=0
package filersim

import (
	"runtime/debug"
	"testing"

	"verifsim/simkit"
)

// Every open of an embedded store allocates its 16 MiB write buffers (eight
// databases for leveldb2) and every Filer its 16 MiB of log buffers, almost
// all of it never touched. With the collector running these spans are reused
// and therefore re-zeroed on every open (90 % of the wall time); with the
// collector off they always come fresh (lazily zero) from the OS and only the
// touched pages cost anything. The worker process is recycled by the driver
// after one chunk of runs, which bounds the growth.
func TestWorker(t *testing.T) {
	debug.SetGCPercent(-1)
	simkit.WorkerMain(t)
}
