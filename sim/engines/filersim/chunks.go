package filersim

import (
	"bytes"
	"fmt"
	"os"
	"regexp"
	"sort"
	"strings"

	"google.golang.org/grpc"
	"google.golang.org/grpc/test/bufconn"

	"verifsim/simkit"

	"github.com/chrislusf/seaweedfs/weed/pb/filer_pb"
)

// C36 with chunk data ("chunks"=1): files carry 1-3 chunks whose bytes live on
// the stub volume servers of gc.go. Every volume has 2-3 replica locations
// (announced by the stub master to the filer's real MasterClient); the step's
// own seed decides per (chunk, replica) whether that replica serves the bytes,
// answers 404, answers 500 or refuses the connection - one replica always
// serves. The real local sink copies the data through the real path:
// LocalSink.CreateEntry -> filer.ViewFromChunks -> repl_util.CopyFromChunkViews
// -> FilerSource.LookupFileId (real gRPC, over bufconn, to the real
// FilerServer.LookupVolume of the session's filer) -> util.ReadUrlAsStream over
// the util.Transport HTTP seam.

const filerGrpcAddr = "source:18888" // what the replication source configuration names

// serveFilerGrpc registers the session's real FilerServer on an in-memory listener.
func (s *sess) serveFilerGrpc() {
	l := bufconn.Listen(1 << 20)
	s.vs.mu.Lock()
	s.vs.listeners[filerGrpcAddr] = l
	s.vs.mu.Unlock()
	srv := grpc.NewServer()
	filer_pb.RegisterSeaweedFilerServer(srv, s.n.fs)
	go srv.Serve(l)
	s.vs.servers = append(s.vs.servers, srv)
	simkit.Wait()
}

var replicaBehaviours = []string{"404", "500", "down"}

// addDataChunks replaces the file's chunk list by 1-3 chunks with real bytes (contiguous; in a
// third of the files a later chunk overlaps the end of the one before, so that one is only partly visible).
func (s *sess) addDataChunks(st *simkit.Step, e *snap) {
	rng := simkit.StepRand(st, 7)
	n := 1 + rng.Intn(3)
	overlap := rng.Chance(1, 3)
	e.Chunks = nil
	e.Content = ""
	off := int64(0)
	for i := 0; i < n; i++ {
		size := 1 + rng.Intn(600)
		if i > 0 && overlap {
			prev := e.Chunks[i-1]
			back := 1 + rng.Intn(int(prev.Size))
			if back >= int(prev.Size) {
				back = int(prev.Size) - 1 // the earlier chunk keeps at least its first byte
			}
			if back > 0 {
				off -= int64(back)
				if size <= back {
					size = back + 1 // and the later one reaches beyond it
				}
			}
		}
		c := mchunk{Fid: s.nextFid(), Off: off, Size: uint64(size), Mtime: 946684800000000000 + int64(s.fidSeq)*1000, ETag: fmt.Sprintf("%08x", rng.Uint64()&0xffffffff)}
		blob := rng.Bytes(size)
		// what each replica does with this chunk; one of them always serves it
		bh := make([]string, len(s.vs.hosts))
		good := rng.Intn(len(bh))
		for h := range bh {
			bh[h] = "ok"
			if h != good && rng.Chance(1, 2) {
				bh[h] = replicaBehaviours[rng.Intn(len(replicaBehaviours))]
			}
		}
		s.vs.mu.Lock()
		s.vs.blobs[c.Fid] = blob
		s.vs.behav[c.Fid] = bh
		s.vs.mu.Unlock()
		e.Chunks = append(e.Chunks, c)
		off += int64(size)
	}
}

// pattern names what the replicas of a chunk do, in the order the filer hands them out.
func (s *sess) pattern(fid string) string {
	s.vs.mu.Lock()
	defer s.vs.mu.Unlock()
	bh := s.vs.behav[fid]
	if len(bh) == 0 {
		return "unknown-chunk"
	}
	words := []string{"first", "second", "third"}
	var bad []string
	for i, b := range bh {
		if b != "ok" {
			bad = append(bad, words[i]+"-replica-"+b)
		}
	}
	if len(bad) == 0 {
		return "all-replicas-serve"
	}
	return strings.Join(bad, "+")
}

// wantBytes: what the file's chunks resolve to - later chunks (by modification time) cover earlier ones.
func (s *sess) wantBytes(e *snap) []byte {
	cs := append([]mchunk{}, e.Chunks...)
	sort.SliceStable(cs, func(i, j int) bool { return cs[i].Mtime < cs[j].Mtime })
	var total int64
	for _, c := range cs {
		if end := c.Off + int64(c.Size); end > total {
			total = end
		}
	}
	out := make([]byte, total)
	s.vs.mu.Lock()
	defer s.vs.mu.Unlock()
	for _, c := range cs {
		copy(out[c.Off:], s.vs.blobs[c.Fid])
	}
	return out
}

// chunkAt: the chunk that is visible at byte offset off of the file.
func chunkAt(e *snap, off int64) (mchunk, bool) {
	var best mchunk
	found := false
	for _, c := range e.Chunks {
		if off >= c.Off && off < c.Off+int64(c.Size) && (!found || c.Mtime > best.Mtime) {
			best, found = c, true
		}
	}
	return best, found
}

// checkSinkContent: every mirrored file of a local sink holds exactly the source file's bytes.
func (s *sess) checkSinkContent(which, root string) bool {
	if !s.chunkRun {
		return true
	}
	rp := s.repl
	for _, p := range s.model.paths() {
		if !under(p, rp.watch) {
			continue
		}
		e := s.model.expected(p)
		if e.IsDir {
			continue
		}
		want := s.wantBytes(e)
		got, err := os.ReadFile(root + p[len(rp.watch):])
		if err != nil {
			s.r.Violate("sink-content-differs", "mirrored file unreadable", "%s: %s cannot be read back from the sink: %s", which, p, strings.ReplaceAll(err.Error(), s.r.Dir, "$RUN"))
			return false
		}
		if bytes.Equal(got, want) {
			s.r.Probe("sink-file-content-compared")
			continue
		}
		// the first byte that is wrong (or missing) belongs to one chunk: its replica pattern is the key
		at := int64(0)
		for at < int64(len(got)) && at < int64(len(want)) && got[at] == want[at] {
			at++
		}
		key, view := "no chunk at the first wrong byte", ""
		if c, ok := chunkAt(e, at); ok {
			key = s.pattern(c.Fid)
			view = fmt.Sprintf(" (chunk %s at %d+%d, replicas: %s)", c.Fid, c.Off, c.Size, key)
		} else if int64(len(got)) > int64(len(want)) {
			key = "sink file longer than the source"
		}
		s.r.Violate("sink-content-differs", key, "%s: the mirrored copy of %s has %d bytes, the source file's chunks resolve to %d bytes; first difference at byte %d%s; source chunks: %s", which, p, len(got), len(want), at, view, chunkList(e))
		return false
	}
	return true
}

func chunkList(e *snap) string {
	var out []string
	for _, c := range e.Chunks {
		out = append(out, fmt.Sprintf("%s@%d+%d", c.Fid, c.Off, c.Size))
	}
	return strings.Join(out, " ")
}

var fidInURL = regexp.MustCompile(`http://[^/]+/([0-9]+,[0-9a-f]+)`)

// copyFailed: a local-sink call returned an error although, by construction, one replica of every
// chunk serves its bytes. Errors that are not about reading chunk data (the watched path is a file,
// and the sink directory cannot be opened as one ...) are not this check's business.
func (s *sess) copyFailed(which string, err error) bool {
	if !s.chunkRun || err == nil {
		return false
	}
	msg := strings.ReplaceAll(err.Error(), s.r.Dir, "$RUN")
	if !strings.Contains(msg, "http://") && !strings.Contains(msg, "LookupFileId") {
		return false
	}
	key := "lookup of the chunk's locations failed"
	if m := fidInURL.FindStringSubmatch(msg); m != nil {
		key = s.pattern(m[1])
	}
	s.r.Violate("sink-copy-failed", key, "%s: the sink call failed although a replica serves every chunk: %s", which, msg)
	return true
}

// flushServed turns the stub's request counters into probes (root goroutine only).
func (s *sess) flushServed() {
	if !s.chunkRun {
		return
	}
	s.vs.mu.Lock()
	defer s.vs.mu.Unlock()
	for _, k := range sortedKeys(s.vs.served) {
		for i := 0; i < s.vs.served[k]; i++ {
			s.r.Probe("replica-answered-" + k)
		}
		delete(s.vs.served, k)
	}
}
