package filersim

import (
	"context"
	"fmt"
	"os"
	"path/filepath"
	"sort"
	"strings"

	"github.com/golang/protobuf/proto"
	"google.golang.org/grpc"
	"google.golang.org/grpc/metadata"

	"verifsim/simkit"

	"github.com/chrislusf/seaweedfs/weed/command"
	"github.com/chrislusf/seaweedfs/weed/notification"
	"github.com/chrislusf/seaweedfs/weed/pb/filer_pb"
	"github.com/chrislusf/seaweedfs/weed/replication"
	"github.com/chrislusf/seaweedfs/weed/replication/sink/localsink"
	"github.com/chrislusf/seaweedfs/weed/replication/source"
	"github.com/chrislusf/seaweedfs/weed/util"
)

// C36: the source filer of the session executes a namespace history; its REAL
// change stream is consumed two ways:
//
//   queue path  (filer.replicate): every notification the filer hands to
//               notification.Queue (key = full path, message = EventNotification)
//               is fed, in order, to the real replication.Replicator, once with a
//               recording sink that calls itself "filer" and once with the real
//               local sink on a directory of the run;
//   stream path (filer.sync / filer.backup): the real gRPC handler
//               FilerServer.SubscribeLocalMetadata (path prefix and signature
//               filter, reading the filer's real LocalMetaLogBuffer) delivers to a
//               fake stream; the delivered events go through the real
//               genProcessFunction of weed/command, again into a recording sink
//               (subscribed with the target's signature, as filer.sync does) and
//               the real local sink (signature 0, as filer.backup does).
//
// Subscriber stop/resume = the next pass starts from an earlier offset, so a
// suffix of the events is delivered again.

type recEntry struct {
	isDir bool
	mtime int64
}

// recSink is a sink.ReplicationSink that applies the calls to an in-memory tree.
type recSink struct {
	name      string
	dir       string
	tree      map[string]recEntry
	calls     int
	targetSig int32
	sawTarget string         // a call that carried the target cluster's signature
	updates   map[string]int // UpdateEntry calls per key
	keyOnly   bool           // an update replaces the entry at key (as the object-store and local sinks do); else, like
	// the filer sink, it saves the entry under newParentPath
}

func (r *recSink) GetName() string                                      { return r.name }
func (r *recSink) Initialize(c util.Configuration, prefix string) error { return nil }
func (r *recSink) GetSinkToDirectory() string                           { return r.dir }
func (r *recSink) SetSourceFiler(s *source.FilerSource)                 {}
func (r *recSink) IsIncremental() bool                                  { return false }
func (r *recSink) note(what, key string, signatures []int32) {
	r.calls++
	for _, sg := range signatures {
		if sg == r.targetSig && r.sawTarget == "" {
			r.sawTarget = what + " " + key
		}
	}
}
func (r *recSink) DeleteEntry(key string, isDirectory, deleteIncludeChunks bool, signatures []int32) error {
	r.note("delete", key, signatures)
	key = strings.TrimSuffix(key, "/")
	for p := range r.tree {
		if p == key || strings.HasPrefix(p, key+"/") {
			delete(r.tree, p)
		}
	}
	return nil
}
func (r *recSink) CreateEntry(key string, entry *filer_pb.Entry, signatures []int32) error {
	r.note("create", key, signatures)
	key = strings.TrimSuffix(key, "/")
	r.tree[key] = recEntry{isDir: entry.IsDirectory, mtime: entry.Attributes.GetMtime()}
	return nil
}
func (r *recSink) UpdateEntry(key string, oldEntry *filer_pb.Entry, newParentPath string, newEntry *filer_pb.Entry, deleteIncludeChunks bool, signatures []int32) (bool, error) {
	r.note("update", key, signatures)
	key = strings.TrimSuffix(key, "/")
	if r.updates == nil {
		r.updates = map[string]int{}
	}
	r.updates[key]++
	if _, ok := r.tree[key]; !ok {
		if !r.keyOnly {
			// FilerSink.UpdateEntry looks the entry up first and reports a missing one as (false, lookup error)
			return false, fmt.Errorf("lookup %s: no entry is found in filer store", key)
		}
		return false, nil
	}
	// like FilerSink.UpdateEntry: the EXISTING sink entry (its own name) is saved under the handed parent path
	_, existingName := util.FullPath(key).DirAndName()
	nk := util.Join(newParentPath, existingName)
	if r.keyOnly {
		nk = key
	}
	if nk != key {
		delete(r.tree, key)
	}
	r.tree[nk] = recEntry{isDir: newEntry.IsDirectory, mtime: newEntry.Attributes.GetMtime()}
	return true, nil
}

type queued struct {
	key string
	msg *filer_pb.EventNotification
}

// recQueue is the notification.MessageQueue the filer publishes to.
type recQueue struct{ st *replState }

func (q recQueue) GetName() string                                      { return "verif" }
func (q recQueue) Initialize(c util.Configuration, prefix string) error { return nil }
func (q recQueue) SendMessage(key string, message proto.Message) error {
	if m, ok := message.(*filer_pb.EventNotification); ok {
		q.st.queue = append(q.st.queue, queued{key, proto.Clone(m).(*filer_pb.EventNotification)})
	}
	return nil
}

type replState struct {
	watch, target string
	targetSig     int32
	queue         []queued
	qpos          int
	qfloor        int
	floor2        int64
	floor2l       int64
	rec1, rec2    *recSink
	rec1k         *recSink
	repl1k        *replication.Replicator
	loc1, loc2    *localsink.LocalSink
	loc1Dir       string
	loc2Dir       string
	repl1, repl1l *replication.Replicator
	fn2, fn2l     func(resp *filer_pb.SubscribeMetadataResponse) error
	off2, off2l   int64   // stored offsets of the two subscribers
	seen2, seen2l []int64 // TsNs of the events each subscriber has processed (resume points)
	sibling       bool    // the history has touched a sibling whose name extends the watched directory's name
	preLocal      map[string]bool
	lost1         map[string]int // files the filer-like target has lost (or never had): update count of the sink at that moment
}

func (s *sess) startRepl() {
	if s.r.Plan.C("repl") != 1 {
		return
	}
	// the target directory's name is longer than, as long as, or (nested) much longer than the watched one
	target := "/backup"
	if t := s.r.Plan.CS("target"); t != "" {
		target = t
	}
	st := &replState{watch: "/w", target: target, targetSig: 0x7a7a7a}
	st.rec1 = &recSink{name: "filer", dir: st.target, tree: map[string]recEntry{}, targetSig: st.targetSig}
	st.rec2 = &recSink{name: "filer", dir: st.target, tree: map[string]recEntry{}, targetSig: st.targetSig}
	st.loc1Dir = filepath.Join(s.r.Dir, "sink1")
	st.loc2Dir = filepath.Join(s.r.Dir, "sink2")
	os.MkdirAll(st.loc1Dir, 0755)
	os.MkdirAll(st.loc2Dir, 0755)
	st.loc1, st.loc2 = &localsink.LocalSink{}, &localsink.LocalSink{}
	st.loc1.Initialize(mapConf{"directory": st.loc1Dir}, "")
	st.loc2.Initialize(mapConf{"directory": st.loc2Dir}, "")
	srcConf := mapConf{"grpcAddress": filerGrpcAddr, "directory": st.watch}
	st.repl1 = replication.NewReplicator(srcConf, "", st.rec1)
	st.rec1k = &recSink{name: "filer", dir: st.target, tree: map[string]recEntry{}, targetSig: st.targetSig, keyOnly: true}
	st.repl1k = replication.NewReplicator(srcConf, "", st.rec1k)
	st.repl1l = replication.NewReplicator(srcConf, "", st.loc1)
	st.fn2 = command.VerifGenProcessFunction(st.watch, st.target, st.rec2, false)
	// as runFilerBackup does: the sink learns where the chunk data comes from
	src2 := &source.FilerSource{}
	src2.DoInitialize("", filerGrpcAddr, st.watch, false)
	st.loc2.SetSourceFiler(src2)
	st.fn2l = command.VerifGenProcessFunction(st.watch, st.loc2Dir, st.loc2, false)
	notification.Queue = recQueue{st}
	s.repl = st
}

func (s *sess) stopRepl() {
	if s.repl != nil {
		notification.Queue = nil
	}
}

// fakeSubStream receives what SubscribeLocalMetadata sends.
type fakeSubStream struct {
	grpc.ServerStream
	got []*filer_pb.SubscribeMetadataResponse
}

func (f *fakeSubStream) Send(r *filer_pb.SubscribeMetadataResponse) error {
	f.got = append(f.got, proto.Clone(r).(*filer_pb.SubscribeMetadataResponse))
	return nil
}
func (f *fakeSubStream) Context() context.Context     { return ctx }
func (f *fakeSubStream) SetHeader(metadata.MD) error  { return nil }
func (f *fakeSubStream) SendHeader(metadata.MD) error { return nil }
func (f *fakeSubStream) SetTrailer(metadata.MD)       {}

// subscribe runs the filer's real subscription handler from sinceNs until it has delivered
// everything there is (it then waits for more, forever; the goroutine is left parked).
func (s *sess) subscribe(sinceNs int64, signature int32) []*filer_pb.SubscribeMetadataResponse {
	fl := &fakeSubStream{}
	req := &filer_pb.SubscribeMetadataRequest{ClientName: "verif", PathPrefix: s.repl.watch, SinceNs: sinceNs, Signature: signature}
	go s.n.fs.SubscribeLocalMetadata(req, fl)
	simkit.Wait()
	return fl.got
}

func (s *sess) doRepl(st *simkit.Step) {
	rp := s.repl
	if rp == nil {
		return
	}
	r := s.r
	switch st.Str("act") {
	case "redeliver":
		// the queue redelivers its last k messages / the subscribers resume from an earlier offset
		k := int(st.Int("k"))
		if rp.qpos-k < rp.qfloor {
			k = rp.qpos - rp.qfloor
		}
		rp.qpos -= k
		back := func(seen []int64, off *int64, floor int64) {
			kk := int(st.Int("k"))
			if kk > len(seen) {
				kk = len(seen)
			}
			if kk > 0 {
				idx := len(seen) - kk - 1
				if idx < 0 {
					*off = floor
				} else {
					*off = seen[idx]
				}
			}
		}
		back(rp.seen2, &rp.off2, rp.floor2)
		back(rp.seen2l, &rp.off2l, rp.floor2l)
		r.Log("redelivery: the last %d events will be delivered again", k)
		r.Abs("redeliver")
		r.Fault("redelivery")
		return
	}
	if st.Str("act") == "lose" {
		// the target no longer has one of the mirrored files (it lost it, or replication started after the file was
		// made): nothing is demanded for it until the source changes it again; the UPDATE of an entry the target
		// lacks must then (re)create it there
		s.replCatchUp()
		var files []string
		for k, e := range rp.rec1.tree {
			if !e.isDir {
				files = append(files, k)
			}
		}
		sort.Strings(files)
		if len(files) > 0 {
			k := files[simkit.StepRand(st, 5).Intn(len(files))]
			delete(rp.rec1.tree, k)
			if rp.lost1 == nil {
				rp.lost1 = map[string]int{}
			}
			rp.lost1[k] = rp.rec1.updates[k]
			r.Log("the filer-like target loses %s", k)
			r.Abs("lose")
			r.Fault("target-lacks-an-entry")
		}
		return
	}
	s.replCatchUp()
	r.Abs("replicate")
	s.checkSinks()
}

// replCatchUp delivers everything that is outstanding on both paths.
func (s *sess) replCatchUp() {
	rp := s.repl
	r := s.r
	n1 := 0
	for ; rp.qpos < len(rp.queue); rp.qpos++ {
		q := rp.queue[rp.qpos]
		for _, rep := range []*replication.Replicator{rp.repl1, rp.repl1k, rp.repl1l} {
			if err := rep.Replicate(ctx, q.key, proto.Clone(q.msg).(*filer_pb.EventNotification)); err != nil {
				r.Log("note: Replicate(%s) returned %s", q.key, strings.ReplaceAll(err.Error(), r.Dir, "$RUN"))
				if rep == rp.repl1l && s.copyFailed("Replicator -> local sink", err) {
					return
				}
			}
		}
		n1++
	}
	feed := func(evs []*filer_pb.SubscribeMetadataResponse, fn func(*filer_pb.SubscribeMetadataResponse) error, off *int64, seen *[]int64) int {
		n := 0
		for _, ev := range evs {
			if ev.EventNotification == nil || (ev.EventNotification.OldEntry == nil && ev.EventNotification.NewEntry == nil) {
				continue
			}
			if err := fn(ev); err != nil {
				r.Log("note: process function returned %s for event in %s", strings.ReplaceAll(err.Error(), r.Dir, "$RUN"), ev.Directory)
				if off == &rp.off2l && s.copyFailed("subscription(backup) -> process function -> local sink", err) {
					return n
				}
			}
			*off = ev.TsNs
			known := false
			for _, t := range *seen {
				if t == ev.TsNs {
					known = true
				}
			}
			if !known {
				*seen = append(*seen, ev.TsNs)
			}
			n++
		}
		return n
	}
	n2 := feed(s.subscribe(rp.off2, rp.targetSig), rp.fn2, &rp.off2, &rp.seen2)
	n2l := feed(s.subscribe(rp.off2l, 0), rp.fn2l, &rp.off2l, &rp.seen2l)
	s.flushServed()
	r.Log("replicated: %d queue messages, %d + %d subscribed events", n1, n2, n2l)
	if n1+n2+n2l > 0 {
		r.NonTrivial()
		r.Probe("events-replicated")
	}
}

// projection: what the statement says the sink must hold, from the source model.
func (s *sess) projection(target string, filesOnly bool) map[string]bool {
	out := map[string]bool{}
	w := s.repl.watch
	for _, p := range s.model.paths() {
		if !under(p, w) {
			continue
		}
		e := s.model.expected(p)
		if filesOnly && e.IsDir {
			continue
		}
		out[target+p[len(w):]] = e.IsDir
	}
	return out
}

func localFiles(root string) map[string]bool {
	out := map[string]bool{}
	filepath.Walk(root, func(p string, info os.FileInfo, err error) error {
		if err == nil && !info.IsDir() {
			out[p] = false
		}
		return nil
	})
	return out
}

func (s *sess) checkSinks() {
	rp := s.repl
	r := s.r
	cause := func() string {
		if rp.sibling {
			return "history touched a sibling whose name extends the watched directory's name"
		}
		return s.lastOp
	}
	cmp := func(which string, got0 map[string]bool, want0 map[string]bool, root string) bool {
		// real scratch paths never reach the event log
		sym := func(m map[string]bool) map[string]bool {
			out := map[string]bool{}
			for p, v := range m {
				out[strings.Replace(p, s.r.Dir, "$RUN", 1)] = v
			}
			return out
		}
		got, want := sym(got0), sym(want0)
		root = strings.Replace(root, s.r.Dir, "$RUN", 1)
		if strings.Contains(which, "like the filer sink") {
			// whatever the shape of the history: one root cause, one key
			cause = func() string { return "Replicator hands update events to the sink with the source-side NewParentPath" }
		}
		for _, p := range sortedKeys(want) {
			isDir, ok := got[p]
			if !ok {
				r.Violate("sink-misses-entry", which+": "+cause(), "%s: %s is missing in the sink; sink holds %v, the watched subtree maps to %v", which, p, sortedKeys(got), sortedKeys(want))
				return false
			}
			if isDir != want[p] {
				r.Violate("sink-kind-differs", which+": "+cause(), "%s: %s has the wrong kind in the sink", which, p)
				return false
			}
		}
		for _, p := range sortedKeys(got) {
			if _, ok := want[p]; !ok && p != root {
				class := "sink-extra-entry"
				if !strings.HasPrefix(p, root+"/") {
					class = "sink-touched-outside-target"
				}
				r.Violate(class, which+": "+cause(), "%s: %s is in the sink but nothing in the watched subtree maps to it; sink holds %v, the watched subtree maps to %v", which, p, sortedKeys(got), sortedKeys(want))
				return false
			}
		}
		return true
	}
	tree := func(rs *recSink) map[string]bool {
		out := map[string]bool{}
		for p, e := range rs.tree {
			out[p] = e.isDir
		}
		return out
	}
	checks := []func() bool{
		func() bool {
			return cmp("Replicator -> recording sink (update = replace at key)", tree(rp.rec1k), s.projection(rp.target, false), rp.target)
		},
		func() bool {
			return cmp("Replicator -> local sink", localFiles(rp.loc1Dir), s.projection(rp.loc1Dir, true), rp.loc1Dir) &&
				s.checkSinkContent("Replicator -> local sink", rp.loc1Dir)
		},
		func() bool {
			return cmp("subscription(sync) -> process function -> recording sink", tree(rp.rec2), s.projection(rp.target, false), rp.target)
		},
		func() bool {
			return cmp("subscription(backup) -> process function -> local sink", localFiles(rp.loc2Dir), s.projection(rp.loc2Dir, true), rp.loc2Dir) &&
				s.checkSinkContent("subscription(backup) -> process function -> local sink", rp.loc2Dir)
		},
	}
	// only the first violation of a run is reported: which path is looked at first rotates with the plan
	for i := range checks {
		if !checks[(i+int(s.r.Plan.Seed%4))%4]() {
			return
		}
	}
	for _, rs := range []*recSink{rp.rec1, rp.rec1k, rp.rec2} {
		if rs.sawTarget != "" {
			r.Violate("change-from-target-reapplied", "sink call carries the target's signature", "a change that originated from the target cluster was applied to it again: %s", rs.sawTarget)
			return
		}
	}
	// last, the recording sink that saves updates under the parent path it is handed, as the filer sink does
	t1, proj1 := tree(rp.rec1), s.projection(rp.target, false)
	var lostKeys []string
	for k := range rp.lost1 {
		lostKeys = append(lostKeys, k)
	}
	sort.Strings(lostKeys)
	for _, k := range lostKeys {
		_, present := rp.rec1.tree[k]
		_, wanted := proj1[k]
		switch {
		case present || !wanted:
			delete(rp.lost1, k) // re-created by a later event, or gone at the source as well
		case rp.rec1.updates[k] > rp.lost1[k]:
			r.Violate("sink-misses-entry", "update of an entry the target lacks", "Replicator -> filer-like sink: %s was missing in the target; the source has since updated it (%d update events processed) and it is still missing", k, rp.rec1.updates[k]-rp.lost1[k])
			return
		default:
			t1[k] = proj1[k] // still lost, not touched by the source since: nothing demanded
		}
	}
	if !cmp("Replicator -> recording sink (update saved under the handed parent path, like the filer sink)", t1, proj1, rp.target) {
		return
	}
	r.Probe("sinks-compared")
}

// beginFromTarget: the next operation is a change that the target cluster made and that was
// replicated to the source (it carries the target's signature and the from-other-cluster flag).
func (s *sess) beginFromTarget(st *simkit.Step, p string) bool {
	if s.repl == nil || st.Int("ft") != 1 || !under(p, s.repl.watch) || !s.model.isDir(parentOf(p)) {
		return false
	}
	// the target made this change on top of everything it had received so far
	s.replCatchUp()
	s.sigs, s.fromOther = []int32{s.repl.targetSig}, true
	return true
}

// endFromTarget: the target already has that change; put it into the recording sinks' trees.
func (s *sess) endFromTarget(ft bool, before *model) {
	s.sigs, s.fromOther = nil, false
	if !ft || s.r.Violated() {
		return
	}
	rp := s.repl
	mapped := func(p string) string { return rp.target + p[len(rp.watch):] }
	for _, p := range before.paths() {
		if under(p, rp.watch) && s.model.nodes[p] == nil {
			for _, rs := range []*recSink{rp.rec1, rp.rec1k, rp.rec2} {
				rs.DeleteEntry(mapped(p), before.nodes[p].s.IsDir, false, nil)
				rs.calls--
			}
		}
	}
	for _, p := range s.model.paths() {
		if under(p, rp.watch) {
			e := s.model.expected(p)
			if b := before.nodes[p]; b == nil || before.expected(p).diff(e) != "" {
				for _, rs := range []*recSink{rp.rec1, rp.rec1k, rp.rec2} {
					rs.tree[mapped(p)] = recEntry{isDir: e.IsDir, mtime: e.Mtime}
				}
			}
		}
	}
	s.r.Probe("change-from-target-cluster")
	// the events of this change itself are consumed now (they must be skipped), and redelivery never
	// reaches back across it: replaying source events from before a change the target made itself,
	// without that change, is outside what the statement describes
	s.replCatchUp()
	rp.qfloor = rp.qpos
	rp.seen2, rp.seen2l = nil, nil
	rp.floor2, rp.floor2l = rp.off2, rp.off2l
}

func (s *sess) noteSibling(paths ...string) {
	if s.repl == nil {
		return
	}
	for _, p := range paths {
		if strings.HasPrefix(p, s.repl.watch) && p != s.repl.watch && !under(p, s.repl.watch) {
			s.repl.sibling = true
		}
	}
}

func (s *sess) finalChecks() {
	if s.repl == nil {
		return
	}
	s.lastOp = "end of run"
	s.replCatchUp()
	s.checkSinks()
}

var _ = fmt.Sprint
var _ = sort.Strings
