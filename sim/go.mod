module verifsim

go 1.26

require github.com/chrislusf/seaweedfs v0.0.0

require (
	github.com/aws/aws-sdk-go v1.34.30 // indirect
	github.com/beorn7/perks v1.0.1 // indirect
	github.com/cespare/xxhash/v2 v2.1.1 // indirect
	github.com/disintegration/imaging v1.6.2 // indirect
	github.com/fsnotify/fsnotify v1.4.9 // indirect
	github.com/go-errors/errors v1.1.1 // indirect
	github.com/golang-jwt/jwt v3.2.1+incompatible // indirect
	github.com/golang/protobuf v1.4.3 // indirect
	github.com/golang/snappy v0.0.1 // indirect
	github.com/google/btree v1.0.0 // indirect
	github.com/google/uuid v1.1.1 // indirect
	github.com/grpc-ecosystem/go-grpc-middleware v1.0.1-0.20190118093823-f849b5445de4 // indirect
	github.com/hashicorp/hcl v1.0.0 // indirect
	github.com/jmespath/go-jmespath v0.4.0 // indirect
	github.com/klauspost/cpuid v1.2.1 // indirect
	github.com/klauspost/crc32 v1.2.0 // indirect
	github.com/klauspost/reedsolomon v1.9.2 // indirect
	github.com/magiconair/properties v1.8.1 // indirect
	github.com/matttproud/golang_protobuf_extensions v1.0.1 // indirect
	github.com/mitchellh/mapstructure v1.1.2 // indirect
	github.com/pelletier/go-toml v1.7.0 // indirect
	github.com/pkg/errors v0.9.1 // indirect
	github.com/prometheus/client_golang v1.11.0 // indirect
	github.com/prometheus/client_model v0.2.0 // indirect
	github.com/prometheus/common v0.26.0 // indirect
	github.com/prometheus/procfs v0.6.0 // indirect
	github.com/seaweedfs/goexif v1.0.2 // indirect
	github.com/spaolacci/murmur3 v1.1.0 // indirect
	github.com/spf13/afero v1.3.1 // indirect
	github.com/spf13/cast v1.3.0 // indirect
	github.com/spf13/jwalterweatherman v1.1.0 // indirect
	github.com/spf13/pflag v1.0.3 // indirect
	github.com/spf13/viper v1.4.0 // indirect
	github.com/syndtr/goleveldb v1.0.0 // indirect
	github.com/valyala/bytebufferpool v1.0.0 // indirect
	github.com/viant/ptrie v0.3.0 // indirect
	github.com/viant/toolbox v0.33.2 // indirect
	github.com/willf/bitset v1.1.10 // indirect
	github.com/willf/bloom v2.0.3+incompatible // indirect
	golang.org/x/image v0.0.0-20200119044424-58c23975cae1 // indirect
	golang.org/x/net v0.0.0-20201202161906-c7110b5ffcbb // indirect
	golang.org/x/sys v0.0.0-20210603081109-ebe580a85c40 // indirect
	golang.org/x/text v0.3.5 // indirect
	google.golang.org/genproto v0.0.0-20200608115520-7c474a2e3482 // indirect
	google.golang.org/grpc v1.29.1 // indirect
	google.golang.org/protobuf v1.26.0-rc.1 // indirect
	gopkg.in/yaml.v2 v2.3.0 // indirect
)

replace github.com/chrislusf/seaweedfs => /repo

replace go.etcd.io/etcd => go.etcd.io/etcd v0.5.0-alpha.5.0.20200425165423-262c93980547
