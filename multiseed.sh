#!/bin/sh
# usage: multiseed.sh "<seeds>" <Cxx>...   — runs the quick tier of each property under each seed and prints only alarms
seeds="$1"; shift
for p in "$@"; do for s in $seeds; do
  out=$(VERIF_SEED=$s /verif/bin/verif check $p --tier quick 2>&1); rc=$?
  if [ $rc -ne 0 ]; then echo "== $p seed=$s exit=$rc"; echo "$out" | grep -E "^VIOLATION|^  class|HARNESS" | cut -c1-400; fi
  if [ $rc -eq 2 ]; then echo "$out" > /tmp/multiseed-exit2-$p-$s.txt; fi
  echo "$out" | grep -E "^WARNING" | cut -c1-300
done; done
echo "multiseed done: $*"
