#!/bin/sh
# usage: check.sh <Cxx> <quick|thorough>   — rebuilds the driver (cheap) and runs one check
export GOFLAGS=-mod=mod GOPROXY=off GOSUMDB=off GOTOOLCHAIN=local CGO_ENABLED=0
cd /verif/sim || exit 2
if [ ! -f go.sum ]; then cat /repo/go.sum go.sum.extra > go.sum 2>/dev/null || cp /repo/go.sum go.sum; fi
mkdir -p /verif/bin /verif/.work
go1.26.8 build -tags verif -o /verif/bin/verif ./cmd/verif || { echo "HARNESS-ERROR driver build failed"; exit 2; }
cd /verif && exec /verif/bin/verif check "$1" --tier "${2:-quick}"
