#!/bin/sh
# Builds the driver and warms the Go build cache for every engine, offline.
set -e
export GOFLAGS=-mod=mod GOPROXY=off GOSUMDB=off GOTOOLCHAIN=local CGO_ENABLED=0
cd /verif/sim
cat /repo/go.sum go.sum.extra > go.sum 2>/dev/null || cp /repo/go.sum go.sum
mkdir -p /verif/bin /verif/.work
go1.26.8 build -tags verif -o /verif/bin/verif ./cmd/verif
/verif/bin/verif build
